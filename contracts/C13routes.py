"""C13 (T1, second group) -- the glue of two reading routes, decided on the AST of the real source, no solver:

  single tree by offsets  (dendropy.datamodel.treemodel._tree.Tree._parse_and_create_from_stream)
  * the reader is made by `dataio.get_reader(schema, **kwargs)` and reads the caller's stream;
  * `collection_offset` / `tree_offset` are replaced by 0 exactly when they are None (`if x is None: x = 0`, nothing else binds them),
    and both default to None;
  * the tree returned is `tree_lists[collection_offset][tree_offset]` of what that reader delivered -- the same indexing a caller
    of the whole-list route would write;

  incremental read into an existing list  (dendropy.datamodel.treecollectionmodel.TreeList._parse_and_add_from_stream)
  * delegates once to `TreeList._parse_and_create_from_stream` with the caller's stream, schema, collection_offset, tree_offset and
    **kwargs, after storing `self.taxon_namespace` and `self` under the keys "taxon_namespace" / "tree_list" (the list read into is the
    receiver, over the receiver's namespace);
  * a different namespace given by the caller is refused (a `raise` under the `is not self.taxon_namespace` test), not overridden;
  * the number returned is the growth of `self._trees` across that call.


  whole list, with or without offsets  (TreeList._parse_and_create_from_stream)
  * the reader is made for the caller's schema and options, from which only `tree_list`, `label` and the namespace keywords are taken out;
    both branches read the caller's stream;
  * a tree offset alone means the first collection; the collection selected is `tree_lists[collection_offset]` of what the reader delivered;
  * with a tree offset every tree from it on is appended in order (`for tree in target[tree_offset:]: tree_list._trees.append(tree)`), without one
    every tree of the collection; which of the two runs is decided by `tree_offset is not None` alone;
  * the list returned is the one given as `tree_list=` or a new `cls(label=label, taxon_namespace=taxon_namespace)`.


  full data set  (dendropy.datamodel.datasetmodel.DataSet._parse_and_create_from_stream / _parse_and_add_from_stream)
  * the reader is made for the caller's schema and options, from which only `label`, the two exclusion flags and the namespace keywords are
    taken out; one unconditional `read_dataset(stream=stream, dataset=<the new data set | self>, taxon_namespace=…, exclude_trees=…,
    exclude_chars=…)`; the exclusion flags are the caller's, False by default;
  * the new data set is returned; reading into an existing one returns the growth of its three lists across the read, uses the attached
    namespace when none is given and refuses a different one.

What the reader does with these arguments (and the no-offset branch's pseudo-factories) is bounded only (bounded/C13.py)."""
import ast
import time

from dpvc import frontend
from contracts.C09 import _method, _calls, _kw, _is_name, _passes_kwargs, _bindings, _stmt_index

TR = "dendropy.datamodel.treemodel._tree"
TC = "dendropy.datamodel.treecollectionmodel"
SINK = "_parse_and_create_from_stream"


def route_obligations(ctx):
    out = []
    t0 = [time.time()]

    def emit(name, ok, target, why):
        ctx.obligation(name, "proved" if ok else "refuted", "ast-scan", time.time() - t0[0], target, detail=None if ok else why)
        t0[0] = time.time()
        if not ok:
            out.append((name, target, why))

    # ---- Tree: one tree by collection / tree offset
    m = frontend.module(TR)
    fn = _method(m, "Tree", SINK)
    target = "%s:Tree.%s" % (TR, SINK)
    p = "Tree.%s" % SINK
    if fn is None:
        emit(p + ".exists", False, target, "method not found")
    else:
        ctx.add_function(target)
        gr = [n for n in ast.walk(fn) if isinstance(n, ast.Call) and isinstance(n.func, ast.Attribute) and n.func.attr == "get_reader"]
        ok = len(gr) == 1 and len(gr[0].args) == 1 and _is_name(gr[0].args[0], "schema") and _passes_kwargs(gr[0], fn) and len(gr[0].keywords) == 1
        emit(p + ".reader-made-for[schema, **kwargs]", ok, target, "get_reader call: %s" % (ast.unparse(gr[0]) if gr else "none"))
        rc = _calls(fn, "read_tree_lists")
        rname = None
        for n in ast.walk(fn):
            if isinstance(n, ast.Assign) and rc and n.value is rc[0] and len(n.targets) == 1 and isinstance(n.targets[0], ast.Name):
                rname = n.targets[0].id
        ok = len(rc) == 1 and _is_name(_kw(rc[0], "stream"), "stream") and not _bindings(fn, "stream") and not _bindings(fn, "schema")
        emit(p + ".reads-the-caller's-stream", ok, target, "read_tree_lists calls: %s" % [ast.unparse(c)[:100] for c in rc])
        names = [a.arg for a in fn.args.args]
        d = dict(zip(names[-len(fn.args.defaults):], fn.args.defaults)) if fn.args.defaults else {}
        for off in ("collection_offset", "tree_offset"):
            emit("%s.%s-defaults-to-None" % (p, off), isinstance(d.get(off), ast.Constant) and d[off].value is None, target,
                 "default: %s" % (ast.unparse(d[off]) if off in d else "none"))
            b = _bindings(fn, off)
            guarded = False
            for s in fn.body:
                if isinstance(s, ast.If) and not s.orelse and len(s.body) == 1 and isinstance(s.test, ast.Compare) and _is_name(s.test.left, off) and \
                        len(s.test.ops) == 1 and isinstance(s.test.ops[0], ast.Is) and isinstance(s.test.comparators[0], ast.Constant) and \
                        s.test.comparators[0].value is None and isinstance(s.body[0], ast.Assign) and len(b) == 1 and s.body[0].value is b[0] and \
                        isinstance(b[0], ast.Constant) and b[0].value == 0 and type(b[0].value) is int:
                    guarded = True
            emit("%s.%s-is-0-exactly-when-not-given" % (p, off), guarded, target, "bindings of %s: %s" % (off, [ast.unparse(x) for x in b if isinstance(x, ast.expr)]))
        rets = [n for n in ast.walk(fn) if isinstance(n, ast.Return) and not any(
            isinstance(a, (ast.FunctionDef, ast.Lambda)) and a is not fn and any(x is n for x in ast.walk(a)) for a in ast.walk(fn))]
        tname = rets[0].value.id if len(rets) == 1 and isinstance(rets[0].value, ast.Name) else None
        tb = _bindings(fn, tname) if tname else []
        lname = tb[0].value.id if len(tb) == 1 and isinstance(tb[0], ast.Subscript) and isinstance(tb[0].value, ast.Name) else None
        lb = _bindings(fn, lname) if lname else []
        ok = rname is not None and lname is not None and _is_name(tb[0].slice, "tree_offset") and len(lb) == 1 and isinstance(lb[0], ast.Subscript) and \
            _is_name(lb[0].value, rname) and _is_name(lb[0].slice, "collection_offset") and len(_bindings(fn, rname)) == 1
        emit(p + ".returns[tree_lists[collection_offset][tree_offset]]", ok, target,
             "returns %s <- %s <- %s" % (tname, [ast.unparse(x) for x in tb if isinstance(x, ast.expr)], [ast.unparse(x) for x in lb if isinstance(x, ast.expr)]))
        # between the reader's result and the return, the tree's only change is its label
        stores = [n for n in ast.walk(fn) if isinstance(n, ast.Attribute) and isinstance(n.ctx, (ast.Store, ast.Del)) and _is_name(n.value, tname)]
        mcalls = [n for n in ast.walk(fn) if isinstance(n, ast.Call) and isinstance(n.func, ast.Attribute) and (_is_name(n.func.value, tname) or _is_name(n.func.value, lname))]
        emit(p + ".the-selected-tree-is-returned-as-read[only its label is set]", tname is not None and all(s.attr == "label" for s in stores) and not mcalls, target,
             "stores: %s; method calls: %s" % ([ast.unparse(s) for s in stores], [ast.unparse(c) for c in mcalls]))
    # ---- TreeList: incremental read
    m = frontend.module(TC)
    meth = "_parse_and_add_from_stream"
    fn = _method(m, "TreeList", meth)
    target = "%s:TreeList.%s" % (TC, meth)
    p = "TreeList.%s" % meth
    if fn is None:
        emit(p + ".exists", False, target, "method not found")
    else:
        ctx.add_function(target)
        calls = _calls(fn, SINK)
        one = len(calls) == 1 and _stmt_index(fn, calls[0]) >= 0 and isinstance(fn.body[_stmt_index(fn, calls[0])], ast.Expr)
        emit("%s.delegates-once-unconditionally[%s]" % (p, SINK), one, target, "%d call(s) of %s" % (len(calls), SINK))
        if calls:
            c = calls[0]
            ok = not c.args and all(_is_name(_kw(c, k), k) for k in ("stream", "schema", "collection_offset", "tree_offset")) and _passes_kwargs(c, fn) and \
                sorted(k.arg for k in c.keywords if k.arg) == ["collection_offset", "schema", "stream", "tree_offset"] and \
                not any(_bindings(fn, k) for k in ("stream", "schema", "collection_offset", "tree_offset"))
            emit(p + ".forwards[stream, schema, collection_offset, tree_offset, **kwargs]", ok, target, "call: %s" % ast.unparse(c))
            ci = _stmt_index(fn, c)
            sets = {}
            for i, s in enumerate(fn.body[:ci]):
                if isinstance(s, ast.Assign) and len(s.targets) == 1 and isinstance(s.targets[0], ast.Subscript) and _is_name(s.targets[0].value, "kwargs") and \
                        isinstance(s.targets[0].slice, ast.Constant):
                    sets.setdefault(s.targets[0].slice.value, []).append(ast.unparse(s.value))
            emit(p + ".reads-into-the-receiver[tree_list=self]", sets.get("tree_list") == ["self"], target, "kwargs['tree_list'] <- %s" % sets.get("tree_list"))
            emit(p + ".reads-over-the-receiver's-namespace", sets.get("taxon_namespace") == ["self.taxon_namespace"], target, "kwargs['taxon_namespace'] <- %s" % sets.get("taxon_namespace"))
            others = [n for n in ast.walk(fn) if isinstance(n, ast.Call) and isinstance(n.func, ast.Attribute) and _is_name(n.func.value, "kwargs")]
            dels = [n for n in ast.walk(fn) if isinstance(n, ast.Subscript) and _is_name(n.value, "kwargs") and isinstance(n.ctx, (ast.Store, ast.Del))]
            emit(p + ".other-options-untouched", not others and len(dels) == 2 and set(sets) == {"tree_list", "taxon_namespace"}, target,
                 "stores into kwargs: %s; calls on kwargs: %s" % ([ast.unparse(x) for x in dels], [ast.unparse(x) for x in others]))
            refuse = False
            for s in fn.body[:ci]:
                if isinstance(s, ast.If) and s.body and isinstance(s.body[0], ast.Raise):
                    t = ast.unparse(s.test).replace('"', "'")
                    if "kwargs['taxon_namespace'] is not self.taxon_namespace" in t and "'taxon_namespace' in kwargs" in t and isinstance(s.test, ast.BoolOp) and isinstance(s.test.op, ast.And):
                        refuse = True
            emit(p + ".a-foreign-namespace-is-refused", refuse, target, "no `if 'taxon_namespace' in kwargs and kwargs['taxon_namespace'] is not self.taxon_namespace: raise`")
            # returns len(self._trees) after - before
            rets = [n for n in ast.walk(fn) if isinstance(n, ast.Return)]
            ok = False
            if len(rets) == 1 and isinstance(rets[0].value, ast.BinOp) and isinstance(rets[0].value.op, ast.Sub) and isinstance(rets[0].value.left, ast.Name) and isinstance(rets[0].value.right, ast.Name):
                a, b = rets[0].value.left.id, rets[0].value.right.id
                ba, bb = _bindings(fn, a), _bindings(fn, b)
                if len(ba) == 1 and len(bb) == 1 and ast.unparse(ba[0]) == ast.unparse(bb[0]) == "len(self._trees)":
                    ia = [i for i, s in enumerate(fn.body) if isinstance(s, ast.Assign) and s.value is ba[0]]
                    ib = [i for i, s in enumerate(fn.body) if isinstance(s, ast.Assign) and s.value is bb[0]]
                    ok = bool(ia and ib) and ib[0] < ci < ia[0]
            emit(p + ".returns-the-growth-of-the-list-across-the-read", ok, target, "returns %s" % [ast.unparse(r.value) if r.value is not None else None for r in rets])
    # ---- TreeList: the whole-list route with and without offsets
    fn = _method(m, "TreeList", SINK)
    target = "%s:TreeList.%s" % (TC, SINK)
    p = "TreeList.%s" % SINK
    if fn is None:
        emit(p + ".exists", False, target, "method not found")
    else:
        ctx.add_function(target)
        gr = [n for n in ast.walk(fn) if isinstance(n, ast.Call) and isinstance(n.func, ast.Attribute) and n.func.attr == "get_reader"]
        ok = len(gr) == 1 and len(gr[0].args) == 1 and _is_name(gr[0].args[0], "schema") and _passes_kwargs(gr[0], fn) and len(gr[0].keywords) == 1
        emit(p + ".reader-made-for[schema, **kwargs]", ok, target, "get_reader call: %s" % (ast.unparse(gr[0]) if gr else "none"))
        # the only things taken out of the options before the reader is made: tree_list, label, and the namespace keywords (by the one library function for that)
        pops = [n for n in ast.walk(fn) if isinstance(n, ast.Call) and isinstance(n.func, ast.Attribute) and _is_name(n.func.value, "kwargs")]
        popped = sorted(ast.unparse(c.args[0]) if c.func.attr == "pop" and c.args else "?" + c.func.attr for c in pops)
        stores = [n for n in ast.walk(fn) if isinstance(n, ast.Subscript) and _is_name(n.value, "kwargs") and isinstance(n.ctx, (ast.Store, ast.Del))]
        passed = [n for n in ast.walk(fn) if isinstance(n, ast.Call) and any(_is_name(a, "kwargs") for a in n.args)]
        ok = popped == ["'label'", "'tree_list'"] and not stores and len(passed) == 1 and ast.unparse(passed[0].func).endswith("process_kwargs_dict_for_taxon_namespace")
        emit(p + ".only[tree_list, label, namespace keywords]-are-taken-out-of-the-options", ok, target,
             "popped: %s; stores: %s; kwargs handed to: %s" % (popped, [ast.unparse(x) for x in stores], [ast.unparse(x.func) for x in passed]))
        rc = _calls(fn, "read_tree_lists")
        ok = len(rc) == 2 and all(_is_name(_kw(c, "stream"), "stream") for c in rc) and not _bindings(fn, "stream") and not _bindings(fn, "schema")
        emit(p + ".every-branch-reads-the-caller's-stream", ok, target, "%d read_tree_lists call(s)" % len(rc))
        # collection_offset: bound only by `if collection_offset is None and tree_offset is not None: collection_offset = 0`; tree_offset: never bound
        cb = _bindings(fn, "collection_offset")
        ok = False
        for st in fn.body:
            if isinstance(st, ast.If) and not st.orelse and len(st.body) == 1 and isinstance(st.body[0], ast.Assign) and len(cb) == 1 and st.body[0].value is cb[0] and \
                    isinstance(cb[0], ast.Constant) and cb[0].value == 0 and type(cb[0].value) is int and \
                    ast.unparse(st.test) == "collection_offset is None and tree_offset is not None":
                ok = True
        emit(p + ".a-tree-offset-alone-means-the-first-collection", ok and not _bindings(fn, "tree_offset"), target,
             "bindings: collection_offset %s, tree_offset %s" % ([ast.unparse(x) for x in cb if isinstance(x, ast.expr)], len(_bindings(fn, "tree_offset"))))
        rets = [n for n in ast.walk(fn) if isinstance(n, ast.Return)]
        lname = rets[0].value.id if len(rets) == 1 and isinstance(rets[0].value, ast.Name) else None
        loops = [n for n in ast.walk(fn) if isinstance(n, ast.For)]
        tb = None
        for n in ast.walk(fn):
            if isinstance(n, ast.Assign) and isinstance(n.value, ast.Subscript) and _is_name(n.value.slice, "collection_offset") and len(n.targets) == 1 and isinstance(n.targets[0], ast.Name):
                tb = n
        tname = tb.targets[0].id if tb is not None else None
        srcname = tb.value.value.id if tb is not None and isinstance(tb.value.value, ast.Name) else None
        srcb = _bindings(fn, srcname) if srcname else []
        ok = tname is not None and len(_bindings(fn, tname)) == 1 and len(srcb) == 1 and any(srcb[0] is c for c in rc)
        emit(p + ".the-collection-selected-is[tree_lists[collection_offset]]-of-what-the-reader-delivered", ok, target, "target bound by %s" % (ast.unparse(tb) if tb is not None else None))

        def appends_each(loop):
            return len(loop.body) == 1 and isinstance(loop.body[0], ast.Expr) and isinstance(loop.body[0].value, ast.Call) and not loop.orelse and \
                isinstance(loop.target, ast.Name) and ast.unparse(loop.body[0].value) == "%s._trees.append(%s)" % (lname, loop.target.id)
        with_off = [l for l in loops if isinstance(l.iter, ast.Subscript) and isinstance(l.iter.slice, ast.Slice)]
        without = [l for l in loops if isinstance(l.iter, ast.Name)]
        ok = len(with_off) == 1 and _is_name(with_off[0].iter.value, tname) and _is_name(with_off[0].iter.slice.lower, "tree_offset") and \
            with_off[0].iter.slice.upper is None and with_off[0].iter.slice.step is None and appends_each(with_off[0])
        emit(p + ".with-a-tree-offset-every-tree-from-it-on-is-appended-in-order", ok, target, "loops over a slice: %s" % [ast.unparse(l.iter) for l in with_off])
        ok = len(without) == 1 and _is_name(without[0].iter, tname) and appends_each(without[0]) and len(loops) == 2
        emit(p + ".without-one-every-tree-of-the-collection-is-appended-in-order", ok, target, "loops: %s" % [ast.unparse(l.iter) for l in loops])
        # which loop runs is decided by `tree_offset is not None` alone
        sel = False
        for n in ast.walk(fn):
            if isinstance(n, ast.If) and ast.unparse(n.test) == "tree_offset is not None" and with_off and without and \
                    any(x is with_off[0] for st in n.body for x in ast.walk(st)) and any(x is without[0] for st in n.orelse for x in ast.walk(st)):
                sel = True
        emit(p + ".the-offset-branch-is-taken-exactly-when-an-offset-is-given", sel, target, "no `if tree_offset is not None:` separating the two loops")
        lb = _bindings(fn, lname) if lname else []
        ok = lname is not None and len(lb) == 2 and sorted(ast.unparse(x) for x in lb) == ["cls(label=label, taxon_namespace=taxon_namespace)", "kwargs.pop('tree_list', None)"]
        emit(p + ".returns-the-list-given-or-a-new-one-of-the-class-asked", ok, target, "returned name %s bound to %s" % (lname, [ast.unparse(x) for x in lb if isinstance(x, ast.expr)]))
    # ---- DataSet: the full data set route (new object / reading into an existing one)
    DSM = "dendropy.datamodel.datasetmodel"
    md = frontend.module(DSM)
    for meth, dsname in ((SINK, None), ("_parse_and_add_from_stream", "self")):
        fn = _method(md, "DataSet", meth)
        target = "%s:DataSet.%s" % (DSM, meth)
        p = "DataSet.%s" % meth
        if fn is None:
            emit(p + ".exists", False, target, "method not found")
            continue
        ctx.add_function(target)
        gr = [n for n in ast.walk(fn) if isinstance(n, ast.Call) and isinstance(n.func, ast.Attribute) and n.func.attr == "get_reader"]
        ok = len(gr) == 1 and len(gr[0].args) == 1 and _is_name(gr[0].args[0], "schema") and _passes_kwargs(gr[0], fn) and len(gr[0].keywords) == 1
        emit(p + ".reader-made-for[schema, **kwargs]", ok, target, "get_reader call: %s" % (ast.unparse(gr[0]) if gr else "none"))
        pops = [n for n in ast.walk(fn) if isinstance(n, ast.Call) and isinstance(n.func, ast.Attribute) and _is_name(n.func.value, "kwargs")]
        popped = sorted(ast.unparse(c) for c in pops)
        want = ["kwargs.pop('label', None)"] + (["kwargs.pop('exclude_chars', False)", "kwargs.pop('exclude_trees', False)"] if dsname is None else [])
        stores = [n for n in ast.walk(fn) if isinstance(n, ast.Subscript) and _is_name(n.value, "kwargs") and isinstance(n.ctx, (ast.Store, ast.Del))]
        emit(p + ".only[label, exclusion flags, namespace keywords]-are-taken-out-of-the-options", popped == sorted(want) and not stores, target, "calls on kwargs: %s" % popped)
        rc = _calls(fn, "read_dataset")
        if dsname is None:
            mk = [n for n in ast.walk(fn) if isinstance(n, ast.Assign) and isinstance(n.value, ast.Call) and _is_name(n.value.func, "DataSet") and len(n.targets) == 1 and isinstance(n.targets[0], ast.Name)]
            dsn = mk[0].targets[0].id if len(mk) == 1 and len(_bindings(fn, mk[0].targets[0].id)) == 1 else None
        else:
            dsn = "self"
        ok = len(rc) == 1 and _is_name(_kw(rc[0], "stream"), "stream") and dsn is not None and _is_name(_kw(rc[0], "dataset"), dsn) and \
            all(_is_name(_kw(rc[0], k), k) for k in ("taxon_namespace", "exclude_trees", "exclude_chars")) and not rc[0].args and \
            not any(_bindings(fn, k) for k in ("stream", "schema")) and isinstance(fn.body[_stmt_index(fn, rc[0])], ast.Expr)
        emit(p + ".one-unconditional-read[stream, the data set, taxon_namespace, exclude_trees, exclude_chars]", ok, target, "read_dataset calls: %s" % [ast.unparse(c)[:160] for c in rc])
        if dsname is None:
            eb = dict((k, _bindings(fn, k)) for k in ("exclude_trees", "exclude_chars"))
            ok = all(len(v) == 1 and ast.unparse(v[0]) == "kwargs.pop('%s', False)" % k for k, v in eb.items())
            emit(p + ".exclusion-flags-are-the-caller's[default False]", ok, target, "bindings: %s" % dict((k, [ast.unparse(x) for x in v if isinstance(x, ast.expr)]) for k, v in eb.items()))
            rets = [n for n in ast.walk(fn) if isinstance(n, ast.Return)]
            emit(p + ".returns-the-data-set-read-into", len(rets) == 1 and _is_name(rets[0].value, dsn), target, "returns %s" % [ast.unparse(r.value) if r.value is not None else None for r in rets])
        else:
            names = [a.arg for a in fn.args.args]
            d = dict(zip(names[-len(fn.args.defaults):], fn.args.defaults)) if fn.args.defaults else {}
            ok = all(isinstance(d.get(k), ast.Constant) and d[k].value is False for k in ("exclude_trees", "exclude_chars")) and \
                not any(_bindings(fn, k) for k in ("exclude_trees", "exclude_chars"))
            emit(p + ".exclusion-flags-are-the-caller's[default False]", ok, target, "defaults: %s" % dict((k, ast.unparse(v)) for k, v in d.items()))
            # returns (growth of taxon_namespaces, tree_lists, char_matrices) across the read
            rets = [n for n in ast.walk(fn) if isinstance(n, ast.Return)]
            ok = False
            if len(rets) == 1 and isinstance(rets[0].value, ast.Tuple) and len(rets[0].value.elts) == 3 and rc:
                ci = _stmt_index(fn, rc[0])
                ok = True
                for e, attr in zip(rets[0].value.elts, ("taxon_namespaces", "tree_lists", "char_matrices")):
                    if not (isinstance(e, ast.BinOp) and isinstance(e.op, ast.Sub) and isinstance(e.left, ast.Name) and isinstance(e.right, ast.Name)):
                        ok = False
                        break
                    ba, bb = _bindings(fn, e.left.id), _bindings(fn, e.right.id)
                    if not (len(ba) == 1 and len(bb) == 1 and ast.unparse(ba[0]) == ast.unparse(bb[0]) == "len(self.%s)" % attr):
                        ok = False
                        break
                    ia = [i for i, st in enumerate(fn.body) if isinstance(st, ast.Assign) and st.value is ba[0]]
                    ib = [i for i, st in enumerate(fn.body) if isinstance(st, ast.Assign) and st.value is bb[0]]
                    ok = ok and bool(ia and ib) and ib[0] < ci < ia[0]
            emit(p + ".returns-the-growth-of[taxon_namespaces, tree_lists, char_matrices]", ok, target, "returns %s" % [ast.unparse(r.value) if r.value is not None else None for r in rets])
            # an attached namespace is used when none is given, and a different one is refused
            txt = [ast.unparse(st).replace('"', "'") for st in fn.body if isinstance(st, ast.If)]
            refuse = any("self.attached_taxon_namespace is not taxon_namespace" in t and "raise ValueError" in t for t in txt)
            use = any(t.startswith("if self.attached_taxon_namespace is not None and taxon_namespace is None:") and "taxon_namespace = self.attached_taxon_namespace" in t for t in txt)
            tb = _bindings(fn, "taxon_namespace")
            emit(p + ".the-attached-namespace-is-used-when-none-is-given-and-another-is-refused", refuse and use and len(tb) == 2, target,
                 "bindings of taxon_namespace: %s" % [ast.unparse(x) for x in tb if isinstance(x, ast.expr)])
    return out


def native_offsets_disagree():
    """native witness search: every (collection, tree) offset of a two-block document by Tree.get vs the whole data set; TreeList.read growth"""
    import dendropy
    nexus = ("#NEXUS\nBEGIN TAXA;\n DIMENSIONS NTAX=3;\n TAXLABELS A B C;\nEND;\nBEGIN TREES;\n TREE t1 = (A,(B,C));\n TREE t2 = ((A,B),C);\nEND;\n"
             "BEGIN TREES;\n TREE u1 = ((A,C),B);\n TREE u2 = (A,B,C);\n TREE u3 = (C,(B,A));\nEND;\n")
    ds = dendropy.DataSet.get(data=nexus, schema="nexus")
    for ci, tl in enumerate(ds.tree_lists):
        for ti, t in enumerate(tl):
            want = t.as_string("newick").strip()
            for kw in (dict(collection_offset=ci, tree_offset=ti),) + ((dict(tree_offset=ti),) if ci == 0 else ()) + ((dict(collection_offset=ci),) if ti == 0 else ()) + \
                    ((dict(),) if ci == 0 and ti == 0 else ()):
                try:
                    got = dendropy.Tree.get(data=nexus, schema="nexus", **kw).as_string("newick").strip()
                except Exception as e:  # noqa
                    got = "raises %s" % type(e).__name__
                if got != want:
                    return dict(text=nexus, options=kw, route="Tree.get", got=got, want=want)
    for ci, tl in enumerate(ds.tree_lists):
        for ti in range(len(tl)):
            want = [t.as_string("newick").strip() for t in tl[ti:]]
            for kw in (dict(collection_offset=ci, tree_offset=ti),) + ((dict(tree_offset=ti),) if ci == 0 else ()) + ((dict(collection_offset=ci),) if ti == 0 else ()):
                try:
                    got = [t.as_string("newick").strip() for t in dendropy.TreeList.get(data=nexus, schema="nexus", **kw)]
                except Exception as e:  # noqa
                    got = "raises %s" % type(e).__name__
                if got != want:
                    return dict(text=nexus, options=kw, route="TreeList.get", got=got, want=want)
    allt = [t.as_string("newick").strip() for tl in ds.tree_lists for t in tl]
    got = [t.as_string("newick").strip() for t in dendropy.TreeList.get(data=nexus, schema="nexus")]
    if got != allt:
        return dict(text=nexus, options={}, route="TreeList.get", got=got, want=allt)
    # the data set route: DataSet.get against DataSet().read, the exclusion flags, the counts returned, an attached namespace
    ds2 = dendropy.DataSet()
    counts = ds2.read(data=nexus, schema="nexus")
    dump = lambda d: [[t.as_string("newick").strip() for t in tl] for tl in d.tree_lists]  # noqa
    if dump(ds2) != dump(ds) or tuple(counts) != (len(ds.taxon_namespaces), len(ds.tree_lists), len(ds.char_matrices)):
        return dict(text=nexus, options={}, route="DataSet.read", got=[dump(ds2), list(counts)], want=[dump(ds), [len(ds.taxon_namespaces), len(ds.tree_lists), len(ds.char_matrices)]])
    for kw in (dict(exclude_trees=True), dict(exclude_chars=True)):
        for how in ("get", "read"):
            if how == "get":
                d3 = dendropy.DataSet.get(data=nexus, schema="nexus", **kw)
            else:
                d3 = dendropy.DataSet()
                d3.read(data=nexus, schema="nexus", **kw)
            want = [] if kw.get("exclude_trees") else dump(ds)
            if dump(d3) != want:
                return dict(text=nexus, options=kw, route="DataSet." + how, got=dump(d3), want=want)
    d4 = dendropy.DataSet()
    ns4 = dendropy.TaxonNamespace()
    d4.attach_taxon_namespace(ns4)
    d4.read(data=nexus, schema="nexus")
    if any(tl.taxon_namespace is not ns4 for tl in d4.tree_lists) or len(d4.taxon_namespaces) != 1:
        return dict(text=nexus, options={"attached": True}, route="DataSet.read", got="%d namespaces" % len(d4.taxon_namespaces), want="the attached namespace only")
    try:
        d4.read(data=nexus, schema="nexus", taxon_namespace=dendropy.TaxonNamespace())
        return dict(text=nexus, options={"attached": True, "taxon_namespace": "another"}, route="DataSet.read", got="accepted", want="ValueError")
    except ValueError:
        pass
    for text, schema in ((nexus, "nexus"), ("(A,(B,C));((A,B),C);\n", "newick")):
        tl = dendropy.TreeList()
        n1 = tl.read(data=text, schema=schema)
        n2 = tl.read(data=text, schema=schema)
        whole = dendropy.TreeList.get(data=text, schema=schema)
        if not (n1 == n2 == len(whole) and len(tl) == 2 * len(whole) and all(t.taxon_namespace is tl.taxon_namespace for t in tl)
                and [t.as_string("newick") for t in tl] == [t.as_string("newick") for t in whole] * 2):
            return dict(text=text, options={}, route="TreeList.read twice", got=[n1, n2, len(tl)], want=[len(whole), len(whole), 2 * len(whole)])
        other = dendropy.TaxonNamespace()
        try:
            tl.read(data=text, schema=schema, taxon_namespace=other)
            return dict(text=text, options={"taxon_namespace": "another namespace"}, route="TreeList.read", got="accepted", want="TypeError")
        except TypeError:
            pass
    return None
