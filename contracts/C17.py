"""C17 -- node ages and the ultrametricity check (T1 part: the loop of Tree.calc_node_ages).

For every heap satisfying the stated well-formedness of the traversal, with no age forcing and no caller-supplied
age function, at the normal exit of Tree.calc_node_ages every visited node n satisfies

     n is a leaf     :  age(n) = 0.0
     n is internal   :  age(n) = age(c0) + len(c0)                       (c0 the first child; a missing length counts 0)
     checking on     :  |age(n) - (age(c) + len(c))| <= precision        for every other child c of n

and when the function raises UltrametricityError, some visited node has a child that violates the last line -- i.e.
the ultrametricity verdict is exactly "every node's children agree on the node's age to within the precision"
(checking is on when the precision is a non-negative number).  Ages are the distances to the leaves below because the
first equation determines them (the same structural induction as lemmas/Clades.lean, not repeated).

ASSUMED: postorder_node_iter yields the ghost list g_postn -- every node once, children before parents (C15); the tree
is well formed (C03): child lists hold distinct nodes each in one list, every node has an edge of its own.
Floats are mathematical reals (the bounded driver compares natively with a tolerance and at the exact boundary).
Forcing options, set_node_age_fn, node-age summaries, tree statistics: bounded only."""
from dpvc.symexec import Contract, Loop
from dpvc.symexec3 import Executor3
from dpvc.verify import Suite, verify_contract

TR = "dendropy.datamodel.treemodel._tree"
ND = "dendropy.datamodel.treemodel._node"
ED = "dendropy.datamodel.treemodel._edge"

SCHEMA = {
    "Tree.g_postn": "ghost reflist:Node",
    "Node.g_tpos": "ghost int",            # position of the node in the traversal
    "Node._child_nodes": "reflist:Node",
    "Node.g_pos": "ghost int",
    "Node.g_owner": "ghost opt ref:Node",
    "Node._edge": "opt ref:Edge",
    "Node._parent_node": "opt ref:Node",
    "Node.age": "opt real",
    "Edge.length": "opt real",
}

P = "self.g_postn"


def len0(c):
    return "ite(isnone({c}._edge.length), 0.0, {c}._edge.length)".format(c=c)


def age_eq(n):
    return ("not isnone({n}.age) and ite(length({n}._child_nodes) == 0, {n}.age == 0.0, "
            "{n}.age == at({n}._child_nodes, 0).age + {l0})").format(n=n, l0=len0("at(%s._child_nodes, 0)" % n))


def ultra(n, upto=None):
    hi = "length(%s._child_nodes)" % n if upto is None else upto
    return ("forall_int(lambda k: implies(1 <= k and k < {hi}, abs({n}.age - (at({n}._child_nodes, k).age + {l0})) <= ultrametricity_precision))"
            ).format(n=n, hi=hi, l0=len0("at(%s._child_nodes, k)" % n))


CHECKING = "not isnone(ultrametricity_precision) and ultrametricity_precision >= 0"

WF = ("forall_int(lambda j: implies(0 <= j and j < length({P}), not isnone(at({P}, j)) and at({P}, j).g_tpos == j and not isnone(at({P}, j)._edge) "
      "and listinv(at({P}, j)._child_nodes))) and "
      # every node has an edge of its own
      "forall_int(lambda j: forall_int(lambda i: implies(0 <= j and j < i and i < length({P}), at({P}, j)._edge != at({P}, i)._edge))) and "
      # children before parents
      "forall_int(lambda j: forall_int(lambda k: implies(0 <= j and j < length({P}) and 0 <= k and k < length(at({P}, j)._child_nodes), "
      "0 <= at(at({P}, j)._child_nodes, k).g_tpos and at(at({P}, j)._child_nodes, k).g_tpos < j "
      "and at({P}, at(at({P}, j)._child_nodes, k).g_tpos) == at(at({P}, j)._child_nodes, k))))").format(P=P)

STRUCT_KEPT = ("forall_ref('Node', lambda n: same_list(n._child_nodes, pre(n._child_nodes)) and n._edge == pre(n._edge) and n.g_tpos == pre(n.g_tpos))")
LEN0_KEPT = "forall_ref('Edge', lambda e: ite(isnone(e.length), 0.0, e.length) == pre(ite(isnone(e.length), 0.0, e.length)))"

DONE = ("forall_int(lambda j: implies(0 <= j and j < loop_index(), {eq} and implies({chk}, {ul})))").format(
    eq=age_eq("at(%s, j)" % P), chk=CHECKING, ul=ultra("at(%s, j)" % P))
ALL = ("forall_int(lambda j: implies(0 <= j and j < length({P}), {eq} and implies({chk}, {ul})))").format(
    P=P, eq=age_eq("at(%s, j)" % P), chk=CHECKING, ul=ultra("at(%s, j)" % P))

INNER = ("not isnone(node.age) and node.age == pre(node.age) and " + ultra("node", upto="loop_index() + 1") + " and " + LEN0_KEPT +
         " and forall_ref('Node', lambda n: n.age == pre(n.age))")

VIOLATION = ("exists_int(lambda j: exists_int(lambda k: 0 <= j and j < length({P}) and 1 <= k and k < length(at({P}, j)._child_nodes) and not isnone(at({P}, j).age) "
             "and abs(at({P}, j).age - (at(at({P}, j)._child_nodes, k).age + {l0})) > ultrametricity_precision))").format(
                 P=P, l0=len0("at(at(%s, j)._child_nodes, k)" % P))

CONTRACTS = [
    Contract(TR + ":Tree.calc_node_ages",
             types={"ultrametricity_precision": "opt real", "is_force_max_age": "bool", "is_force_min_age": "bool",
                    "set_node_age_fn": "opt int", "is_return_internal_node_ages_only": "opaque", "return": "opaque"},
             requires="not is_force_max_age and not is_force_min_age and isnone(set_node_age_fn) and " + WF,
             modifies=["Node.age[*]", "Edge.length[*]"], frame=False,
             inline=("child_nodes", "_get_edge"),
             allowed_raises=("UltrametricityError",),
             locals={"node": "ref:Node", "nnd": "ref:Node", "first_child": "ref:Node", "age_to_set": "opt real", "ocnd": "real", "d": "real"},
             loops={0: Loop(invariant=DONE + " and " + STRUCT_KEPT + " and " + LEN0_KEPT),
                    1: Loop(invariant=INNER),
                    2: Loop(invariant="True")},   # the loop that formats the error message
             ensures={"ages-satisfy-the-local-equations-and-children-agree": ALL,
                      "lengths-only-filled-in": "forall_ref('Edge', lambda e: ite(isnone(e.length), 0.0, e.length) == old(ite(isnone(e.length), 0.0, e.length)))"},
             exc_ensures=VIOLATION),
]


class AgeExecutor(Executor3):
    lenient = True
    iter_views = {"Tree.postorder_node_iter": "g_postn"}


SUITE = Suite(SCHEMA, [TR, ND, ED], CONTRACTS, executor_cls=AgeExecutor)


NEWICKS = ["(A:1,B:1);", "(A:1,B:1.5);", "(A:1,B:1.5,C:1);", "((A:1,B:1):1,C:2);", "((A:1,B:1):1,C:2.5);", "((A:1,B:1.25):1,C:2);", "((A:1,B:1):1,(C:0.5,D:0.5):1.5);",
           "((A:1,B:1):1,(C:0.5,D:1):1.5);", "(A:1,B:3,C);", "((A,B:0):1,C:1);", "(A:1,(B:1)u:0,C:1);", "((A:0.5,B:0.5,C:0.5):0.5,D:1);", "((A:0.5,B:0.5,C:1.0):0.5,D:1);"]


def _age_failures(tree, prec):
    """the local equations and the children-agree clause, read off the real objects after a normal return"""
    out = []
    checking = prec is not None and prec is not False and prec >= 0
    for nd in tree.postorder_node_iter():
        ch = nd._child_nodes
        if nd.age is None:
            out.append("a node has no age")
            continue
        if not ch:
            if nd.age != 0.0:
                out.append("leaf age %r" % nd.age)
            continue
        vals = [c.age + (c.edge.length or 0.0) for c in ch]
        if nd.age != vals[0]:
            out.append("age %r, first child gives %r" % (nd.age, vals[0]))
        if checking and any(abs(nd.age - v) > prec for v in vals[1:]):
            out.append("accepted although children give %r (precision %r)" % (vals, prec))
    return out


def _violated(tree, prec):
    """independent verdict: does some node have children disagreeing by more than the precision (ages by first children)?"""
    age = {}
    for nd in tree.postorder_node_iter():
        ch = nd._child_nodes
        if not ch:
            age[nd] = 0.0
            continue
        vals = [age[c] + (c.edge.length or 0.0) for c in ch]
        age[nd] = vals[0]
        if any(abs(vals[0] - v) > prec for v in vals[1:]):
            return True
    return False


def replay_ages(ctx, suite, c, ob, witness, bv_widths):
    import dendropy
    from dendropy.utility.error import UltrametricityError
    n = 0
    for nw in NEWICKS:
        for prec in (1e-5, 0.25, 0.5, 0.0, None, -1):
            tree = dendropy.Tree.get(data="[&R] " + nw, schema="newick")
            n += 1
            desc = "%s precision=%r" % (nw, prec)
            bad = []
            try:
                tree.calc_node_ages(ultrametricity_precision=prec)
                bad = _age_failures(tree, prec)
            except UltrametricityError:
                t2 = dendropy.Tree.get(data="[&R] " + nw, schema="newick")
                if prec is None or prec < 0 or not _violated(t2, prec):
                    bad = ["rejected although every node's children agree to within the precision"]
            except Exception as e:  # noqa
                bad = ["raised %s: %s" % (type(e).__name__, str(e)[:80])]
            if bad:
                ctx.obligation(ob.name, "refuted", "z3+native-replay", ob.time_s, c.target, detail="%s -> %s" % (desc, bad[0]))
                ctx.fail(ob.name, dict(key="calc_node_ages|%s" % desc, tree=nw, precision=repr(prec), failed=bad[:4], found_by="native search over %d cases" % n),
                         detail="calc_node_ages on %s: %s" % (desc, bad[0]), kind="T1")
                return True
    return False


def t1(ctx):
    ctx.assume("C17/T1: floats are mathematical reals; ASSUMED traversal (postorder_node_iter yields g_postn: every node once, children before parents -- C15) and "
               "well-formedness (C03); forcing options and set_node_age_fn are outside the contract (requires)")
    for c in CONTRACTS:
        verify_contract(ctx, SUITE, c, sentinels=False, replay=replay_ages)
    from contracts import _wf
    _wf.validate(ctx)
    from contracts import C17prec
    C17prec.t1(ctx)


def replay(ctx, rec):
    import dendropy
    from dendropy.utility.error import UltrametricityError
    w = rec.get("witness", {})
    if str(rec.get("obligation", "")).startswith("precision-") or str(w.get("key", "")).startswith(("precision|", "site:precision", "site:dendropy")):
        from contracts import C17prec
        r = C17prec.replay(ctx, rec)
        if r is not None:
            return r
    if "tree" not in w:
        print("no input recorded for this obligation")
        return True
    prec = eval(w["precision"], {"__builtins__": {}})
    tree = dendropy.Tree.get(data="[&R] " + w["tree"], schema="newick")
    try:
        tree.calc_node_ages(ultrametricity_precision=prec)
        bad = _age_failures(tree, prec)
    except UltrametricityError:
        t2 = dendropy.Tree.get(data="[&R] " + w["tree"], schema="newick")
        bad = [] if (prec is not None and prec >= 0 and _violated(t2, prec)) else ["rejected although the children agree"]
    except Exception as e:  # noqa
        bad = ["raised %s" % type(e).__name__]
    print("calc_node_ages on %s precision=%r: %s" % (w["tree"], prec, bad or "as specified"))
    return not bad
