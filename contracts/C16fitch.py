"""C16 -- the Fitch step of `fitch_down_pass` against the Fitch rule, and the rule against the minimum (T1).

Two links, each machine-checked:

 (1) z3, from the real AST on every run.  The REGION of dendropy.model.parsimony.fitch_down_pass that combines the state-set
     lists of two children -- the statement `result = []` and the loop `for n, ssp in enumerate(zip(left_ssl, right_ssl)):` that
     follows it, extracted verbatim -- is verified against this contract (A = left_ssl, B = right_ssl, N = min(len A, len B)):

        requires  weights is None or len(weights) >= N;  score_by_character_list is None or len(score_by_character_list) >= N
        ensures   len(result) == N
                  result[k] == A[k] & B[k]  if that is non-empty, else  A[k] | B[k]                              (0 <= k < N)
                  score == old(score) + sum_{k<N} cost(k),  cost(k) = 0 if A[k] & B[k] non-empty else w(k),  w(k) = 1 if weights is None else weights[k]
                  score_by_character_list[k] == old(...)[k] + cost(k) for k < N, unchanged elsewhere, same length   (when given)
                  no index is out of range; A, B and weights are not assigned or mutated

     by a loop invariant (the same statements with N replaced by the loop index).  The generator below interprets exactly the
     statement forms it lists (SUBSET); any other form in the region makes the obligation `unsupported` (exit 2, never a
     violation).  Python semantics assumed: `set.intersection` / `set.union` / `&` / `|` return new sets and a set is true iff
     non-empty; sets are values (the region calls no mutating set method -- checked); list indexing with 0 <= n < len; integers
     are mathematical.  The sum is a function S with S(0) = 0, S(k+1) = S(k) + cost(k) (a definition by recursion; only the
     instances the proof needs are asserted).

 (2) Lean 4 + Mathlib, lemmas/Fitch.lean.  `fitch_is_minimum`: on a fully bifurcating tree whose cells each allow at least one
     state, the count obtained by applying rule (1) at every internal node, children first, is attained by some assignment of
     states to all nodes and no assignment has fewer changes (leaves take any state their cell allows).  `fitch_child_order`:
     count and set do not depend on the order of the two children.

GLUE, decided on the AST (three obligations): `score` is 0 at the start, changed only inside the region and returned; the list the region
builds is stored for the node (one call <setter>(nd, result) after the region); the two lists are the state sets of the node's first two
children (`c = nd.child_nodes()`, `l, r = c[:2]`, one getter call each; the left list may also be the previous result -- the fold over
further children of a multifurcation, which the property does not cover).  NOT proved (bounded at T2, cross-checked natively on every
run against the rule applied children-first on 4 small trees): that the getter returns what the setter stored for a child and the leaf's
sets from taxon_state_sets_map for a leaf, children before parents (C15); independence of characters (the weighted sum of minima is the minimum of the weighted sum: weights >= 0);
independence of the root position."""
import ast
import time

import z3

from dpvc import frontend, lean

PM = "dendropy.model.parsimony"
TARGET = PM + ":fitch_down_pass"
SETS = z3.SetSort(z3.IntSort())
EMPTY = z3.EmptySet(z3.IntSort())
TIMEOUT_MS = 60000


class Unsupported(Exception):
    pass


class VList(object):
    """a Python list as a value: elements `arr[0..n)`"""
    def __init__(self, arr, n, elem):
        self.arr, self.n, self.elem = arr, n, elem


class Opt(object):
    """a value that may be None"""
    def __init__(self, none, val):
        self.none, self.val = none, val


class SetV(object):
    def __init__(self, t):
        self.t = t


class IntV(object):
    def __init__(self, t):
        self.t = t


class BoolV(object):
    def __init__(self, t):
        self.t = t


class TupV(object):
    def __init__(self, items):
        self.items = items


class NoneV(object):
    pass


class St(object):
    def __init__(self, env, pc):
        self.env, self.pc = env, pc

    def copy(self):
        return St(dict(self.env), list(self.pc))


# ----------------------------------------------------------------------------- extraction
def extract_region():
    """-> (FunctionDef of fitch_down_pass, the `result = []` statement, the For statement, free input names)"""
    m, ci, fn = frontend.resolve(TARGET)
    for node in ast.walk(fn):
        body_lists = [getattr(node, f, None) for f in ("body", "orelse", "finalbody")]
        for bl in body_lists:
            if not isinstance(bl, list):
                continue
            for i, st in enumerate(bl):
                if isinstance(st, ast.For) and isinstance(st.iter, ast.Call) and ast.unparse(st.iter.func) == "enumerate" and len(st.iter.args) == 1 \
                        and isinstance(st.iter.args[0], ast.Call) and ast.unparse(st.iter.args[0].func) == "zip" and len(st.iter.args[0].args) == 2 \
                        and all(isinstance(a, ast.Name) for a in st.iter.args[0].args):
                    if i == 0 or not (isinstance(bl[i - 1], ast.Assign) and len(bl[i - 1].targets) == 1 and isinstance(bl[i - 1].targets[0], ast.Name)
                                      and isinstance(bl[i - 1].value, ast.List) and not bl[i - 1].value.elts):
                        raise Unsupported("the loop over enumerate(zip(..)) at line %d is not preceded by `<name> = []`" % st.lineno)
                    return fn, bl[i - 1], st
    raise Unsupported("no `for .. in enumerate(zip(a, b))` loop found in fitch_down_pass")


# ----------------------------------------------------------------------------- the statement subset
SUBSET = ("name = <expr> | a, b = <tuple name> | name += <int expr> | name[<int>] += <int expr> | name.append(<set>) | if/else | "
          "expressions: names, integer constants, None, x is [not] None, not x, a set or optional value as a condition, "
          "s.intersection(t), s.union(t, ...), s & t, s | t, list[<int>], +, -")


class Gen(object):
    def __init__(self):
        self.obs = []      # (name, pc, goal)
        self.mutated = set()

    def ob(self, name, st, goal):
        self.obs.append((name, list(st.pc), goal))

    # -- expressions
    def ev(self, e, st):
        if isinstance(e, ast.Name):
            if e.id not in st.env:
                raise Unsupported("name %s is not an input or local of the region (line %d)" % (e.id, e.lineno))
            return st.env[e.id]
        if isinstance(e, ast.Constant):
            if e.value is None:
                return NoneV()
            if isinstance(e.value, bool):
                return BoolV(z3.BoolVal(e.value))
            if isinstance(e.value, int):
                return IntV(z3.IntVal(e.value))
            raise Unsupported("constant %r (line %d)" % (e.value, e.lineno))
        if isinstance(e, ast.List) and not e.elts:
            return VList(z3.K(z3.IntSort(), EMPTY), z3.IntVal(0), "set")  # (the only list built in the region holds sets)
        if isinstance(e, ast.Compare) and len(e.ops) == 1 and isinstance(e.ops[0], (ast.Is, ast.IsNot)):
            a, b = self.ev(e.left, st), self.ev(e.comparators[0], st)
            if isinstance(b, NoneV):
                isn = a.none if isinstance(a, Opt) else z3.BoolVal(isinstance(a, NoneV))
                return BoolV(isn if isinstance(e.ops[0], ast.Is) else z3.Not(isn))
            raise Unsupported("`is` with a non-None operand (line %d)" % e.lineno)
        if isinstance(e, ast.UnaryOp) and isinstance(e.op, ast.Not):
            return BoolV(z3.Not(self.truthy(self.ev(e.operand, st), e)))
        if isinstance(e, ast.BinOp):
            a, b = self.ev(e.left, st), self.ev(e.right, st)
            if isinstance(a, SetV) and isinstance(b, SetV) and isinstance(e.op, ast.BitAnd):
                return SetV(z3.SetIntersect(a.t, b.t))
            if isinstance(a, SetV) and isinstance(b, SetV) and isinstance(e.op, ast.BitOr):
                return SetV(z3.SetUnion(a.t, b.t))
            if isinstance(a, IntV) and isinstance(b, IntV) and isinstance(e.op, (ast.Add, ast.Sub)):
                return IntV(a.t + b.t if isinstance(e.op, ast.Add) else a.t - b.t)
            raise Unsupported("binary operation %s (line %d)" % (ast.unparse(e), e.lineno))
        if isinstance(e, ast.Call) and isinstance(e.func, ast.Attribute) and not e.keywords:
            recv = self.ev(e.func.value, st)
            args = [self.ev(a, st) for a in e.args]
            if isinstance(recv, SetV) and e.func.attr in ("intersection", "union") and all(isinstance(a, SetV) for a in args):
                t = recv.t
                for a in args:
                    t = z3.SetIntersect(t, a.t) if e.func.attr == "intersection" else z3.SetUnion(t, a.t)
                return SetV(t)
            raise Unsupported("call %s (line %d)" % (ast.unparse(e), e.lineno))
        if isinstance(e, ast.Subscript):
            lst, idx = self.ev(e.value, st), self.ev(e.slice, st)
            return self.index(lst, idx, e, st)
        raise Unsupported("expression %s (line %d)" % (ast.unparse(e), e.lineno))

    def index(self, lst, idx, e, st):
        if isinstance(lst, Opt):
            self.ob("no-None-subscript[%s]@L%d" % (ast.unparse(e), e.lineno), st, z3.Not(lst.none))
            lst = lst.val
        if not (isinstance(lst, VList) and isinstance(idx, IntV)):
            raise Unsupported("subscript %s (line %d)" % (ast.unparse(e), e.lineno))
        # (a negative index would count from the end in Python: the obligation asks for 0 <= index < len)
        self.ob("index-in-range[%s]@L%d" % (ast.unparse(e), e.lineno), st, z3.And(0 <= idx.t, idx.t < lst.n))
        v = z3.Select(lst.arr, idx.t)
        return SetV(v) if lst.elem == "set" else IntV(v)

    def truthy(self, v, e):
        if isinstance(v, BoolV):
            return v.t
        if isinstance(v, SetV):
            return v.t != EMPTY
        if isinstance(v, Opt) and isinstance(v.val, VList):
            return z3.And(z3.Not(v.none), v.val.n > 0)
        if isinstance(v, NoneV):
            return z3.BoolVal(False)
        raise Unsupported("condition %s (line %d)" % (ast.unparse(e), e.lineno))

    # -- statements
    def block(self, stmts, states):
        for s in stmts:
            nxt = []
            for st in states:
                nxt.extend(self.stmt(s, st))
            states = nxt
        return states

    def stmt(self, s, st):
        if isinstance(s, ast.Assign) and len(s.targets) == 1:
            t = s.targets[0]
            if isinstance(t, ast.Name):
                st.env[t.id] = self.ev(s.value, st)
                return [st]
            if isinstance(t, ast.Tuple) and all(isinstance(x, ast.Name) for x in t.elts):
                v = self.ev(s.value, st)
                if isinstance(v, TupV) and len(v.items) == len(t.elts):
                    for x, it in zip(t.elts, v.items):
                        st.env[x.id] = it
                    return [st]
            raise Unsupported("assignment %s (line %d)" % (ast.unparse(s), s.lineno))
        if isinstance(s, ast.AugAssign) and isinstance(s.op, ast.Add):
            val = self.ev(s.value, st)
            if not isinstance(val, IntV):
                raise Unsupported("`+=` of a non-integer (line %d)" % s.lineno)
            if isinstance(s.target, ast.Name):
                cur = self.ev(s.target, st)
                if not isinstance(cur, IntV):
                    raise Unsupported("`+=` on %s (line %d)" % (s.target.id, s.lineno))
                st.env[s.target.id] = IntV(cur.t + val.t)
                return [st]
            if isinstance(s.target, ast.Subscript) and isinstance(s.target.value, ast.Name):
                nm = s.target.value.id
                lst, idx = self.ev(s.target.value, st), self.ev(s.target.slice, st)
                cur = self.index(lst, idx, s.target, st)
                opt = lst if isinstance(lst, Opt) else None
                base = lst.val if opt else lst
                if base.elem != "int":
                    raise Unsupported("`+=` on an element of %s (line %d)" % (nm, s.lineno))
                new = VList(z3.Store(base.arr, idx.t, cur.t + val.t), base.n, "int")
                st.env[nm] = Opt(opt.none, new) if opt else new
                self.mutated.add(nm)
                return [st]
            raise Unsupported("augmented assignment %s (line %d)" % (ast.unparse(s), s.lineno))
        if isinstance(s, ast.Expr) and isinstance(s.value, ast.Call) and isinstance(s.value.func, ast.Attribute) and s.value.func.attr == "append" \
                and isinstance(s.value.func.value, ast.Name) and len(s.value.args) == 1 and not s.value.keywords:
            nm = s.value.func.value.id
            lst, v = self.ev(s.value.func.value, st), self.ev(s.value.args[0], st)
            if not (isinstance(lst, VList) and isinstance(v, SetV) and lst.elem == "set"):
                raise Unsupported("append %s (line %d)" % (ast.unparse(s), s.lineno))
            st.env[nm] = VList(z3.Store(lst.arr, lst.n, v.t), lst.n + 1, "set")
            self.mutated.add(nm)
            return [st]
        if isinstance(s, ast.If):
            c = self.truthy(self.ev(s.test, st), s.test)
            a, b = st.copy(), st.copy()
            a.pc.append(c)
            b.pc.append(z3.Not(c))
            return self.block(s.body, [a]) + self.block(s.orelse, [b])
        if isinstance(s, ast.Pass):
            return [st]
        raise Unsupported("statement %s (line %d)" % (ast.unparse(s).split("\n")[0], s.lineno))


def _assigned_names(stmts):
    out = set()
    for s in stmts:
        for n in ast.walk(s):
            if isinstance(n, ast.Name) and isinstance(n.ctx, ast.Store):
                out.add(n.id)
            if isinstance(n, ast.AugAssign) and isinstance(n.target, ast.Subscript) and isinstance(n.target.value, ast.Name):
                out.add(n.target.value.id)
            if isinstance(n, ast.Call) and isinstance(n.func, ast.Attribute) and isinstance(n.func.value, ast.Name) \
                    and n.func.attr not in ("intersection", "union"):
                out.add(n.func.value.id)  # a method call other than the two pure set operations may mutate its receiver
    return out


# ----------------------------------------------------------------------------- VCs
def region_obligations(break_rule=False):
    """-> (list of (name, formula whose validity is the obligation), description of the region, z3 input terms)"""
    fn, init, loop = extract_region()
    res_name = init.targets[0].id
    a_name, b_name = [a.id for a in loop.iter.args[0].args]
    if not (isinstance(loop.target, ast.Tuple) and len(loop.target.elts) == 2 and all(isinstance(x, ast.Name) for x in loop.target.elts)):
        raise Unsupported("loop target %s (line %d)" % (ast.unparse(loop.target), loop.lineno))
    if loop.orelse:
        raise Unsupported("for-else (line %d)" % loop.lineno)
    n_name, pair_name = [x.id for x in loop.target.elts]
    params = [p.arg for p in fn.args.args + fn.args.kwonlyargs]
    if "weights" not in params or "score_by_character_list" not in params:
        raise Unsupported("fitch_down_pass no longer has the parameters weights / score_by_character_list")
    assigned = _assigned_names(loop.body)
    frozen = {a_name, b_name, "weights"}
    # inputs
    A = VList(z3.Const("A", z3.ArraySort(z3.IntSort(), SETS)), z3.Int("lenA"), "set")
    Bv = VList(z3.Const("B", z3.ArraySort(z3.IntSort(), SETS)), z3.Int("lenB"), "set")
    W = Opt(z3.Bool("weights_is_None"), VList(z3.Const("W", z3.ArraySort(z3.IntSort(), z3.IntSort())), z3.Int("lenW"), "int"))
    C0 = Opt(z3.Bool("sbc_is_None"), VList(z3.Const("C0", z3.ArraySort(z3.IntSort(), z3.IntSort())), z3.Int("lenC"), "int"))
    score0 = z3.Int("score0")
    N = z3.If(A.n <= Bv.n, A.n, Bv.n)
    pre = [A.n >= 0, Bv.n >= 0, W.val.n >= 0, C0.val.n >= 0,
           z3.Or(W.none, W.val.n >= N), z3.Or(C0.none, C0.val.n >= N)]
    S = z3.Function("S", z3.IntSort(), z3.IntSort())

    def inter(k):
        return z3.SetIntersect(z3.Select(A.arr, k), z3.Select(Bv.arr, k))

    def rule(k):
        return z3.If(inter(k) != EMPTY, inter(k), z3.SetUnion(z3.Select(A.arr, k), z3.Select(Bv.arr, k)))

    def w(k):
        return z3.If(W.none, z3.IntVal(1), z3.Select(W.val.arr, k))

    def cost(k):
        if break_rule:  # sentinel: a deliberately wrong specification, which must be refuted
            return z3.If(inter(k) != EMPTY, w(k), z3.IntVal(0))
        return z3.If(inter(k) != EMPTY, z3.IntVal(0), w(k))

    kq = z3.Int("k")

    def inv(env, i):
        """dict of named conjuncts"""
        res, sc, sbc = env[res_name], env["score"], env["score_by_character_list"]
        out = {}
        out["len(result) == index"] = res.n == i
        out["result[k] follows the Fitch rule"] = z3.ForAll([kq], z3.Implies(z3.And(0 <= kq, kq < i), z3.Select(res.arr, kq) == rule(kq)))
        out["score == old(score) + sum of costs"] = sc.t == score0 + S(i)
        out["per-character list"] = z3.And(sbc.none == C0.none, z3.Or(sbc.none, z3.And(
            sbc.val.n == C0.val.n,
            z3.ForAll([kq], z3.Select(sbc.val.arr, kq) == z3.Select(C0.val.arr, kq) + z3.If(z3.And(0 <= kq, kq < i), cost(kq), 0)))))
        return out

    gen = Gen()
    vcs = []
    # ---- establishment
    env0 = {a_name: A, b_name: Bv, "weights": W, "score_by_character_list": C0, "score": IntV(score0)}
    st0 = St(dict(env0), list(pre))
    st0 = gen.block([init], [st0])[0]
    base_axioms = [S(0) == 0]
    for nm, g in inv(st0.env, z3.IntVal(0)).items():
        vcs.append(("loop.invariant-established[%s]" % nm, z3.Implies(z3.And(*(st0.pc + base_axioms)), g)))
    # ---- preservation
    i = z3.Int("i")
    head_env = dict(env0)
    head_env[res_name] = VList(z3.Const("Rh", z3.ArraySort(z3.IntSort(), SETS)), z3.Int("lenRh"), "set")
    head_env["score"] = IntV(z3.Int("score_h"))
    head_env["score_by_character_list"] = Opt(C0.none, VList(z3.Const("Ch", z3.ArraySort(z3.IntSort(), z3.IntSort())), z3.Int("lenCh"), "int"))
    other = assigned - {res_name, "score", "score_by_character_list", n_name, pair_name}
    head = St(head_env, list(pre) + [0 <= i, i < N] + list(inv(head_env, i).values()) + [S(i + 1) == S(i) + cost(i)])
    head.env[n_name] = IntV(i)
    head.env[pair_name] = TupV([SetV(z3.Select(A.arr, i)), SetV(z3.Select(Bv.arr, i))])
    ends = gen.block(loop.body, [head])
    for j, e in enumerate(ends):
        for nm in frozen:
            if e.env.get(nm) is not env0[nm]:
                raise Unsupported("the loop body re-binds %s" % nm)
        for nm, g in inv(e.env, i + 1).items():
            vcs.append(("loop.invariant-preserved[%s]#path%d" % (nm, j), z3.Implies(z3.And(*e.pc), g)))
    for nm, pc, g in gen.obs:
        vcs.append(("loop.%s" % nm, z3.Implies(z3.And(*pc), g)))
    # ---- the inputs are not touched (syntactic)
    touched = sorted(frozen & assigned)
    vcs.append(("inputs-unchanged[%s]" % ", ".join(sorted(frozen)), z3.BoolVal(not touched)))
    # ---- postcondition at exit (invariant at index N, the loop variables havocked)
    exit_env = dict(head_env)
    ex_pc = list(pre) + list(inv(exit_env, N).values())
    post = {
        "len(result) == min(len(left), len(right))": exit_env[res_name].n == N,
        "result[k] == left[k] & right[k] if non-empty else left[k] | right[k]":
            z3.ForAll([kq], z3.Implies(z3.And(0 <= kq, kq < N), z3.Select(exit_env[res_name].arr, kq) == rule(kq))),
        "score == old(score) + sum(cost)": exit_env["score"].t == score0 + S(N),
        "score_by_character_list[k] == old[k] + cost(k) for k < N, unchanged elsewhere, same length":
            z3.Or(C0.none, z3.And(z3.Not(exit_env["score_by_character_list"].none), exit_env["score_by_character_list"].val.n == C0.val.n,
                                  z3.ForAll([kq], z3.Select(exit_env["score_by_character_list"].val.arr, kq)
                                            == z3.Select(C0.val.arr, kq) + z3.If(z3.And(0 <= kq, kq < N), cost(kq), 0)))),
    }
    for nm, g in post.items():
        vcs.append(("ensures[%s]" % nm, z3.Implies(z3.And(*ex_pc), g)))
    desc = dict(function=TARGET, lines=[init.lineno, loop.end_lineno], left=a_name, right=b_name, result=res_name,
                other_locals=sorted(other), pre=pre, inputs=dict(A=A, B=Bv, W=W, C0=C0, score0=score0, N=N))
    return vcs, desc


def _prove(goal):
    s = z3.Solver()
    s.set("timeout", TIMEOUT_MS)
    s.add(z3.Not(goal))
    r = s.check()
    return r, (s.model() if r == z3.sat else None)


def _requires_satisfiable(desc):
    s = z3.Solver()
    s.set("timeout", TIMEOUT_MS)
    s.add(*desc["pre"])
    s.add(desc["inputs"]["N"] >= 2, z3.Not(desc["inputs"]["W"].none), z3.Not(desc["inputs"]["C0"].none))
    return s.check() == z3.sat


# ----------------------------------------------------------------------------- native replay
def native_rule_failures(limit=1):
    """the real fitch_down_pass on a two-leaf tree, every pair of state sets over {0,1,2} x 2 characters, weights None / [2,3]"""
    import itertools
    import dendropy
    from dendropy.model.parsimony import fitch_down_pass
    subsets = [frozenset(c) for r in (1, 2, 3) for c in itertools.combinations((0, 1, 2), r)]
    out = []
    for a0, b0, a1, b1 in itertools.product(subsets, repeat=4):
        for weights in (None, [2, 3]):
            for with_list in (False, True):
                ns = dendropy.TaxonNamespace(["a", "b"])
                tree = dendropy.Tree.get(data="(a,b);", schema="newick", taxon_namespace=ns)
                tmap = {ns.get_taxon("a"): [set(a0), set(a1)], ns.get_taxon("b"): [set(b0), set(b1)]}
                sbc = [] if with_list else None
                try:
                    got = fitch_down_pass(tree.postorder_node_iter(), state_sets_attr_name=None, taxon_state_sets_map=tmap, weights=weights, score_by_character_list=sbc)
                except Exception as e:  # noqa
                    got = "raised %s: %s" % (type(e).__name__, str(e)[:60])
                w = weights or [1, 1]
                per = [0 if (a0 & b0) else w[0], 0 if (a1 & b1) else w[1]]
                bad = None
                if got != sum(per):
                    bad = "score %r, the rule gives %r" % (got, sum(per))
                elif with_list and sbc != per:
                    bad = "per-character scores %r, the rule gives %r" % (sbc, per)
                if bad:
                    out.append(dict(left=[sorted(a0), sorted(a1)], right=[sorted(b0), sorted(b1)], weights=weights, per_character_list=with_list, outcome=bad))
                    if len(out) >= limit:
                        return out
    return out


def glue_obligations():
    """AST obligations on the rest of fitch_down_pass: how the region is fed and what happens to what it produces.
    -> list of (name, ok, why)"""
    fn, init, loop = extract_region()
    res_name = init.targets[0].id
    a_name, b_name = [a.id for a in loop.iter.args[0].args]
    out = []
    region_nodes = set(id(n) for n in ast.walk(loop)) | set(id(n) for n in ast.walk(init))
    # (g1) the score: set to 0 once, changed only inside the region, and returned
    stores = [n for n in ast.walk(fn) if isinstance(n, (ast.Assign, ast.AugAssign, ast.AnnAssign, ast.For, ast.With, ast.NamedExpr))
              and any(isinstance(t, ast.Name) and t.id == "score" and isinstance(t.ctx, ast.Store) for t in ast.walk(n) if not isinstance(t, ast.AugAssign))
              or (isinstance(n, ast.AugAssign) and isinstance(n.target, ast.Name) and n.target.id == "score")]
    outside = []
    for n in stores:
        if id(n) in region_nodes:
            continue
        if isinstance(n, ast.For) and not (isinstance(n.target, ast.Name) and n.target.id == "score"):
            continue  # an enclosing loop, found through its body
        if isinstance(n, ast.Assign) and len(n.targets) == 1 and isinstance(n.targets[0], ast.Name) and isinstance(n.value, ast.Constant) and n.value.value == 0 \
                and type(n.value.value) is int:
            continue
        outside.append(n)
    rets = [n for n in ast.walk(fn) if isinstance(n, ast.Return)]
    ok = not outside and len(rets) == 1 and isinstance(rets[0].value, ast.Name) and rets[0].value.id == "score"
    out.append(("glue[score: 0 at the start, changed only by the Fitch step, returned]", ok,
                None if ok else "score is also written at line(s) %s; returns: %s" % ([n.lineno for n in outside], [ast.unparse(r) for r in rets])))
    # the loop over the nodes that contains the region
    node_loop = None
    for n in ast.walk(fn):
        if isinstance(n, ast.For) and id(loop) in set(id(x) for x in ast.walk(n)) and n is not loop and isinstance(n.target, ast.Name):
            node_loop = n  # the outermost wins (ast.walk is breadth first: keep the first)
            break
    if node_loop is None:
        out.append(("glue[the step runs inside a loop over the nodes]", False, "no enclosing for loop"))
        return out
    nd = node_loop.target.id
    # (g2) what the step produced is stored for the node: exactly one call <setter>(nd, result) in the node loop, after the region
    sets_ = [c for c in ast.walk(node_loop) if isinstance(c, ast.Call) and isinstance(c.func, ast.Name) and "set" in c.func.id and len(c.args) == 2
             and isinstance(c.args[0], ast.Name) and c.args[0].id == nd]
    ok = len(sets_) == 1 and isinstance(sets_[0].args[1], ast.Name) and sets_[0].args[1].id == res_name and sets_[0].lineno > loop.end_lineno
    out.append(("glue[the list the step built is stored for the node]", ok,
                None if ok else "calls storing state sets for %s: %s" % (nd, [ast.unparse(c) for c in sets_])))
    # (g3) the two lists come from the node's first two children
    def assigned(name):
        return [n.value for n in ast.walk(node_loop) if isinstance(n, ast.Assign) and len(n.targets) == 1 and isinstance(n.targets[0], ast.Name) and n.targets[0].id == name]
    def from_child(v):
        return isinstance(v, ast.Call) and isinstance(v.func, ast.Name) and "get" in v.func.id and len(v.args) == 1 and isinstance(v.args[0], ast.Name) and v.args[0].id
    lefts, rights = assigned(a_name), assigned(b_name)
    lchild = [from_child(v) for v in lefts if from_child(v)]
    rchild = [from_child(v) for v in rights if from_child(v)]
    folds = [v for v in lefts if isinstance(v, ast.Name) and v.id == res_name]
    pair = [n for n in ast.walk(node_loop) if isinstance(n, ast.Assign) and isinstance(n.targets[0], ast.Tuple) and len(n.targets[0].elts) == 2
            and all(isinstance(x, ast.Name) for x in n.targets[0].elts)
            and [x.id for x in n.targets[0].elts] == [lchild[0] if lchild else None, rchild[0] if rchild else None]]
    ok = (len(lchild) == 1 and len(rchild) == 1 and len(lefts) == len(lchild) + len(folds) and len(rights) == 1 and len(pair) == 1
          and isinstance(pair[0].value, ast.Subscript) and isinstance(pair[0].value.slice, ast.Slice) and pair[0].value.slice.lower is None
          and isinstance(pair[0].value.slice.upper, ast.Constant) and pair[0].value.slice.upper.value == 2 and isinstance(pair[0].value.value, ast.Name))
    if ok:
        cname = pair[0].value.value.id
        cs = assigned(cname)
        ok = len(cs) == 1 and isinstance(cs[0], ast.Call) and isinstance(cs[0].func, ast.Attribute) and cs[0].func.attr == "child_nodes" \
            and isinstance(cs[0].func.value, ast.Name) and cs[0].func.value.id == nd and not cs[0].args
    out.append(("glue[the two lists are the state sets of the node's first two children]", ok,
                None if ok else "%s <- %s ; %s <- %s" % (a_name, [ast.unparse(v) for v in lefts], b_name, [ast.unparse(v) for v in rights])))
    return out


def native_tree_failures(limit=1):
    """the real fitch_down_pass, one character, every assignment of non-empty subsets of {0,1,2} to the leaves of three bifurcating trees,
    against the rule applied children-first (the function `fitch` of lemmas/Fitch.lean)"""
    import itertools
    import dendropy
    from dendropy.model.parsimony import fitch_down_pass
    subsets = [frozenset(c) for r in (1, 2, 3) for c in itertools.combinations((0, 1, 2), r)]

    def rule(nd, sets_):
        if not nd._child_nodes:
            return sets_[nd.taxon.label], 0
        (l, ml), (r, mr) = [rule(c, sets_) for c in nd._child_nodes]
        return (l & r, ml + mr) if (l & r) else (l | r, ml + mr + 1)
    out = []
    for nw, labels in (("(a,b);", "ab"), ("((a,b),c);", "abc"), ("((a,b),(c,d));", "abcd"), ("(a,(b,(c,d)));", "abcd")):
        for combo in itertools.product(subsets, repeat=len(labels)):
            for attr in (None, "state_sets"):
                ns = dendropy.TaxonNamespace(list(labels))
                tree = dendropy.Tree.get(data=nw, schema="newick", taxon_namespace=ns)
                sets_ = dict(zip(labels, combo))
                tmap = dict((ns.get_taxon(k), [set(v)]) for k, v in sets_.items())
                try:
                    got = fitch_down_pass(tree.postorder_node_iter(), state_sets_attr_name=attr, taxon_state_sets_map=tmap)
                except Exception as e:  # noqa
                    got = "raised %s: %s" % (type(e).__name__, str(e)[:60])
                want = rule(tree.seed_node, sets_)[1]
                if got != want:
                    out.append(dict(tree=nw, leaf_sets=dict((k, sorted(v)) for k, v in sets_.items()), state_sets_attr_name=attr,
                                    outcome="score %r; the rule applied children-first gives %r" % (got, want)))
                    if len(out) >= limit:
                        return out
    return out


def t1(ctx):
    ctx.assume("C16/T1 Fitch step: the region (`result = []` + the enumerate(zip(..)) loop of fitch_down_pass) is extracted verbatim from the real AST; "
               "statement subset interpreted: " + SUBSET + "; ASSUMED Python semantics: set.intersection/union/&/| build new sets, a set is true iff "
               "non-empty, sets are values (no mutating set method is called in the region), integers are mathematical; the sum of costs is a "
               "recursively defined function of which only the needed instances are asserted; GLUE NOT PROVED: one application of the region per "
               "internal node with its two children's lists (children first), `result` stored for the node, nothing else added to the score; "
               "leaf sets from taxon_state_sets_map; characters independent (weights >= 0); root position")
    ctx.add_function(TARGET)
    t0 = time.time()
    try:
        vcs, desc = region_obligations()
    except Unsupported as e:
        ctx.obligation("fitch_down_pass.fitch-step.region", "unsupported", "z3", time.time() - t0, TARGET, detail=str(e))
        ctx.undecided_ob("fitch_down_pass.fitch-step.region", "outside the interpreted statement subset: %s" % e)
        lean.check_lemma(ctx, "Fitch.lean", ["fitch_is_minimum", "fitch_child_order"], hypotheses=_HYP)
        return
    tag = "fitch_down_pass.fitch-step@L%d-%d" % tuple(desc["lines"])
    ctx.obligation(tag + ".region-extracted", "proved", "ast-scan", time.time() - t0, TARGET,
                   detail="lines %d-%d: %s = [] ; for .. in enumerate(zip(%s, %s))" % (desc["lines"][0], desc["lines"][1], desc["result"], desc["left"], desc["right"]))
    ok_req = _requires_satisfiable(desc)
    ctx.obligation(tag + ".requires-satisfiable", "proved" if ok_req else "refuted", "z3", 0.0, TARGET)
    if not ok_req:
        ctx.checker_failure("C16 Fitch step: contradictory precondition")
        return
    failed = []
    for name, goal in vcs:
        t1_ = time.time()
        r, model = _prove(goal)
        dt = time.time() - t1_
        full = "%s.%s" % (tag, name)
        if r == z3.unsat:
            ctx.obligation(full, "proved", "z3", dt, TARGET)
        elif r == z3.sat:
            ctx.obligation(full, "refuted", "z3", dt, TARGET, detail="counter-model found")
            failed.append(full)
        else:
            ctx.obligation(full, "unknown", "z3", dt, TARGET, detail="solver returned unknown within %d ms" % TIMEOUT_MS)
            ctx.undecided_ob(full, "z3 unknown")
    # sentinel: the same obligations against a deliberately wrong cost must NOT all go through
    t1_ = time.time()
    bad_vcs, _ = region_obligations(break_rule=True)
    refuted = any(_prove(g)[0] == z3.sat for n, g in bad_vcs if "invariant-preserved[score" in n)
    ctx.obligation(tag + ".sentinel[wrong cost is refuted]", "proved" if refuted else "refuted", "z3", time.time() - t1_, TARGET)
    if not refuted:
        ctx.checker_failure("C16 Fitch step: the sentinel specification (cost charged when the sets meet) was not refuted")
    # CPython cross-check of the encoding on every run: the real function on every two-leaf input of the native search obeys the rule
    t1_ = time.time()
    ws = native_rule_failures()
    nm = tag + ".native-cross-check[two-leaf inputs obey the rule]"
    ctx.crosscheck_inputs += 9604  # (not an obligation: a run of the real code, counted as cross-check inputs)
    ctx.note("C16 Fitch step: CPython cross-check of the encoding on 9604 two-leaf inputs: %s" % ("agrees" if not ws else "DISAGREES: %s" % (ws[0],)))
    if ws and not failed:
        w = ws[0]
        ctx.fail(nm, dict(key="fitch-step|%s|%s|%s" % (w["left"], w["right"], w["weights"]), **w),
                 detail="every z3 obligation of the region was discharged, yet fitch_down_pass on the cherry (a,b) with state sets a=%s b=%s weights=%s: %s "
                        "(the violation lies outside the region, or an assumed Python semantics does not hold)" % (w["left"], w["right"], w["weights"], w["outcome"]), kind="T1")
    gfails = []
    for gname, ok, why in glue_obligations():
        full = "fitch_down_pass.%s" % gname
        ctx.obligation(full, "proved" if ok else "refuted", "ast-scan", 0.0, TARGET, detail=why)
        if not ok:
            gfails.append((full, why))
    t1_ = time.time()
    tw = native_tree_failures()
    ctx.crosscheck_inputs += 2 * (49 + 343 + 2401 + 2401)
    ctx.note("C16 glue: fitch_down_pass against the rule applied children-first on every leaf-set assignment of 4 small bifurcating trees "
             "(10388 native runs, %.1fs): %s" % (time.time() - t1_, "agrees" if not tw else "DISAGREES: %s" % (tw[0],)))
    for full, why in gfails:
        if tw:
            w = tw[0]
            ctx.fail(full, dict(key="fitch-glue|%s|%s" % (w["tree"], w["leaf_sets"]), **w),
                     detail="%s; native: fitch_down_pass on %s with leaf sets %s: %s" % (why, w["tree"], w["leaf_sets"], w["outcome"]), kind="T1")
        else:
            ctx.fail(full, dict(key="obligation:%s" % full, why=why), detail=why, kind="T1", no_input=True)
    if tw and not gfails and not failed and not ws:
        w = tw[0]
        ctx.fail("fitch_down_pass.glue.native-cross-check", dict(key="fitch-glue|%s|%s" % (w["tree"], w["leaf_sets"]), **w),
                 detail="all step and glue obligations hold, yet fitch_down_pass on %s with leaf sets %s: %s" % (w["tree"], w["leaf_sets"], w["outcome"]), kind="T1")
    if failed:
        for full in failed[:3]:
            if ws:
                w = ws[0]
                ctx.fail(full, dict(key="fitch-step|%s|%s|%s" % (w["left"], w["right"], w["weights"]), **w),
                         detail="fitch_down_pass on the cherry (a,b) with state sets a=%s b=%s weights=%s: %s" % (w["left"], w["right"], w["weights"], w["outcome"]), kind="T1")
            else:
                ctx.fail(full, dict(key="obligation:%s" % full), detail="obligation refuted by z3; the native two-leaf search found no failing input", kind="T1", no_input=True)
    lean.check_lemma(ctx, "Fitch.lean", ["fitch_is_minimum", "fitch_child_order"], hypotheses=_HYP)


_HYP = {"fitch_is_minimum": "the rule applied at a node: obligations fitch_down_pass.fitch-step (z3, T1); application at every internal node, children first: "
                            "glue (T2) + traversal order (C15)",
        "fitch_child_order": "same"}


def replay(ctx, rec):
    if "glue" in str(rec.get("obligation", "")):
        tw = native_tree_failures()
        print(tw[0] if tw else "fitch_down_pass agrees with the rule applied children-first on every input of the native tree search")
        return not tw
    ws = native_rule_failures()
    print(ws[0] if ws else "fitch_down_pass follows the Fitch rule on every two-leaf input of the native search")
    return not ws
