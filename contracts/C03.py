"""C03 -- trees stay well-formed arborescences (T1 part: the pointer primitives).

Theory B (dpvc/symexec3.py): Node._child_nodes is a list of references modelled
exactly (length + element array) with the ghost position map Node.g_pos and
the per-list invariant listinv(L).  The contracts are EXACT state transformers
(callers pass through non-well-formed states on purpose), stated over
    isin(x, L)  -- x occurs in L          at(L, k) -- element k
    length(L)                             listinv(L)
Acyclicity / reachability are global and are bounded (T2)."""
from dpvc.symexec import Contract, Loop
from dpvc.symexec3 import Executor3
from dpvc.verify import Suite, verify_contract
from dpvc import replay as dreplay

ND = "dendropy.datamodel.treemodel._node"
ED = "dendropy.datamodel.treemodel._edge"

SCHEMA = {
    "Node._child_nodes": "reflist:Node",
    "Node._parent_node": "opt ref:Node",
    "Node._edge": "opt ref:Edge",
    "Node.g_pos": "ghost int",
    "Edge._head_node": "opt ref:Node",
    "Edge.length": "opt real",
}

CH = "self._child_nodes"


def others_order_preserved(L):
    """relative order of the elements other than `node` is unchanged"""
    return ("forall_ref('Node', lambda a: forall_ref('Node', lambda b: implies(a != node and b != node and old(isin(a, {L})) and old(isin(b, {L})) "
            "and old(a.g_pos) < old(b.g_pos), a.g_pos < b.g_pos)))").format(L=L)


CONTRACTS = [
    Contract(
        ND + ":Node.add_child", types={"node": "ref:Node", "return": "ref:Node"},
        # the two asserts are documented preconditions
        requires="node != self and self._parent_node != node and listinv(%s)" % CH,
        modifies=["node._parent_node", "self._child_nodes"],
        ensures={
            "parent-set": "node._parent_node == self",
            "returns-node": "result == node",
            "list-invariant": "listinv(%s)" % CH,
            "is-child-exactly-once": "isin(node, %s)" % CH,
            "already-a-child: list unchanged": "implies(old(isin(node, {L})), same_list({L}, old({L})))".format(L=CH),
            "new child: appended at the end": "implies(not old(isin(node, {L})), length({L}) == old(length({L})) + 1 and at({L}, old(length({L}))) == node "
                                              "and forall_int(lambda k: implies(0 <= k and k < old(length({L})), at({L}, k) == at(old({L}), k))))".format(L=CH),
        },
    ),
    Contract(
        ND + ":Node.insert_child", types={"index": "int", "node": "ref:Node", "return": "opt ref:Node"},
        requires="listinv(%s)" % CH,
        modifies=["node._parent_node", "self._child_nodes"],
        ensures={
            "parent-set": "node._parent_node == self",
            "list-invariant": "listinv(%s)" % CH,
            "is-child-exactly-once": "isin(node, %s)" % CH,
            "length": "length({L}) == old(length({L})) + ite(old(isin(node, {L})), 0, 1)".format(L=CH),
            "members-kept": "forall_ref('Node', lambda m: implies(old(isin(m, {L})), isin(m, {L})))".format(L=CH),
            "no-other-new-member": "forall_ref('Node', lambda m: implies(isin(m, {L}) and m != node, old(isin(m, {L}))))".format(L=CH),
            "others-keep-their-order": others_order_preserved(CH),
            # where the node ends up: at the requested index (clamped to the list, as list.insert does),
            # counted in the list from which an earlier occurrence of the node has been removed
            "position": "implies(0 <= index and index <= length({L}) - 1, node.g_pos == index)".format(L=CH),
            "returns": "result == node or (isnone(result) and old(isin(node, {L})) and old(node.g_pos) == index)".format(L=CH),
        },
    ),
    Contract(
        ND + ":Node.remove_child", types={"node": "ref:Node", "suppress_unifurcations": "bool", "return": "ref:Node"},
        # contract of the plain removal; the suppress_unifurcations=True branches are composite operations (T2)
        requires="not suppress_unifurcations and listinv({L}) and node._edge != None and node._edge._head_node == node".format(L=CH),
        modifies=["node._parent_node", "self._child_nodes"],
        raises={"ValueError": "not isin(node, %s)" % CH},
        ensures={
            "parent-cleared": "isnone(node._parent_node)",
            "returns-node": "result == node",
            "list-invariant": "listinv(%s)" % CH,
            "removed": "not isin(node, %s)" % CH,
            "length": "length({L}) == old(length({L})) - 1".format(L=CH),
            "others-kept": "forall_ref('Node', lambda m: implies(old(isin(m, {L})) and m != node, isin(m, {L})))".format(L=CH),
            "no-new-member": "forall_ref('Node', lambda m: implies(isin(m, {L}), old(isin(m, {L}))))".format(L=CH),
            "others-keep-their-order": others_order_preserved(CH),
        },
    ),
    Contract(
        ND + ":Node._set_parent_node", types={"parent": "opt ref:Node"},
        requires="implies(not isnone(self._parent_node), listinv(self._parent_node._child_nodes)) and implies(not isnone(parent), listinv(parent._child_nodes))",
        modifies=["self._parent_node", "Node._child_nodes[*]"],
        ensures={
            "parent-set": "self._parent_node == parent",
            "listed-by-new-parent": "implies(not isnone(parent), isin(self, parent._child_nodes) and listinv(parent._child_nodes))",
            "unlisted-from-old-parent": "implies(not isnone(old(self._parent_node)) and old(self._parent_node) != parent, "
                                        "not isin(self, old(self._parent_node)._child_nodes))",
        },
    ),
    Contract(
        ED + ":Edge._set_tail_node", types={"node": "opt ref:Node"},
        requires="implies(not isnone(self._head_node) and not isnone(self._head_node._parent_node), listinv(self._head_node._parent_node._child_nodes)) "
                 "and implies(not isnone(node), listinv(node._child_nodes))",
        modifies=["Node._parent_node[*]", "Node._child_nodes[*]"],
        raises={"ValueError": "isnone(self._head_node)"},
        ensures={"head-reparented": "self._head_node._parent_node == node"},
    ),
    Contract(
        ED + ":Edge._get_tail_node", types={"return": "opt ref:Node"}, requires="True",
        ensures={"tail-is-parent-of-head": "ite(isnone(self._head_node), isnone(result), result == self._head_node._parent_node)"},
    ),
    Contract(
        ND + ":Node.clear_child_nodes", types={}, requires="True", modifies=["self._child_nodes"],
        ensures={"empty": "length(%s) == 0" % CH},
    ),
    Contract(ND + ":Node._get_edge", types={"return": "opt ref:Edge"}, requires="True", ensures={"edge": "result == self._edge"}),
    Contract(ND + ":Node._get_parent_node", types={"return": "opt ref:Node"}, requires="True", ensures={"parent": "result == self._parent_node"}),
]


class HeapExecutor(Executor3):
    lenient = False
    prune_infeasible = True


SUITE = Suite(SCHEMA, [ND, ED], CONTRACTS, executor_cls=HeapExecutor)


def t1(ctx):
    ctx.assume("C03/T1 theory B: child lists modelled exactly (length + element array) with the ghost position map g_pos and listinv; "
               "Node/Edge equality is identity; acyclicity, reachability and the composite operations are bounded (T2)")
    for c in CONTRACTS:
        verify_contract(ctx, SUITE, c, sentinels=False)
