"""C03 -- trees stay well-formed arborescences (T1 part: the pointer primitives).

Theory B (dpvc/symexec3.py): Node._child_nodes is a list of references modelled
exactly (length + element array) with the ghost position map Node.g_pos and
the per-list invariant listinv(L).  The contracts are EXACT state transformers
(callers pass through non-well-formed states on purpose), stated over
    isin(x, L)  -- x occurs in L          at(L, k) -- element k
    length(L)                             listinv(L)
Acyclicity / reachability are global and are bounded (T2)."""
from dpvc.symexec import Contract, Loop, SV
from dpvc.symexec3 import Executor3
from dpvc.verify import Suite, verify_contract
from dpvc import replay as dreplay

ND = "dendropy.datamodel.treemodel._node"
ED = "dendropy.datamodel.treemodel._edge"

SCHEMA = {
    "Node._child_nodes": "reflist:Node",
    "Node._parent_node": "opt ref:Node",
    "Node._edge": "opt ref:Edge",
    "Node.g_pos": "ghost int",
    "Node.g_owner": "ghost opt ref:Node",
    "Edge._head_node": "opt ref:Node",
    "Edge.length": "opt real",
}

CH = "self._child_nodes"
H = "self._head_node"
T = "self._head_node._parent_node"
D = "self._head_node"
P = "self._head_node._parent_node"


def others_order_preserved(L):
    """relative order of the elements other than `node` is unchanged"""
    return "order_kept(%s, node)" % L


def reparent_contract(target, X, P, raises=None):
    """contract of `X.parent_node = P` (Node._set_parent_node / Edge._set_tail_node): X leaves the child list of
    its old parent (if listed there) and is appended to P's child list (if not listed there)"""
    OLDP = "%s._parent_node" % X
    OL = "%s._parent_node._child_nodes" % X     # owner evaluated in the pre-state by the list relations
    NL = "%s._child_nodes" % P
    pname = P
    return Contract(
        target, types={pname: "opt ref:Node"},
        # the two lists involved satisfy listinv and (when they are different lists) share no element:
        # no node sits in two child lists -- part of the arborescence invariant the callers maintain
        requires=("implies(not isnone({X}) and not isnone({OLDP}), listinv({OL})) and implies(not isnone({P}), listinv({NL})) "
                  ).format(X=X, OLDP=OLDP, OL=OL, P=P, NL=NL),
        raises=raises or {},
        modifies=["%s._parent_node" % X,
                  "%s if not isnone(%s)" % (OL, OLDP),
                  "%s if not isnone(%s)" % (NL, P),
                  "Node.g_pos[*] if not isnone(%s) or not isnone(%s)" % (OLDP, P),
                  "Node.g_owner[*] if not isnone(%s) or not isnone(%s)" % (OLDP, P)],
        ensures={
            "parent-set": "{X}._parent_node == {P}".format(X=X, P=P),
            "left-old-parent": ("implies(not isnone(old({OLDP})) and old({OLDP}) != {P}, "
                                "ite(old(isin({X}, {OL})), list_minus({OL}, {X}), list_same({OL})) and listinv(old({OLDP})._child_nodes) "
                                "and not isin({X}, old({OLDP})._child_nodes))").format(X=X, OLDP=OLDP, OL=OL, P=P),
            "joined-new-parent": ("implies(not isnone({P}) and old({OLDP}) != {P}, "
                                  "ite(old(isin({X}, {NL})), list_same({NL}), list_plus({NL}, {X})) and listinv({NL}) and isin({X}, {NL}))").format(X=X, OLDP=OLDP, NL=NL, P=P),
            "same-parent": ("implies(not isnone({P}) and old({OLDP}) == {P}, listinv({NL}) and isin({X}, {NL}) "
                            "and length({NL}) == old(length({NL})) + ite(old(isin({X}, {NL})), 0, 1))").format(X=X, OLDP=OLDP, NL=NL, P=P),
            "other-lists-untouched": "lists_frame('Node', {OL}, {NL})".format(OL=OL, NL=NL),
            "ghost-frame": "pos_frame({OL}, {NL}, {X})".format(OL=OL, NL=NL, X=X),
        },
    )


CONTRACTS = [
    Contract(
        ND + ":Node.add_child", types={"node": "ref:Node", "return": "ref:Node"},
        # the two asserts are documented preconditions
        requires="node != self and self._parent_node != node and listinv(%s)" % CH,
        modifies=["node._parent_node", "self._child_nodes", "Node.g_pos[*]", "Node.g_owner[*]"],
        ensures={
            "parent-set": "node._parent_node == self",
            "returns-node": "result == node",
            "list-invariant": "listinv(%s)" % CH,
            "is-child-exactly-once": "isin(node, %s)" % CH,
            "already-a-child: list unchanged": "implies(old(isin(node, {L})), same_list({L}, old({L})))".format(L=CH),
            "other-lists-untouched": "lists_frame('Node', %s)" % CH,
            "ghost-frame": "pos_frame(%s, node)" % CH,
            "new child: appended at the end": "implies(not old(isin(node, {L})), length({L}) == old(length({L})) + 1 and at({L}, old(length({L}))) == node "
                                              "and forall_int(lambda k: implies(0 <= k and k < old(length({L})), at({L}, k) == at(old({L}), k))))".format(L=CH),
        },
    ),
    Contract(
        ND + ":Node.insert_child", types={"index": "int", "node": "ref:Node", "return": "opt ref:Node"},
        requires="listinv(%s)" % CH,
        modifies=["node._parent_node", "self._child_nodes", "Node.g_pos[*]", "Node.g_owner[*]"],
        ensures={
            "parent-set": "node._parent_node == self",
            "list-invariant": "listinv(%s)" % CH,
            "is-child-exactly-once": "isin(node, %s)" % CH,
            "new child: inserted exactly at index": "implies(not old(isin(node, {L})) and 0 <= index and index <= old(length({L})), list_insert({L}, index, node))".format(L=CH),
            "other-lists-untouched": "lists_frame('Node', %s)" % CH,
            "ghost-frame": "pos_frame(%s, node)" % CH,
            "length": "length({L}) == old(length({L})) + ite(old(isin(node, {L})), 0, 1)".format(L=CH),
            "members-kept": "forall_ref('Node', lambda m: implies(old(isin(m, {L})), isin(m, {L})))".format(L=CH),
            "no-other-new-member": "forall_ref('Node', lambda m: implies(isin(m, {L}) and m != node, old(isin(m, {L}))))".format(L=CH),
            "others-keep-their-order": others_order_preserved(CH),
            # where the node ends up: at the requested index (clamped to the list, as list.insert does),
            # counted in the list from which an earlier occurrence of the node has been removed
            "position": "implies(0 <= index and index <= length({L}) - 1, at({L}, index) == node)".format(L=CH),
            "returns": "result == node or (isnone(result) and old(isin(node, {L})) and 0 <= index and index < old(length({L})) and old(at({L}, index)) == node)".format(L=CH),
        },
    ),
    Contract(
        ND + ":Node.remove_child", types={"node": "ref:Node", "suppress_unifurcations": "bool", "return": "ref:Node"},
        # contract of the plain removal; the suppress_unifurcations=True branches are composite operations (T2)
        requires="not suppress_unifurcations and listinv({L}) and node._edge != None and node._edge._head_node == node".format(L=CH),
        modifies=["node._parent_node", "self._child_nodes", "Node.g_pos[*]", "Node.g_owner[*]"],
        raises={"ValueError": "not isin(node, %s)" % CH},
        ensures={
            "parent-cleared": "isnone(node._parent_node)",
            "returns-node": "result == node",
            "list-invariant": "listinv(%s)" % CH,
            "removed": "not isin(node, %s)" % CH,
            "exactly-node-removed": "list_minus(%s, node)" % CH,
            "other-lists-untouched": "lists_frame('Node', %s)" % CH,
            "ghost-frame": "pos_frame(%s)" % CH,
        },
    ),
    reparent_contract(ND + ":Node._set_parent_node", "self", "parent"),
    reparent_contract(ED + ":Edge._set_tail_node", "self._head_node", "node", raises={"ValueError": "isnone(self._head_node)"}),
    Contract(
        ED + ":Edge._get_tail_node", types={"return": "opt ref:Node"}, requires="True",
        ensures={"tail-is-parent-of-head": "ite(isnone(self._head_node), isnone(result), result == self._head_node._parent_node)"},
    ),
    Contract(
        ND + ":Node.clear_child_nodes", types={}, requires="True", modifies=["self._child_nodes"],
        ensures={"empty": "length(%s) == 0" % CH},
    ),
    Contract(
        ED + ":Edge.invert", types={"update_bipartitions": "bool"},
        # the only way Tree.reseed_at calls it: the tail of the edge is a parentless node (the current
        # root, or the head of the edge inverted just before); node/edge pairing holds for both ends
        requires=("not isnone({H}) and not isnone({T}) and isnone({T}._parent_node) and {H} != {T} "
                  "and listinv({T}._child_nodes) and listinv({H}._child_nodes) and isin({H}, {T}._child_nodes) and not isin({T}, {H}._child_nodes) and not isin({T}, {T}._child_nodes) and not isin({H}, {H}._child_nodes) "
                  "and {H}._edge == self and not isnone({T}._edge) and {T}._edge._head_node == {T} and {T}._edge != self").format(H=H, T=T),
        modifies=["{H}._parent_node".format(H=H), "{T}._parent_node".format(T=T), "{T}._child_nodes".format(T=T), "{H}._child_nodes".format(H=H),
                  "Node.g_pos[*]", "Node.g_owner[*]", "self.length", "{T}._edge.length".format(T=T)],
        allowed_raises=(),
        ensures={
            "head-becomes-parentless": "isnone(old({H})._parent_node)".format(H=H),
            "tail-hangs-under-head": "old({T})._parent_node == old({H})".format(H=H, T=T),
            "head-left-the-tail's-children": "list_minus({T}._child_nodes, old({H}))".format(H=H, T=T),
            "tail-appended-to-head's-children": "list_plus({H}._child_nodes, old({T}))".format(H=H, T=T),
            "list-invariants": "listinv(old({T})._child_nodes) and listinv(old({H})._child_nodes)".format(H=H, T=T),
            "other-lists-untouched": "lists_frame('Node', {T}._child_nodes, {H}._child_nodes)".format(H=H, T=T),
            # C07: the two lengths are exchanged, so the length labelling of the undirected edge set is preserved
            "lengths-swapped": "eq(self.length, old({T}._edge.length)) and eq(old({T}._edge).length, old(self.length))".format(T=T),
            "ghost-frame": "pos_frame({T}._child_nodes, {H}._child_nodes, {T}, {H})".format(H=H, T=T),
        },
    ),
    Contract(
        ED + ":Edge.collapse", types={"adjust_collapsed_head_children_edge_lengths": "bool"},
        requires=("not isnone({D}) and implies(not isnone({P}), {D} != {P} and listinv({P}._child_nodes) and listinv({D}._child_nodes) and isin({D}, {P}._child_nodes) "
                  "and not isnone({D}._edge) and {D}._edge._head_node == {D} "
                  "and forall_int(lambda k: implies(0 <= k and k < length({D}._child_nodes), not isnone(at({D}._child_nodes, k)._edge) and at({D}._child_nodes, k) != {P})))").format(D=D, P=P),
        modifies=["Node._parent_node[*]", "{P}._child_nodes if not isnone({P})".format(P=P), "Node.g_pos[*]", "Node.g_owner[*]", "Edge.length[*]"],
        raises={"ValueError": "not isnone({P}) and length({D}._child_nodes) == 0".format(D=D, P=P)},
        inline=("child_nodes",),
        locals={"pos": "int"},
        loops={0: Loop(
            invariant=("listinv(parent._child_nodes) and pos == pre(pos) + loop_index() "
                       "and length(parent._child_nodes) == pre(length(parent._child_nodes)) + loop_index() "
                       "and forall_int(lambda k: implies(0 <= k and k < pre(pos), at(parent._child_nodes, k) == at(pre(parent._child_nodes), k))) "
                       "and forall_int(lambda j: implies(0 <= j and j < loop_index(), at(parent._child_nodes, pre(pos) + j) == at(children, j) and at(children, j)._parent_node == parent)) "
                       "and forall_int(lambda k: implies(pre(pos) <= k and k < pre(length(parent._child_nodes)), at(parent._child_nodes, k + loop_index()) == at(pre(parent._child_nodes), k))) "
                       "and forall_int(lambda j: implies(loop_index() <= j and j < length(children), not isin(at(children, j), parent._child_nodes))) "
                       "and isnone(to_del._parent_node) and 0 <= pre(pos) and pre(pos) <= pre(length(parent._child_nodes)) "
                       "and pre(pos) == old({D}.g_pos) and parent == old({P}) and to_del == old({D}) "
                       "and forall_int(lambda k: implies(old({D}.g_pos) < k and k < old(length({P}._child_nodes)), "
                       "at(parent._child_nodes, k - 1 + loop_index()) == at(old({P}._child_nodes), k))) "
                       "and lists_frame('Node', {P}._child_nodes)").format(D=D, P=P),
            modifies=["Node._parent_node[*]", "parent._child_nodes", "Node.g_pos[*]", "Node.g_owner[*]", "Edge.length[*]"])},
        ensures={
            "root-edge: nothing happens": "implies(isnone(old({P})), True)".format(P=P),
            "head-detached": "implies(not isnone(old({P})), isnone(old({D})._parent_node))".format(D=D, P=P),
            "length": "implies(not isnone(old({P})), length(old({P})._child_nodes) == old(length({P}._child_nodes)) + old(length({D}._child_nodes)) - 1)".format(D=D, P=P),
            "list-invariant": "implies(not isnone(old({P})), listinv(old({P})._child_nodes))".format(P=P),
            "children-spliced-in-place": ("implies(not isnone(old({P})), forall_int(lambda j: implies(0 <= j and j < old(length({D}._child_nodes)), "
                                          "at(old({P})._child_nodes, old({D}.g_pos) + j) == at(old({D}._child_nodes), j) "
                                          "and at(old({D}._child_nodes), j)._parent_node == old({P}))))").format(D=D, P=P),
            "siblings-before-unchanged": ("implies(not isnone(old({P})), forall_int(lambda k: implies(0 <= k and k < old({D}.g_pos), "
                                          "at(old({P})._child_nodes, k) == at(old({P}._child_nodes), k))))").format(D=D, P=P),
            "siblings-after-shifted": ("implies(not isnone(old({P})), forall_int(lambda k: implies(old({D}.g_pos) < k and k < old(length({P}._child_nodes)), "
                                       "at(old({P})._child_nodes, k + old(length({D}._child_nodes)) - 1) == at(old({P}._child_nodes), k))))").format(D=D, P=P),
        },
    ),
    Contract(ED + ":Edge._get_head_node", types={"return": "opt ref:Node"}, requires="True", ensures={"head": "result == self._head_node"}),
    Contract(ND + ":Node._get_edge_length", types={"return": "opt real"}, requires="not isnone(self._edge)", ensures={"len": "eq(result, self._edge.length)"}),
    Contract(ND + ":Node._get_edge", types={"return": "opt ref:Edge"}, requires="True", ensures={"edge": "result == self._edge"}),
    Contract(ND + ":Node._get_parent_node", types={"return": "opt ref:Node"}, requires="True", ensures={"parent": "result == self._parent_node"}),
]


# ---- methods built on the primitives: a new child is an ALLOCATION (Node.__init__: ASSUMED constructor contract -- a node without parent
# and children; freshness is the engine's allocation axiom); `child_nodes` of set_child_nodes is any iterable of nodes (a holder
# object whose iteration is the ghost list g_items)
SCHEMA["NodeArg.g_items"] = "ghost reflist:Node"
NODE_INIT = Contract(ND + ":Node.__init__", types={"**": "opaque"}, requires="True",
                     modifies=["self._parent_node", "self._child_nodes", "self._edge"], frame=False, assumed=True,
                     ensures={"detached": "isnone(self._parent_node) and length(self._child_nodes) == 0 and listinv(self._child_nodes)"})
APPENDED = ("length({L}) == old(length({L})) + 1 and at({L}, old(length({L}))) == result and forall_int(lambda k: implies(0 <= k and k < old(length({L})), at({L}, k) == at(old({L}), k)))").format(L=CH)
COMPOSITES = [
 Contract(ND + ":Node.new_child", types={"**": "opaque", "return": "ref:Node"}, requires="listinv(%s)" % CH,
          modifies=["Node._parent_node[*]", "Node._child_nodes[*]", "Node._edge[*]", "Node.g_pos[*]", "Node.g_owner[*]"], frame=False,
          ensures={"a-new-last-child": APPENDED, "parent-set": "result._parent_node == self", "list-invariant": "listinv(%s)" % CH,
                   "not-an-old-child": "not old(isin(result, %s))" % CH, "new-node-has-no-children": "length(result._child_nodes) == 0"}),
 Contract(ND + ":Node.insert_new_child", types={"index": "int", "**": "opaque", "return": "ref:Node"}, requires="listinv(%s) and 0 <= index and index <= length(%s)" % (CH, CH),
          modifies=["Node._parent_node[*]", "Node._child_nodes[*]", "Node._edge[*]", "Node.g_pos[*]", "Node.g_owner[*]"], frame=False,
          ensures={"inserted-at-index": "length({L}) == old(length({L})) + 1 and at({L}, index) == result".format(L=CH), "parent-set": "result._parent_node == self",
                   "list-invariant": "listinv(%s)" % CH, "not-an-old-child": "not old(isin(result, %s))" % CH,
                   "old-children-kept": "forall_ref('Node', lambda m: implies(old(isin(m, {L})), isin(m, {L})))".format(L=CH)}),
 Contract(ND + ":Node.set_child_nodes", types={"child_nodes": "ref:NodeArg"},
          # the nodes handed over: none is self or self's parent (add_child's documented preconditions), none is None
          requires=("forall_int(lambda j: implies(0 <= j and j < length(child_nodes.g_items), not isnone(at(child_nodes.g_items, j)) and at(child_nodes.g_items, j) != self "
                    "and at(child_nodes.g_items, j) != self._parent_node))"),
          modifies=["Node._parent_node[*]", "self._child_nodes", "Node.g_pos[*]", "Node.g_owner[*]"], frame=False,
          locals={"nd": "ref:Node"},
          loops={0: Loop(invariant=("listinv({L}) and forall_int(lambda j: implies(0 <= j and j < loop_index(), isin(at(child_nodes.g_items, j), {L}) and at(child_nodes.g_items, j)._parent_node == self)) "
                                    "and forall_ref('Node', lambda m: implies(isin(m, {L}), exists_int(lambda j: 0 <= j and j < loop_index() and at(child_nodes.g_items, j) == m))) "
                                    "and self._parent_node == pre(self._parent_node)").format(L=CH))},
          ensures={"list-invariant": "listinv(%s)" % CH,
                   "every-node-given-is-a-child-with-self-as-parent": "forall_int(lambda j: implies(0 <= j and j < length(child_nodes.g_items), isin(at(child_nodes.g_items, j), {L}) and at(child_nodes.g_items, j)._parent_node == self))".format(L=CH),
                   "no-other-child": "forall_ref('Node', lambda m: implies(isin(m, {L}), exists_int(lambda j: 0 <= j and j < length(child_nodes.g_items) and at(child_nodes.g_items, j) == m)))".format(L=CH)}),
]


class HeapExecutor(Executor3):
    lenient = False
    prune_infeasible = True
    iter_views = {"NodeArg": "g_items"}
    kwargs_passthrough = True   # Node(**kwargs): the constructor contract covers every keyword

    def attr_of(self, st, base, attr, lineno):
        if attr == "__class__" and base.kind == "ref" and base.cls == "Node" and not self.spec:
            return SV("class", "Node")   # self.__class__(...) in Node methods: a Node (subclasses: bounded)
        return Executor3.attr_of(self, st, base, attr, lineno)


SUITE = Suite(SCHEMA, [ND, ED], CONTRACTS + COMPOSITES + [NODE_INIT], executor_cls=HeapExecutor)


def t1(ctx):
    ctx.assume("C03/T1 theory B: child lists modelled exactly (length + element array) with the ghost position map g_pos and listinv; "
               "Node/Edge equality is identity; acyclicity, reachability and the composite operations are bounded (T2)")
    for c in CONTRACTS + COMPOSITES:
        verify_contract(ctx, SUITE, c, sentinels=False, replay=dreplay.replay_by_search(states))
    dreplay.validate_contracts_natively(ctx, CONTRACTS + COMPOSITES, states, "primitive-contracts@forests<=4",
                                        "every T1 contract as a run-time monitor on the real method, for every ordered forest shape with <= 4 leaves "
                                        "plus one detached node x every receiver/argument choice; non-trivial = inside the contract's requires")


# ----------------------------------------------------------------------------- native replay: reachable heaps of real nodes
def states(c):
    """small forests of real Node objects x every choice of receiver / arguments"""
    import itertools
    from dendropy.datamodel.treemodel import Node, Edge
    from bounded.common import shapes_upto
    meth = c.name.split(".")[-1]
    cls = c.name.split(".")[0]

    def forest(shape):
        nodes = []

        def mk(s):
            n = Node(label="n%d" % len(nodes))
            nodes.append(n)
            for ch in s:
                n.add_child(mk(ch))
            return n

        mk(shape)
        extra = Node(label="x")
        nodes.append(extra)
        return nodes

    shapes = [s for s in shapes_upto(4)]
    for shape in shapes:
        n_nodes = len(forest(shape))
        for i in range(n_nodes):
            if cls == "Node" and meth in ("add_child", "remove_child", "insert_child"):
                for j in range(n_nodes):
                    idxs = (0, 1, 2, -1, 5) if meth == "insert_child" else (None,)
                    for idx in idxs:
                        nodes = forest(shape)
                        kw = {"self": nodes[i], "node": nodes[j]}
                        if meth == "insert_child":
                            kw["index"] = idx
                        if meth == "remove_child":
                            kw["suppress_unifurcations"] = False
                        yield kw, {"Node": nodes}, "%s: n%d.%s(n%d%s) on %s" % (c.name, i, meth, j, "" if idx is None else ", %d" % idx, shape)
            elif cls == "Node" and meth == "_set_parent_node":
                for j in list(range(n_nodes)) + [None]:
                    nodes = forest(shape)
                    if j is not None and (j == i):
                        continue
                    yield {"self": nodes[i], "parent": None if j is None else nodes[j]}, {"Node": nodes}, "%s: n%d.parent_node = %s on %s" % (c.name, i, "None" if j is None else "n%d" % j, shape)
            elif cls == "Edge" and meth == "_set_tail_node":
                for j in list(range(n_nodes)) + [None]:
                    nodes = forest(shape)
                    if j is not None and j == i:
                        continue
                    yield {"self": nodes[i].edge, "node": None if j is None else nodes[j]}, {"Node": nodes}, "%s: n%d.edge.tail_node = %s on %s" % (c.name, i, "None" if j is None else "n%d" % j, shape)
            elif cls == "Edge" and meth == "invert":
                nodes = forest(shape)
                for q, nd in enumerate(nodes):
                    if q == 3:
                        nd.edge.length = None
                    else:
                        nd.edge.length = float(q + 1)
                yield {"self": nodes[i].edge, "update_bipartitions": False}, {"Node": nodes}, "%s: n%d.edge.invert() on %s" % (c.name, i, shape)
            elif cls == "Edge" and meth == "_get_tail_node":
                nodes = forest(shape)
                yield {"self": nodes[i].edge}, {"Node": nodes}, "%s: n%d.edge.tail_node on %s" % (c.name, i, shape)
            elif cls == "Node" and meth in ("new_child", "insert_new_child"):
                for idx in ((None,) if meth == "new_child" else (0, 1, 2)):
                    nodes = forest(shape)
                    if idx is not None and idx > len(nodes[i]._child_nodes):
                        continue
                    kw = {"self": nodes[i]}
                    if idx is not None:
                        kw["index"] = idx
                    yield kw, {"Node": nodes}, "%s: n%d.%s(%s) on %s" % (c.name, i, meth, "" if idx is None else idx, shape)
            elif cls == "Node" and meth == "set_child_nodes":
                for pick in itertools.chain.from_iterable(itertools.permutations(range(n_nodes), r) for r in (0, 1, 2)):
                    for dup in (False, True):
                        nodes = forest(shape)
                        arg = [nodes[j] for j in pick] + ([nodes[pick[0]]] if dup and pick else [])
                        if dup and not pick:
                            continue
                        yield {"self": nodes[i], "child_nodes": NodeArg(arg)}, {"Node": nodes}, "%s: n%d.set_child_nodes(%s) on %s" % (
                            c.name, i, ["n%d" % nodes.index(x) for x in arg], shape)
            elif cls == "Node" and meth in ("clear_child_nodes", "_get_edge", "_get_parent_node"):
                nodes = forest(shape)
                yield {"self": nodes[i]}, {"Node": nodes}, "%s: n%d.%s() on %s" % (c.name, i, meth, shape)


class NodeArg(list):
    g_items = property(lambda self: list(self))


def replay(ctx, rec):
    w = rec.get("witness", {})
    print(w.get("state"), "->", w.get("outcome"), w.get("failed_clauses"))
    target = w.get("function")
    c = [x for x in CONTRACTS + COMPOSITES if x.target == target]
    if not c:
        return True
    for kw, uni, desc in states(c[0]):
        if desc == w.get("state"):
            failed, outcome = dreplay.native_check(c[0], kw, universe=uni)
            print("replayed natively:", outcome, "failed clauses:", failed)
            return not failed
    return True
