"""C09 -- character matrices survive a write/read round trip (T1 part: the glue clause only).

The round trip of the property is `M.get(data=m.as_string(schema, **w), schema, **r)`.  The writers and readers themselves are
string / XML code outside the reach of the VC generator (DESIGN.md section 6) and stay bounded.  What is decided here, on the AST
of the real source and without a solver, is the glue on both sides of them -- the part a change can break without touching a
writer or a reader:

  write side (dendropy.datamodel.basemodel.Serializable, dendropy.datamodel.charmatrixmodel.CharacterMatrix,
  dendropy.datamodel.datasetmodel.DataSet)
  * `as_string`, `write_to_stream`, `write_to_path` each call `self._format_and_write_to_stream` exactly once with the `schema`
    and the `**kwargs` they were given, untouched, and as `stream` the destination they were given or made from it (a StringIO()
    created empty; `open(<dest>, "w")`); `as_string` returns `getvalue()` of that same StringIO, read after the call;
  * the dispatcher `_write_to` hands `dest`, `schema`, `**kwargs` to the branch it selects;
  * `CharacterMatrix._format_and_write_to_stream` asks `dataio.get_writer(schema, **kwargs)` and gives that writer exactly
    `[self]` and the caller's stream; `DataSet._format_and_write_to_stream` gives it `self`, the stream and the two exclusion
    flags it was called with;

  read side (CharacterMatrix._parse_and_create_from_stream; the three source kinds in front of it are C13's T1 part)
  * the class's own `data_type` is written into the reader options before the reader is made ("read back as the same data
    type"), the reader is made by `dataio.get_reader(schema, **kwargs)` and reads the caller's stream;
  * the matrix returned is `char_matrices[matrix_offset]`, `matrix_offset` defaults to 0, and a matrix of another data type
    is refused (a `raise` guarded by the comparison of the two data types) rather than returned.

ASSUMED: open() and io.StringIO behave as documented; `dataio.get_writer` / `get_reader` return the writer / reader registered for
the schema (their tables are not under contract)."""
import ast
import time

from dpvc import frontend

BM = "dendropy.datamodel.basemodel"
CM = "dendropy.datamodel.charmatrixmodel"
DS = "dendropy.datamodel.datasetmodel"
SINK = "_format_and_write_to_stream"


def _method(m, cls, name):
    for n in m.tree.body:
        if isinstance(n, ast.ClassDef) and n.name == cls:
            for s in n.body:
                if isinstance(s, ast.FunctionDef) and s.name == name:
                    return s
    return None


def _calls(fn, attr):
    return [n for n in ast.walk(fn) if isinstance(n, ast.Call) and isinstance(n.func, ast.Attribute) and n.func.attr == attr]


def _kw(call, name):
    for k in call.keywords:
        if k.arg == name:
            return k.value
    return None


def _is_name(e, name):
    return isinstance(e, ast.Name) and e.id == name


def _passes_kwargs(call, fn):
    kwname = fn.args.kwarg.arg if fn.args.kwarg is not None else None
    return kwname is not None and sum(1 for k in call.keywords if k.arg is None) == 1 and \
        any(k.arg is None and _is_name(k.value, kwname) for k in call.keywords)


def _bindings(fn, name):
    vals = []
    for n in ast.walk(fn):
        if isinstance(n, ast.Assign) and any(_is_name(t, name) for t in n.targets):
            vals.append(n.value)
        if isinstance(n, (ast.AugAssign, ast.AnnAssign)) and _is_name(n.target, name):
            vals.append(n)
        if isinstance(n, ast.With):
            for it in n.items:
                if it.optional_vars is not None and _is_name(it.optional_vars, name):
                    vals.append(it.context_expr)
        if isinstance(n, (ast.For, ast.comprehension)) and any(_is_name(x, name) for x in ast.walk(n.target)):
            vals.append(n)
    return vals


def _options_untouched(fn, names):
    """no store / delete / method call on the option names anywhere in fn"""
    for n in ast.walk(fn):
        if isinstance(n, (ast.Subscript, ast.Attribute, ast.Name)) and isinstance(getattr(n, "ctx", None), (ast.Store, ast.Del)):
            if any(isinstance(x, ast.Name) and x.id in names for x in ast.walk(n)):
                return False
        if isinstance(n, ast.Call) and isinstance(n.func, ast.Attribute) and isinstance(n.func.value, ast.Name) and n.func.value.id in names:
            return False
    return True


def _stmt_index(fn, node):
    """index of the top-level statement of fn containing node"""
    for i, s in enumerate(fn.body):
        if any(x is node for x in ast.walk(s)):
            return i
    return -1


def _write_mode_open(e):
    """open(<expression over dest, nothing else free>, "w") with no further argument"""
    if not (isinstance(e, ast.Call) and _is_name(e.func, "open") and len(e.args) == 2 and not e.keywords):
        return False
    if not (isinstance(e.args[1], ast.Constant) and e.args[1].value in ("w", "wt")):
        return False
    free = {x.id for x in ast.walk(e.args[0]) if isinstance(x, ast.Name)}
    # os.path.expandvars(os.path.expanduser(dest)): only `dest` and the os module
    calls = [x for x in ast.walk(e.args[0]) if isinstance(x, ast.Call)]
    ok_calls = all(isinstance(c.func, ast.Attribute) and c.func.attr in ("expandvars", "expanduser") and len(c.args) == 1 and not c.keywords for c in calls)
    return "dest" in free and free <= {"dest", "os"} and ok_calls


def glue_obligations(ctx, parts=("serializable", "charmatrix", "dataset", "reader")):
    out = []
    t0 = [time.time()]

    def emit(name, ok, target, why):
        ctx.obligation(name, "proved" if ok else "refuted", "ast-scan", time.time() - t0[0], target, detail=None if ok else why)
        t0[0] = time.time()
        if not ok:
            out.append((name, target, why))

    def get(modname, cls, meth):
        m = frontend.module(modname)
        fn = _method(m, cls, meth)
        target = "%s:%s.%s" % (modname, cls, meth)
        if fn is None:
            emit("%s.%s.exists" % (cls, meth), False, target, "method not found")
        else:
            ctx.add_function(target)
        return fn, target

    # ---- the three destinations of Serializable
    for meth, how in (("write_to_stream", "given"), ("write_to_path", "open"), ("as_string", "stringio")) if "serializable" in parts else ():
        fn, target = get(BM, "Serializable", meth)
        if fn is None:
            continue
        p = "Serializable.%s" % meth
        calls = _calls(fn, SINK)
        one = len(calls) == 1 and _is_name(calls[0].func.value, "self") and not any(
            isinstance(n, (ast.For, ast.While, ast.If, ast.Try)) for n in ast.walk(fn))
        emit("%s.delegates-once-unconditionally[%s]" % (p, SINK), one, target,
             "expected one unconditional call of self.%s, found %d call(s)%s" % (SINK, len(calls), "" if len(calls) != 1 else " under a branch / loop / try"))
        if not calls:
            continue
        call = calls[0]
        sch = _kw(call, "schema")
        emit("%s.forwards[schema]" % p, _is_name(sch, "schema") and not call.args, target, "schema is passed as %s" % (ast.unparse(sch) if sch is not None else "nothing"))
        emit("%s.forwards[**kwargs]" % p, _passes_kwargs(call, fn) and sorted(k.arg for k in call.keywords if k.arg) == ["schema", "stream"], target,
             "keywords passed on: %s" % [k.arg or "**" + ast.unparse(k.value) for k in call.keywords])
        emit("%s.options-untouched" % p, _options_untouched(fn, ("kwargs", "schema")), target, "kwargs/schema are modified in the wrapper")
        sv = _kw(call, "stream")
        rets = [n for n in ast.walk(fn) if isinstance(n, ast.Return)]
        if how == "given":
            emit("%s.stream-is-the-destination-given" % p, _is_name(sv, "dest") and not _bindings(fn, "dest"), target, "stream=%s" % (ast.unparse(sv) if sv is not None else None))
        elif how == "open":
            b = _bindings(fn, sv.id) if isinstance(sv, ast.Name) else []
            ok = len(b) == 1 and _write_mode_open(b[0]) and not _bindings(fn, "dest")
            withs = [n for n in ast.walk(fn) if isinstance(n, ast.With) and any(it.context_expr is (b[0] if b else None) for it in n.items)]
            inside = bool(withs) and any(x is call for x in ast.walk(withs[0]))
            emit("%s.stream-is-the-destination-opened-for-writing" % p, ok, target,
                 "stream=%s, bound to %s" % (ast.unparse(sv) if sv is not None else None, [ast.unparse(x) for x in b if isinstance(x, ast.expr)]))
            emit("%s.file-is-closed-after-the-write[with]" % p, inside, target, "the call is not inside `with open(...) as %s`" % (sv.id if isinstance(sv, ast.Name) else "?"))
        else:
            b = _bindings(fn, sv.id) if isinstance(sv, ast.Name) else []
            fresh = len(b) == 1 and isinstance(b[0], ast.Call) and not b[0].args and not b[0].keywords and \
                ((isinstance(b[0].func, ast.Name) and b[0].func.id == "StringIO") or (isinstance(b[0].func, ast.Attribute) and b[0].func.attr == "StringIO"))
            emit("%s.stream-is-a-fresh-empty-StringIO" % p, fresh, target,
                 "stream=%s, bound to %s" % (ast.unparse(sv) if sv is not None else None, [ast.unparse(x) for x in b if isinstance(x, ast.expr)]))
            # the text returned is all of that buffer, read after the writer ran; the buffer is used for nothing else
            name = sv.id if isinstance(sv, ast.Name) else None
            okret = len(rets) == 1 and isinstance(rets[0].value, ast.Call) and isinstance(rets[0].value.func, ast.Attribute) and \
                rets[0].value.func.attr == "getvalue" and _is_name(rets[0].value.func.value, name) and not rets[0].value.args and not rets[0].value.keywords and \
                _stmt_index(fn, rets[0]) > _stmt_index(fn, call)
            emit("%s.returns-the-whole-buffer-after-the-write" % p, okret, target, "returns %s" % [ast.unparse(r.value) if r.value is not None else None for r in rets])
            uses = [n for n in ast.walk(fn) if _is_name(n, name) and isinstance(n.ctx, ast.Load)]
            emit("%s.buffer-used-for-nothing-else" % p, len(uses) == 2, target, "%d uses of the buffer (expected: handed to the writer, getvalue())" % len(uses))
    # ---- the dispatcher
    fn, target = get(BM, "Serializable", "_write_to") if "serializable" in parts else (None, None)
    if fn is not None:
        for kind, callee in (("file", "write_to_stream"), ("path", "write_to_path")):
            calls = _calls(fn, callee)
            ok = len(calls) == 1 and _is_name(_kw(calls[0], "dest"), "dest") and _is_name(_kw(calls[0], "schema"), "schema") and _passes_kwargs(calls[0], fn) \
                and not calls[0].args and sorted(k.arg for k in calls[0].keywords if k.arg) == ["dest", "schema"]
            emit("Serializable._write_to.%s-branch-forwards[dest, schema, **kwargs]" % kind, ok, target, "call of %s: %s" % (callee, ast.unparse(calls[0]) if calls else "none"))
            # the branch is selected by the destination keyword alone
            sel = False
            for n in ast.walk(fn):
                if isinstance(n, ast.If) and isinstance(n.test, ast.Compare) and _is_name(n.test.left, "dest_type") and len(n.test.ops) == 1 and \
                        isinstance(n.test.ops[0], ast.Eq) and isinstance(n.test.comparators[0], ast.Constant) and n.test.comparators[0].value == kind:
                    sel = bool(calls) and any(x is calls[0] for s in n.body for x in ast.walk(s))
            emit("Serializable._write_to.%s-branch-selected-by-destination-kind" % kind, sel, target, "no `if dest_type == %r:` around the call of %s" % (kind, callee))
        ext = [n for n in ast.walk(fn) if isinstance(n, ast.Assign) and isinstance(n.value, ast.Call) and _is_name(n.value.func, "_extract_serialization_target_keyword")]
        ok = len(ext) == 1 and isinstance(ext[0].targets[0], ast.Tuple) and [getattr(e, "id", None) for e in ext[0].targets[0].elts] == ["dest_type", "dest", "schema"] \
            and len(_bindings(fn, "dest")) == 0 and len(_bindings(fn, "schema")) == 0
        # (the tuple target is not seen by _bindings, so "no other binding" == 0)
        emit("Serializable._write_to.destination-and-schema-come-from-the-call's-keywords-only", ok, target, "dest_type / dest / schema are bound elsewhere as well")
    # ---- CharacterMatrix: writer glue
    fn, target = get(CM, "CharacterMatrix", SINK) if "charmatrix" in parts else (None, None)
    if fn is not None:
        gw = [n for n in ast.walk(fn) if isinstance(n, ast.Call) and isinstance(n.func, ast.Attribute) and n.func.attr == "get_writer"]
        ok = len(gw) == 1 and len(gw[0].args) == 1 and _is_name(gw[0].args[0], "schema") and _passes_kwargs(gw[0], fn) and len(gw[0].keywords) == 1
        emit("CharacterMatrix.%s.writer-made-for[schema, **kwargs]" % SINK, ok, target, "get_writer call: %s" % (ast.unparse(gw[0]) if gw else "none"))
        emit("CharacterMatrix.%s.options-untouched" % SINK, _options_untouched(fn, ("kwargs", "schema", "stream")), target, "kwargs/schema/stream are modified")
        wc = _calls(fn, "write_char_matrices")
        wname = None
        for n in ast.walk(fn):
            if isinstance(n, ast.Assign) and gw and n.value is gw[0] and len(n.targets) == 1 and isinstance(n.targets[0], ast.Name):
                wname = n.targets[0].id
        ok = len(wc) == 1 and wname is not None and _is_name(wc[0].func.value, wname) and len(_bindings(fn, wname)) == 1 and not any(
            isinstance(n, (ast.For, ast.While, ast.If, ast.Try)) for n in ast.walk(fn))
        emit("CharacterMatrix.%s.that-writer-writes-once-unconditionally" % SINK, ok, target, "write_char_matrices calls: %s" % [ast.unparse(c) for c in wc])
        if wc:
            c = wc[0]
            args = list(c.args) + [None, None]
            a0 = args[0] if args[0] is not None else _kw(c, "char_matrices_list")
            a1 = args[1] if args[1] is not None else _kw(c, "stream")
            ok0 = isinstance(a0, (ast.List, ast.Tuple)) and len(a0.elts) == 1 and _is_name(a0.elts[0], "self")
            emit("CharacterMatrix.%s.writes-exactly-[self]" % SINK, ok0, target, "matrices written: %s" % (ast.unparse(a0) if a0 is not None else None))
            emit("CharacterMatrix.%s.writes-to-the-caller's-stream" % SINK, _is_name(a1, "stream") and len(c.args) + len(c.keywords) == 2, target,
                 "call: %s" % ast.unparse(c))
    # ---- DataSet: writer glue
    fn, target = get(DS, "DataSet", SINK) if "dataset" in parts else (None, None)
    if fn is not None:
        gw = [n for n in ast.walk(fn) if isinstance(n, ast.Call) and isinstance(n.func, ast.Attribute) and n.func.attr == "get_writer"]
        ok = len(gw) == 1 and len(gw[0].args) == 1 and _is_name(gw[0].args[0], "schema") and _passes_kwargs(gw[0], fn) and len(gw[0].keywords) == 1
        emit("DataSet.%s.writer-made-for[schema, **kwargs]" % SINK, ok, target, "get_writer call: %s" % (ast.unparse(gw[0]) if gw else "none"))
        wc = _calls(fn, "write_dataset")
        ok = len(wc) == 1 and [getattr(a, "id", None) for a in wc[0].args] == ["self", "stream", "exclude_trees", "exclude_chars"] and not wc[0].keywords
        emit("DataSet.%s.writes[self, stream, exclude_trees, exclude_chars]" % SINK, ok, target, "write_dataset calls: %s" % [ast.unparse(c) for c in wc])
        d = dict(zip([a.arg for a in fn.args.args][-len(fn.args.defaults):], fn.args.defaults)) if fn.args.defaults else {}
        ok = all(isinstance(d.get(k), ast.Constant) and d[k].value is False for k in ("exclude_trees", "exclude_chars"))
        emit("DataSet.%s.nothing-excluded-by-default" % SINK, ok and _options_untouched(fn, ("kwargs", "schema", "stream", "exclude_trees", "exclude_chars")), target,
             "defaults: %s" % dict((k, ast.unparse(v)) for k, v in d.items()))
    # ---- CharacterMatrix: reader glue
    fn, target = get(CM, "CharacterMatrix", "_parse_and_create_from_stream") if "reader" in parts else (None, None)
    if fn is not None:
        p = "CharacterMatrix._parse_and_create_from_stream"
        gr = [n for n in ast.walk(fn) if isinstance(n, ast.Call) and isinstance(n.func, ast.Attribute) and n.func.attr == "get_reader"]
        ok = len(gr) == 1 and len(gr[0].args) == 1 and _is_name(gr[0].args[0], "schema") and _passes_kwargs(gr[0], fn) and len(gr[0].keywords) == 1
        emit("%s.reader-made-for[schema, **kwargs]" % p, ok, target, "get_reader call: %s" % (ast.unparse(gr[0]) if gr else "none"))
        # kwargs["data_type"] = cls.data_type, at top level, before the reader is made, and the last store into kwargs before it
        sets = [n for n in fn.body if isinstance(n, ast.Assign) and len(n.targets) == 1 and isinstance(n.targets[0], ast.Subscript)
                and _is_name(n.targets[0].value, "kwargs") and isinstance(n.targets[0].slice, ast.Constant) and n.targets[0].slice.value == "data_type"]
        okset = len(sets) == 1 and isinstance(sets[0].value, ast.Attribute) and sets[0].value.attr == "data_type" and _is_name(sets[0].value.value, "cls") \
            and bool(gr) and fn.body.index(sets[0]) < _stmt_index(fn, gr[0])
        if okset:
            between = fn.body[fn.body.index(sets[0]) + 1:_stmt_index(fn, gr[0])]
            okset = not any(_is_name(x, "kwargs") for s in between for x in ast.walk(s))
        emit("%s.reads-as-the-class's-own-data-type" % p, okset, target, "stores of kwargs['data_type']: %s" % [ast.unparse(s) for s in sets])
        rc = _calls(fn, "read_char_matrices")
        ok = len(rc) == 1 and _is_name(_kw(rc[0], "stream"), "stream") and not _bindings(fn, "stream")
        emit("%s.reads-the-caller's-stream" % p, ok, target, "read_char_matrices calls: %s" % [ast.unparse(c)[:120] for c in rc])
        rname = None
        for n in ast.walk(fn):
            if isinstance(n, ast.Assign) and rc and n.value is rc[0] and len(n.targets) == 1 and isinstance(n.targets[0], ast.Name):
                rname = n.targets[0].id
        rets = [n for n in ast.walk(fn) if isinstance(n, ast.Return) and not any(
            isinstance(a, ast.FunctionDef) and a is not fn and any(x is n for x in ast.walk(a)) for a in ast.walk(fn))]
        mname = rets[0].value.id if len(rets) == 1 and isinstance(rets[0].value, ast.Name) else None
        b = _bindings(fn, mname) if mname else []
        ok = rname is not None and len(b) == 1 and isinstance(b[0], ast.Subscript) and _is_name(b[0].value, rname) and _is_name(b[0].slice, "matrix_offset") \
            and len(_bindings(fn, rname)) == 1 and not _bindings(fn, "matrix_offset")
        emit("%s.returns-the-matrix-at-the-offset-asked-for" % p, ok, target, "returns %s bound to %s" % (mname, [ast.unparse(x) for x in b if isinstance(x, ast.expr)]))
        names = [a.arg for a in fn.args.args]
        d = dict(zip(names[-len(fn.args.defaults):], fn.args.defaults)) if fn.args.defaults else {}
        emit("%s.offset-defaults-to-the-first-matrix" % p, isinstance(d.get("matrix_offset"), ast.Constant) and d["matrix_offset"].value == 0 and type(d["matrix_offset"].value) is int,
             target, "default: %s" % (ast.unparse(d["matrix_offset"]) if "matrix_offset" in d else "none"))
        # a matrix of another type is refused: `if <m>.data_type != cls.data_type: raise ...` at top level before the return
        guard = False
        for s in fn.body:
            if isinstance(s, ast.If) and isinstance(s.test, ast.Compare) and len(s.test.ops) == 1 and isinstance(s.test.ops[0], ast.NotEq):
                l, r = s.test.left, s.test.comparators[0]
                sides = {ast.unparse(l), ast.unparse(r)}
                if mname and sides == {"%s.data_type" % mname, "cls.data_type"} and s.body and isinstance(s.body[0], ast.Raise) and rets and \
                        fn.body.index(s) < _stmt_index(fn, rets[0]):
                    guard = True
        emit("%s.another-data-type-is-refused-not-returned" % p, guard, target, "no `if %s.data_type != cls.data_type: raise` before the return" % mname)
    # ---- trees (used by C02): TreeList and Tree writer glue
    fn, target = get("dendropy.datamodel.treecollectionmodel", "TreeList", SINK) if "trees" in parts else (None, None)
    if fn is not None:
        gw = [n for n in ast.walk(fn) if isinstance(n, ast.Call) and isinstance(n.func, ast.Attribute) and n.func.attr == "get_writer"]
        ok = len(gw) == 1 and len(gw[0].args) == 1 and _is_name(gw[0].args[0], "schema") and _passes_kwargs(gw[0], fn) and len(gw[0].keywords) == 1
        emit("TreeList.%s.writer-made-for[schema, **kwargs]" % SINK, ok, target, "get_writer call: %s" % (ast.unparse(gw[0]) if gw else "none"))
        wc = _calls(fn, "write_tree_list")
        wname = None
        for n in ast.walk(fn):
            if isinstance(n, ast.Assign) and gw and n.value is gw[0] and len(n.targets) == 1 and isinstance(n.targets[0], ast.Name):
                wname = n.targets[0].id
        ok = len(wc) == 1 and wname is not None and _is_name(wc[0].func.value, wname) and [getattr(a, "id", None) for a in wc[0].args] == ["self", "stream"] and not wc[0].keywords \
            and not any(isinstance(n, (ast.For, ast.While, ast.If, ast.Try)) for n in ast.walk(fn))
        emit("TreeList.%s.that-writer-writes[self, stream]-once-unconditionally" % SINK, ok, target, "write_tree_list calls: %s" % [ast.unparse(c) for c in wc])
        emit("TreeList.%s.options-untouched" % SINK, _options_untouched(fn, ("kwargs", "schema", "stream")), target, "kwargs/schema/stream are modified")
    fn, target = get("dendropy.datamodel.treemodel._tree", "Tree", SINK) if "trees" in parts else (None, None)
    if fn is not None:
        p = "Tree.%s" % SINK
        mk = [n for n in ast.walk(fn) if isinstance(n, ast.Assign) and isinstance(n.value, ast.Call) and _is_name(n.value.func, "TreeList") and len(n.targets) == 1
              and isinstance(n.targets[0], ast.Name)]
        lname = mk[0].targets[0].id if len(mk) == 1 else None
        ok = lname is not None and not mk[0].value.args and [k.arg for k in mk[0].value.keywords] == ["taxon_namespace"] and \
            ast.unparse(mk[0].value.keywords[0].value) == "self.taxon_namespace" and len(_bindings(fn, lname)) == 1
        emit(p + ".wraps-itself-in-a-new-list-over-its-own-namespace", ok, target, "TreeList(...) made: %s" % [ast.unparse(n.value) for n in mk])
        lcalls = [n for n in ast.walk(fn) if isinstance(n, ast.Call) and isinstance(n.func, ast.Attribute) and _is_name(n.func.value, lname)]
        ap = [c for c in lcalls if c.func.attr == "append"]
        wr = [c for c in lcalls if c.func.attr == "write_to_stream"]
        ok = len(ap) == 1 and len(ap[0].args) == 1 and _is_name(ap[0].args[0], "self") and len(lcalls) == 2 and len(wr) == 1 and \
            _stmt_index(fn, ap[0]) < _stmt_index(fn, wr[0] if wr else ap[0]) and \
            all(k.arg == "taxon_import_strategy" and isinstance(k.value, ast.Constant) and k.value.value == "add" for k in ap[0].keywords)
        emit(p + ".the-list-holds-exactly-this-tree[not a copy, not migrated]", ok, target, "calls on the list: %s" % [ast.unparse(c) for c in lcalls])
        ok = False
        if wr:
            c = wr[0]
            a = list(c.args)
            dest = a[0] if a else _kw(c, "dest")
            sch = a[1] if len(a) > 1 else _kw(c, "schema")
            ok = _is_name(dest, "stream") and _is_name(sch, "schema") and _passes_kwargs(c, fn) and len(c.args) + len([k for k in c.keywords if k.arg]) == 2
        emit(p + ".forwards[stream, schema, **kwargs]", ok, target, "write_to_stream call: %s" % [ast.unparse(c) for c in wr])
        emit(p + ".options-untouched", _options_untouched(fn, ("kwargs", "schema", "stream")) and not any(isinstance(n, (ast.For, ast.While, ast.If, ast.Try)) for n in ast.walk(fn)),
             target, "kwargs/schema/stream are modified, or the write is conditional")
    return out


def native_glue_witness():
    """native witness search: one small matrix per data type family through as_string / write(file=) / write(path=) and back"""
    import io
    import os
    import tempfile
    import dendropy
    cases = [(dendropy.DnaCharacterMatrix, {"t1": "ACGT-?", "t2": "AANNRY"}, ("nexus", "phylip", "fasta", "nexml")),
             (dendropy.StandardCharacterMatrix, {"t1": "0123", "t2": "01?-"}, ("nexus", "phylip", "fasta", "nexml")),
             (dendropy.ProteinCharacterMatrix, {"t1": "ACDE", "t2": "XZ-?"}, ("nexus", "phylip", "fasta", "nexml"))]
    for cls, d, schemas in cases:
        m = cls.from_dict(d)
        want = [(t.label, m[t].symbols_as_string()) for t in m]
        for schema in schemas:
            outs = {}
            try:
                outs["as_string"] = m.as_string(schema=schema)
                s = io.StringIO()
                m.write(file=s, schema=schema)
                outs["file"] = s.getvalue()
                fd, p = tempfile.mkstemp(suffix="." + schema)
                os.close(fd)
                try:
                    m.write(path=p, schema=schema)
                    with open(p) as f:
                        outs["path"] = f.read()
                finally:
                    os.unlink(p)
            except Exception as e:  # noqa
                return dict(cls=cls.__name__, schema=schema, rows=d, outcome="writing raises %s: %s" % (type(e).__name__, e))
            if len(set(outs.values())) > 1:
                return dict(cls=cls.__name__, schema=schema, rows=d, outcome="the three destinations receive different text", texts=dict((k, v[:300]) for k, v in outs.items()))
            try:
                back = cls.get(data=outs["as_string"], schema=schema)
                got = [(t.label, back[t].symbols_as_string()) for t in back]
                tp = type(back)
            except Exception as e:  # noqa
                return dict(cls=cls.__name__, schema=schema, rows=d, outcome="reading back raises %s: %s" % (type(e).__name__, e), text=outs["as_string"][:300])
            if got != want or tp is not cls:
                return dict(cls=cls.__name__, schema=schema, rows=d, outcome="read back as %s %r, written %r" % (tp.__name__, got, want), text=outs["as_string"][:300])
        ds = dendropy.DataSet()
        ds.add_char_matrix(m)
        for schema in ("nexus", "nexml"):
            try:
                back = dendropy.DataSet.get(data=ds.as_string(schema=schema), schema=schema)
                got = [[(t.label, cm[t].symbols_as_string()) for t in cm] for cm in back.char_matrices]
            except Exception as e:  # noqa
                return dict(cls="DataSet[%s]" % cls.__name__, schema=schema, rows=d, outcome="raises %s: %s" % (type(e).__name__, e))
            if got != [want]:
                return dict(cls="DataSet[%s]" % cls.__name__, schema=schema, rows=d, outcome="read back %r, written %r" % (got, [want]))
    return None


def t1(ctx):
    ctx.assume("C09/T1: only the glue around the writers and readers is decided (on the AST): as_string / write(file=) / write(path=) hand the caller's schema and "
               "options, untouched, to one writer made for that schema, which is given exactly the matrix (or the data set) and the caller's destination, and the text "
               "returned is the whole buffer; the class's data type is forced into the reader options and the matrix at the offset asked for is returned or refused. "
               "open(), io.StringIO, dataio.get_writer / get_reader are ASSUMED to behave as documented; the writers and readers themselves are bounded only")
    fails = glue_obligations(ctx)
    if fails:
        w = native_glue_witness()
        for name, target, why in fails:
            if w is not None:
                ctx.fail(name, dict(key="glue|%s|%s" % (w["cls"], w["schema"]), function=target, why=why, **w),
                         detail="%s; native: %s %s -> %s" % (why, w["cls"], w["schema"], w["outcome"]), kind="T1")
            else:
                ctx.fail(name, dict(key="site:%s" % name, function=target, why=why, native="the sample matrices round-trip through every destination and schema"),
                         detail=why, kind="T1", no_input=True)


def replay(ctx, rec):
    w = native_glue_witness()
    print(w or "the sample matrices round-trip through as_string / file= / path= in every schema")
    return w is None
