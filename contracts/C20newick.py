"""C20 -- the NEWICK reader's recursive descent (T1 part, continues contracts/C20.py).

The tokenizer arrives as the PARAMETER `nexus_tokenizer`; same ghost theory as for the NEXUS reader.
  * NewickReader._parse_tree_statement: both `while` loops make progress, the tokenizer only moves forward, and a
    tree is returned only after at least one token was consumed or the end of the stream was reached (which is what
    makes the loops of tree_iter / of the NEXUS TREES block terminate);
  * NewickReader._parse_tree_node_description: every loop -- including `for count in it.count()`, which has no bound
    of its own -- makes progress, and every RECURSIVE call is made on a strictly smaller measure (function-level
    `decreases`), so the recursion is well founded: depth and total work are bounded by the number of tokens left.
    (That Python's own recursion limit is hit first for ~1000 nested parentheses is the recorded finding
    C20-recursive-descent-depth; the obligation is about the mathematical function.)
With these, NexusReader._build_tree_from_newick_tree_string is verified against the contract of
_parse_tree_statement instead of being ASSUMED monotone."""
import ast
import re

from dpvc import frontend
from dpvc.symexec import Contract, Loop
from dpvc.verify import Suite, verify_contract
from contracts import C20 as B

NW = "dendropy.dataio.newickreader"
NY = "dendropy.dataio.newickyielder"
TKN = "nexus_tokenizer"

INV = B.INV_T.format(t=TKN)
MEASURE = B.MEASURE_T.format(t=TKN)
MONO = B.MONO_T.format(t=TKN)
LOOP_MONO = B.LOOP_MONO_T.format(t=TKN)
MODS = [TKN + ".g_pos", TKN + ".g_eof", TKN + ".current_token"]
ALLOWED = ("UnexpectedEndOfStreamError", "UnterminatedQuoteError", "NewickReaderMalformedStatementError", "NewickReaderDuplicateTaxonError",
           "NewickReaderIncompleteTreeStatementError", "NewickReaderInvalidTokenError", "NewickReaderInvalidValueError", "DataParseError")

SCHEMA = dict(B.SCHEMA)
SCHEMA.update({
    "NexusReader.newick_reader": "ref:NewickReader",
    "NewickTreeDataYielder.newick_reader": "ref:NewickReader",
    "NewickReader._tree_statement_complete": "opt bool",
    "NewickReader._parenthesis_nesting_level": "opt int",
})
LEVEL = "self._parenthesis_nesting_level"
AT_OPEN = 'eq(old(%s.current_token), "(")' % TKN
AT_CLOSE_OR_COMMA = '(eq(old({t}.current_token), ")") or eq(old({t}.current_token), ","))'.format(t=TKN)
COMPLETE = "(not isnone(self._tree_statement_complete) and self._tree_statement_complete)"
SMALLER = "({m}) < old({m})".format(m=MEASURE)

PROGRESS = "({m}) < old({m}) or ({t}.g_eof and old({t}.g_eof))".format(m=MEASURE, t=TKN)


def newick_contracts():
    inv_loop = INV + " and " + MONO + " and " + LOOP_MONO
    out = []
    out.append(Contract(NW + ":NewickReader._parse_tree_node_description",
                        types={"nexus_tokenizer": "ref:NexusTokenizer", "tree": "opaque", "current_node": "opaque", "taxon_symbol_map_fn": "opaque",
                               "is_internal_node": "opaque", "return": "opaque"},
                        # (a node is described inside at least one open parenthesis, except the seed node of a tree without any)
                        requires=INV + " and not isnone({l}) and {l} >= 0 and implies(eq({t}.current_token, \"(\"), {l} >= 1)".format(l=LEVEL, t=TKN),
                        modifies=MODS + ["self._tree_statement_complete", LEVEL],
                        ensures={"tokenizer-monotone": MONO + " and " + INV,
                                 # the parenthesis this node opened is closed again (the caller counted it)
                                 "nesting-level": "not isnone({l}) and {l} == old({l}) - ite({o}, 1, 0)".format(l=LEVEL, o=AT_OPEN),
                                 # below the seed node, a description that returns has read something -- unless it stood at `)` or `,` (an empty node)
                                 "a-node-costs-a-token": "implies(old({l}) >= 1 and not {c}, {s})".format(l=LEVEL, c=AT_CLOSE_OR_COMMA, s=SMALLER),
                                 # the statement is only ever completed by reading on (past a `;`, or into the end of the stream)
                                 "completion-costs-a-token": "implies(not old(%s.g_eof) and %s, %s)" % (TKN, COMPLETE, SMALLER)},
                        decreases=MEASURE,
                        loops={0: Loop(invariant=inv_loop + " and not isnone({l}) and {l} == old({l}) and {l} >= 1 and {s}".format(l=LEVEL, s=SMALLER), decreases=MEASURE),
                               1: Loop(invariant=inv_loop + " and not isnone({l}) and {l} == old({l}) and {l} >= 1 and {s}".format(l=LEVEL, s=SMALLER), decreases=MEASURE),
                               2: Loop(invariant=inv_loop + " and not " + COMPLETE + " and not isnone({l}) and {l} == old({l}) - ite({o}, 1, 0)".format(l=LEVEL, o=AT_OPEN) +
                                                 # nothing read yet: still on the token the description was entered with
                                                 " and ({s} or eq({t}.current_token, old({t}.current_token)))".format(s=SMALLER, t=TKN),
                                       decreases=MEASURE)},
                        locals={"count": "int", "node_created": "bool", "label_parsed": "bool"},
                        allowed_raises=ALLOWED, may_raise=("NewickReaderMalformedStatementError",), terminates_required=True, frame=False))
    out.append(Contract(NW + ":NewickReader._parse_tree_statement",
                        types={"nexus_tokenizer": "ref:NexusTokenizer", "tree_factory": "opaque", "taxon_symbol_map_fn": "opaque", "return": "opaque"},
                        requires=INV, modifies=MODS + ["self._tree_statement_complete", LEVEL],
                        ensures={"tokenizer-monotone": MONO + " and " + INV,
                                 # what makes `while True: tree = _parse_tree_statement(...)` loops terminate (tree_iter, the NEXUS TREES block)
                                 "a-tree-costs-a-token": "implies(not isnone(result), %s)" % SMALLER},
                        loops={0: Loop(invariant=inv_loop + " and eq(current_token, %s.current_token)" % TKN, decreases=MEASURE),
                               1: Loop(invariant=inv_loop, decreases=MEASURE)},
                        locals={"current_token": "opt str"},
                        allowed_raises=ALLOWED, may_raise=(), terminates_required=True, frame=False))
    out.append(Contract(NW + ":NewickReader.tree_iter",
                        types={"stream": "opaque", "taxon_symbol_mapper": "opaque", "tree_factory": "opaque", "return": "opaque"},
                        requires="True", modifies=[],
                        ensures=None,
                        # a generator: `yield` hands a value out and resumes; the obligation is that the loop cannot run for ever --
                        # every resumption that does not end the generator has cost at least one token
                        loops={0: Loop(invariant=INV, decreases=MEASURE)},
                        locals={"nexus_tokenizer": "ref:NexusTokenizer"},
                        allowed_raises=ALLOWED, may_raise=(), terminates_required=True, frame=False))
    out.append(Contract(NY + ":NewickTreeDataYielder._yield_items_from_stream", name="NewickTreeDataYielder._yield_items_from_stream",
                        types={"stream": "opaque", "return": "opaque"}, requires="True", modifies=[], ensures=None,
                        loops={0: Loop(invariant=INV, decreases=MEASURE)},
                        locals={"nexus_tokenizer": "ref:NexusTokenizer"},
                        allowed_raises=ALLOWED, may_raise=(), terminates_required=True, frame=False))
    return out


class NewickExecutor(B.ReaderExecutor):
    effect_markers = ("nexus_tokenizer", "self._parse")

    def call_method(self, st, obj, name, args, kw, ln):
        c = self._contract_for(obj.cls, name)
        if c is None and obj.cls == "NewickReader":
            fm = self._find_method(obj.cls, name)
            if fm is not None:
                ci, fn = fm
                src = ast.unparse(fn)
                if "nexus_tokenizer" not in src and not re.search(r"self\._parse", src):
                    return self.opaque("helper %s" % name)
                if name == "_process_tree_comments":
                    # takes the tokenizer only to report positions in error messages (checked: reads token_line_num / token_column_num / src)
                    bad = [n for n in ast.walk(fn) if isinstance(n, ast.Attribute) and isinstance(n.value, ast.Name) and n.value.id == "nexus_tokenizer"
                           and n.attr not in ("token_line_num", "token_column_num", "src")]
                    if not bad:
                        return self.opaque("helper %s" % name)
                from dpvc.symexec import Unsupported
                raise Unsupported("reader method %s touches the tokenizer but has no contract" % name)
        return B.ReaderExecutor.call_method(self, st, obj, name, args, kw, ln)

    def default_loop(self, s, ordinal):
        inv = INV + " and " + MONO + " and " + LOOP_MONO
        return Loop(invariant=inv, decreases=MEASURE)


def build_suite():
    toks = B.tok_contracts()
    toks.append(Contract(B.TK + ":Tokenizer.pull_captured_comments", name="NexusTokenizer.pull_captured_comments", types={"return": "opaque"},
                         requires="True", ensures=None, assumed=True, notes="returns and clears captured_comments; the token position is untouched"))
    toks.append(Contract(B.TK + ":Tokenizer.clear_captured_comments", name="NexusTokenizer.clear_captured_comments", types={},
                         requires="True", ensures=None, assumed=True, notes="clears captured_comments"))
    toks.append(Contract(B.NP + ":NexusTokenizer.__init__", name="NexusTokenizer.__init__", types={"src": "opaque", "preserve_unquoted_underscores": "opaque"},
                         requires="True", modifies=["self.g_pos", "self.g_n", "self.g_eof", "self.current_token"],
                         ensures={"start": "self.g_pos == 0 and self.g_n >= 0 and implies(self.g_eof, self.g_n == 0) and isnone(self.current_token)"},
                         assumed=True, notes="a tokenizer over a fresh stream: nothing consumed; at end of stream from the start only if the stream holds no token"))
    cs = toks + newick_contracts()
    return Suite(SCHEMA, [NW, NY, B.NR, B.NP, B.TK], cs, executor_cls=NewickExecutor), cs


def t1(ctx):
    suite, cs = build_suite()
    from dpvc import replay_c20
    for c in cs:
        if c.name.startswith("NewickReader.") or c.name.startswith("NewickTreeDataYielder."):
            verify_contract(ctx, suite, c, sentinels=False, replay=replay_c20.replay_reader)
