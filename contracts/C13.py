"""C13 -- all reading routes deliver the same data (T1 part: the source-kind clause only).

"Reading from a string, a stream or a path gives identical results": in the real source of
dendropy.datamodel.basemodel the three source kinds of every readable class meet in ONE function per class family --

    Deserializable.get_from_stream / get_from_path / get_from_string   ->  cls._parse_and_create_from_stream(stream, schema, **kwargs)
    MultiReadable.read_from_stream / read_from_path / read_from_string ->  self._parse_and_add_from_stream(stream, schema, **kwargs)

and the obligations below (decided on the AST, no solver) say that they meet there with the SAME arguments:

  * each get_from_* / read_from_* passes its `schema` and its `**kwargs` on unchanged, and as `stream` the stream it was given
    or made (nothing else);
  * a path is opened in text mode without a `newline` argument and a string is wrapped as StringIO(src, newline=None): both
    are universal-newlines text streams (CR, LF and CR+LF all read as LF), so the reader sees the same characters;
  * the dispatchers `_get_from` / `_read_from` hand `src`, `schema` and `**kwargs` to the branch they select, and select by the
    source keyword alone.

What the stream function then does with equal arguments is the rest of the property (routes, offsets, namespaces): bounded only.
ASSUMED: open() and io.StringIO behave as documented; a caller-supplied stream is taken as it is."""
import ast
import time

from dpvc import frontend

BM = "dendropy.datamodel.basemodel"

ROUTES = [
    # (class, method, sink, how the stream is made)
    ("Deserializable", "get_from_stream", "_parse_and_create_from_stream", "given"),
    ("Deserializable", "get_from_path", "_parse_and_create_from_stream", "open"),
    ("Deserializable", "get_from_string", "_parse_and_create_from_stream", "stringio"),
    ("MultiReadable", "read_from_stream", "_parse_and_add_from_stream", "given"),
    ("MultiReadable", "read_from_path", "_parse_and_add_from_stream", "open"),
    ("MultiReadable", "read_from_string", "_parse_and_add_from_stream", "stringio"),
]
DISPATCH = [("Deserializable", "_get_from", {"stream": "get_from_stream", "path": "get_from_path", "string": "get_from_string"}),
            ("MultiReadable", "_read_from", {"stream": "read_from_stream", "path": "read_from_path", "string": "read_from_string"})]


def _method(m, cls, name):
    for n in m.tree.body:
        if isinstance(n, ast.ClassDef) and n.name == cls:
            for s in n.body:
                if isinstance(s, ast.FunctionDef) and s.name == name:
                    return s
    return None


def _calls(fn, attr):
    return [n for n in ast.walk(fn) if isinstance(n, ast.Call) and isinstance(n.func, ast.Attribute) and n.func.attr == attr]


def _kw(call, name):
    for k in call.keywords:
        if k.arg == name:
            return k.value
    return None


def _passes_kwargs(call, fn):
    kwname = fn.args.kwarg.arg if fn.args.kwarg is not None else None
    return kwname is not None and any(k.arg is None and isinstance(k.value, ast.Name) and k.value.id == kwname for k in call.keywords)


def _is_name(e, name):
    return isinstance(e, ast.Name) and e.id == name


def _assigned_once(fn, name):
    """the single expression `name` is bound to in fn (assignment or with-item), else None"""
    vals = []
    for n in ast.walk(fn):
        if isinstance(n, ast.Assign) and len(n.targets) == 1 and _is_name(n.targets[0], name):
            vals.append(n.value)
        if isinstance(n, ast.With):
            for it in n.items:
                if it.optional_vars is not None and _is_name(it.optional_vars, name):
                    vals.append(it.context_expr)
    return vals[0] if len(vals) == 1 else None


def _universal_open(e, fn):
    """open(src, "r") / open(src, *open_args) with open_args = ["r"] (or the py2 "rU"); no newline=/encoding-changing keyword"""
    if not (isinstance(e, ast.Call) and _is_name(e.func, "open") and e.args and _is_name(e.args[0], "src")):
        return False
    if any(k.arg in ("newline",) for k in e.keywords):
        return False
    rest = e.args[1:]
    if not rest:
        return True
    if len(rest) == 1 and isinstance(rest[0], ast.Constant):
        return rest[0].value in ("r", "rU", "rt")
    if len(rest) == 1 and isinstance(rest[0], ast.Starred) and isinstance(rest[0].value, ast.Name):
        src = _assigned_once(fn, rest[0].value.id)
        if src is None:
            return False
        consts = [n.value for n in ast.walk(src) if isinstance(n, ast.Constant) and isinstance(n.value, str)]
        return bool(consts) and all(c in ("r", "rU", "rt") for c in consts)
    return False


def _universal_stringio(e):
    if not (isinstance(e, ast.Call) and ((isinstance(e.func, ast.Name) and e.func.id == "StringIO") or
                                         (isinstance(e.func, ast.Attribute) and e.func.attr == "StringIO"))):
        return False
    if not (len(e.args) == 1 and _is_name(e.args[0], "src")):
        return False
    nl = _kw(e, "newline")
    return isinstance(nl, ast.Constant) and nl.value is None and len(e.keywords) == 1


def source_route_obligations(ctx):
    m = frontend.module(BM)
    out = []

    def emit(name, ok, target, why):
        ctx.obligation(name, "proved" if ok else "refuted", "ast-scan", time.time() - t0, target, detail=None if ok else why)
        if not ok:
            out.append((name, target, why))

    for cls, meth, sink, how in ROUTES:
        t0 = time.time()
        target = "%s:%s.%s" % (BM, cls, meth)
        fn = _method(m, cls, meth)
        if fn is None:
            emit("%s.%s.exists" % (cls, meth), False, target, "method not found")
            continue
        ctx.add_function(target)
        calls = _calls(fn, sink)
        rets = [n for n in ast.walk(fn) if isinstance(n, ast.Return)]
        one = len(calls) == 1 and all(r.value is calls[0] for r in rets) and len(rets) >= 1
        emit("%s.%s.delegates-to[%s]" % (cls, meth, sink), one, target, "expected exactly one call of %s whose value is returned, found %d" % (sink, len(calls)))
        if not calls:
            continue
        call = calls[0]
        emit("%s.%s.forwards[schema]" % (cls, meth), _is_name(_kw(call, "schema"), "schema") and not call.args, target,
             "schema is passed as %s" % (ast.unparse(_kw(call, "schema")) if _kw(call, "schema") is not None else "nothing"))
        emit("%s.%s.forwards[**kwargs]" % (cls, meth), _passes_kwargs(call, fn) and sorted(k.arg for k in call.keywords if k.arg) == ["schema", "stream"],
             target, "keywords passed on: %s" % [k.arg or "**" + ast.unparse(k.value) for k in call.keywords])
        sv = _kw(call, "stream")
        if how == "given":
            emit("%s.%s.stream-is-the-one-given" % (cls, meth), _is_name(sv, "src"), target, "stream=%s" % (ast.unparse(sv) if sv is not None else None))
        else:
            made = _assigned_once(fn, sv.id) if isinstance(sv, ast.Name) else None
            ok = made is not None and (_universal_open(made, fn) if how == "open" else _universal_stringio(made))
            emit("%s.%s.stream-is-a-universal-newlines-text-stream-over-src" % (cls, meth), ok, target,
                 "stream=%s, bound to %s" % (ast.unparse(sv) if sv is not None else None, ast.unparse(made) if made is not None else "?"))
        # nothing but the delegation touches kwargs or schema
        stores = [n for n in ast.walk(fn) if isinstance(n, (ast.Subscript, ast.Attribute, ast.Name)) and isinstance(getattr(n, "ctx", None), (ast.Store, ast.Del))
                  and any(isinstance(x, ast.Name) and x.id in ("kwargs", "schema") for x in ast.walk(n))]
        muts = [n for n in ast.walk(fn) if isinstance(n, ast.Call) and isinstance(n.func, ast.Attribute) and isinstance(n.func.value, ast.Name)
                and n.func.value.id == "kwargs"]
        emit("%s.%s.options-untouched" % (cls, meth), not stores and not muts, target, "kwargs/schema are modified before the delegation")
    for cls, meth, branches in DISPATCH:
        t0 = time.time()
        target = "%s:%s.%s" % (BM, cls, meth)
        fn = _method(m, cls, meth)
        if fn is None:
            emit("%s.%s.exists" % (cls, meth), False, target, "method not found")
            continue
        ctx.add_function(target)
        for kind, callee in sorted(branches.items()):
            calls = _calls(fn, callee)
            ok = len(calls) == 1 and _is_name(_kw(calls[0], "src"), "src") and _is_name(_kw(calls[0], "schema"), "schema") and _passes_kwargs(calls[0], fn) \
                and not calls[0].args and sorted(k.arg for k in calls[0].keywords if k.arg) == ["schema", "src"]
            emit("%s.%s.%s-branch-forwards[src, schema, **kwargs]" % (cls, meth, kind), ok, target,
                 "call of %s: %s" % (callee, ast.unparse(calls[0]) if calls else "none"))
    return out


def native_routes_disagree():
    """native witness search: small documents with each line-end convention and a few options through data= / file= / path="""
    import io
    import os
    import tempfile
    import dendropy
    docs = [("newick", "[&R] ((A:1,B:2):1,C:3);\n(A,(B,C));\n", [{}, {"rooting": "force-unrooted"}, {"suppress_edge_lengths": True}]),
            ("nexus", "#NEXUS\nBEGIN TAXA;\n DIMENSIONS NTAX=3;\n TAXLABELS A B C;\nEND;\nBEGIN TREES;\n TREE t = [&U] (A:1,(B:2,C:3):4);\nEND;\n",
             [{}, {"rooting": "force-rooted"}]),
            ("fasta", ">A\nACGT\n>B\nAC-T\n", [{"data_type": "dna"}])]
    for schema, text, optsets in docs:
        for eol_name, eol in (("LF", "\n"), ("CR+LF", "\r\n"), ("CR", "\r")):
            t = text.replace("\n", eol)
            for kw in optsets:
                outs = {}
                for route in ("data", "file", "path"):
                    try:
                        if route == "data":
                            ds = dendropy.DataSet.get(data=t, schema=schema, **kw)
                        elif route == "file":
                            ds = dendropy.DataSet.get(file=io.StringIO(t, newline=None), schema=schema, **kw)
                        else:
                            fd, p = tempfile.mkstemp(suffix="." + schema)
                            try:
                                with os.fdopen(fd, "w", newline="") as f:
                                    f.write(t)
                                ds = dendropy.DataSet.get(path=p, schema=schema, **kw)
                            finally:
                                os.unlink(p)
                        outs[route] = ds.as_string(schema="nexus")
                    except Exception as e:  # noqa
                        outs[route] = "raises %s" % type(e).__name__
                if len(set(outs.values())) > 1:
                    return dict(schema=schema, line_ends=eol_name, options=kw, text=t, outcomes=dict((k, v[:200]) for k, v in outs.items()))
    return None


def t1(ctx):
    ctx.assume("C13/T1: only the source-kind clause (string / stream / path reach one stream function with equal arguments and equal characters) is "
               "decided, on the AST; open() and io.StringIO(newline=None) are ASSUMED to translate line ends as documented; a caller-supplied stream "
               "is taken as it is; everything after the stream function (routes, offsets, namespaces) is bounded only")
    fails = source_route_obligations(ctx)
    from contracts import C13routes
    fails2 = C13routes.route_obligations(ctx)
    if fails2:
        w2 = C13routes.native_offsets_disagree()
        for name, target, why in fails2:
            if w2 is not None:
                ctx.fail(name, dict(key="offsets|%s|%s" % (w2["route"], sorted(w2["options"].items())), function=target, why=why, **w2),
                         detail="%s; native: %s with %r gives %r, expected %r" % (why, w2["route"], w2["options"], w2["got"], w2["want"]), kind="T1")
            else:
                ctx.fail(name, dict(key="site:%s" % name, function=target, why=why, native="Tree.get at every offset and TreeList.read agree with the whole-list route on the sample documents"),
                         detail=why, kind="T1", no_input=True)
    if fails:
        w = native_routes_disagree()
        for name, target, why in fails:
            if w is not None:
                ctx.fail(name, dict(key="routes|%s|%s|%s" % (w["schema"], w["line_ends"], sorted(w["options"].items())), function=target, why=why, **w),
                         detail="%s; native: a %s document with %s line ends and options %r gives %r" % (why, w["schema"], w["line_ends"], w["options"], w["outcomes"]), kind="T1")
            else:
                ctx.fail(name, dict(key="site:%s" % name, function=target, why=why, native="the three source kinds agree on the native sample documents"),
                         detail=why, kind="T1", no_input=True)


def replay(ctx, rec):
    if str((rec.get("witness") or {}).get("key", "")).startswith("offsets|") or str(rec.get("obligation", "")).startswith(("Tree._parse_and_", "TreeList._parse_and_")):
        from contracts import C13routes
        w2 = C13routes.native_offsets_disagree()
        print(w2 or "Tree.get at every offset and TreeList.read agree with the whole-list route on the sample documents")
        return w2 is None
    w = native_routes_disagree()
    print(w or "data=, file= and path= agree on every sample document, line-end convention and option set")
    return w is None
