"""C08 -- pruning / retaining / extracting give the induced subtree (T1 part, small).

T1 carries only the wrapper contracts (theory F): the extract_tree_with(out)_taxa(_labels)
/ prune / retain wrappers (a) build the filter the property names and (b) forward every
argument they accept to the function they delegate to (one obligation per forwarded
parameter).  The induced-subtree clauses themselves iterate generators that are mutated
while iterated and are bounded (T2)."""
import ast
import time

import z3

from dpvc import effects, frontend

TM = "dendropy.datamodel.treemodel._tree"

WRAPPERS = [
    ("Tree.extract_tree_with_taxa", "Tree.extract_tree"),
    ("Tree.extract_tree_with_taxa_labels", "Tree.extract_tree"),
    ("Tree.extract_tree_without_taxa", "Tree.extract_tree"),
    ("Tree.extract_tree_without_taxa_labels", "Tree.extract_tree"),
    ("Tree.prune_taxa_with_labels", "Tree.prune_taxa"),
    ("Tree.retain_taxa", "Tree.prune_taxa"),
    ("Tree.retain_taxa_with_labels", "Tree.retain_taxa"),
    ("Tree.prune_taxa", "Tree.prune_leaves_without_taxa"),
    ("Tree.prune_nodes", "Tree.prune_leaves_without_taxa"),
]

# filter lambdas: expected truth table over the atoms N = "taxon is None", M = "taxon (label) in the given set"
FILTERS = {
    "Tree.extract_tree_with_taxa": ("taxa", False, False),
    "Tree.extract_tree_with_taxa_labels": ("labels", True, False),
    "Tree.extract_tree_without_taxa": ("taxa", False, True),
    "Tree.extract_tree_without_taxa_labels": ("labels", True, True),
}


def filter_obligation(ctx, wname, argname, by_label, negated):
    m, ci, fn = frontend.resolve(TM + ":" + wname)
    lam = None
    for n in ast.walk(fn):
        if isinstance(n, ast.Assign) and isinstance(n.value, ast.Lambda) and any(isinstance(t, ast.Name) and t.id == "node_filter_fn" for t in n.targets):
            lam = n.value
    name = "%s.filter[keeps a node iff it has no taxon or its taxon is %sin the given %s]" % (wname, "not " if negated else "", argname)
    t0 = time.time()
    if lam is None:
        ctx.obligation(name, "unsupported", "z3", 0.0, TM + ":" + wname, detail="node_filter_fn lambda not found")
        ctx.functions_out_of_subset.append("%s: filter lambda not found" % wname)
        return
    nd = lam.args.args[0].arg
    N, M = z3.Bool("taxon_is_None"), z3.Bool("taxon_in_set")
    subj = "%s.taxon.label" % nd if by_label else "%s.taxon" % nd

    def enc(e):
        if isinstance(e, ast.BoolOp):
            parts = [enc(v) for v in e.values]
            return z3.Or(*parts) if isinstance(e.op, ast.Or) else z3.And(*parts)
        if isinstance(e, ast.UnaryOp) and isinstance(e.op, ast.Not):
            return z3.Not(enc(e.operand))
        if isinstance(e, ast.Compare) and len(e.ops) == 1:
            l, r = ast.unparse(e.left), ast.unparse(e.comparators[0])
            op = e.ops[0]
            if l == "%s.taxon" % nd and r == "None":
                if isinstance(op, ast.Is):
                    return N
                if isinstance(op, ast.IsNot):
                    return z3.Not(N)
            if l == subj and r in ("set(%s)" % argname, argname):
                if isinstance(op, ast.In):
                    return M
                if isinstance(op, ast.NotIn):
                    return z3.Not(M)
        raise ValueError("filter expression outside the subset: %s" % ast.unparse(e))

    try:
        f = enc(lam.body)
    except ValueError as e:
        ctx.obligation(name, "unsupported", "z3", 0.0, TM + ":" + wname, detail=str(e))
        ctx.functions_out_of_subset.append("%s: %s" % (wname, e))
        return
    spec = z3.Or(N, z3.Not(M) if negated else M)
    s = z3.Solver()
    s.add(f != spec)
    r = s.check()
    if r == z3.unsat:
        ctx.obligation(name, "proved", "z3", time.time() - t0, TM + ":" + wname)
    else:
        mdl = s.model()
        ctx.obligation(name, "refuted", "z3", time.time() - t0, TM + ":" + wname, detail=str(mdl))
        w = native_filter(wname, negated)
        if w:
            ctx.fail(name, dict(key="%s|%s" % (wname, w[0]), outcome=w[1]), detail="%s: %s" % (wname, w[1]), kind="T1")
        else:
            ctx.fail(name, dict(key="obligation:%s" % name, model=str(mdl)), detail="filter differs from its specification for %s" % mdl, kind="T1", no_input=True)


def _tree():
    import dendropy
    return dendropy.Tree.get(data="[&R] ((A:1,B:1):1,(C:1,D:1):1);", schema="newick")


def native_filter(wname, negated):
    t = _tree()
    keep = {"A", "C", "D"}
    fn = getattr(t, wname.split(".")[-1])
    if "labels" in wname:
        arg = (set("ABCD") - keep) if negated else keep
    else:
        arg = [x for x in t.taxon_namespace if (x.label not in keep if negated else x.label in keep)]
    try:
        r = fn(arg)
        got = sorted(l.taxon.label for l in r.leaf_node_iter())
    except Exception as e:
        return ("keep=A,C,D", "raised %r" % (e,))
    if got != sorted(keep):
        return ("keep=A,C,D", "leaves %s, expected %s" % (got, sorted(keep)))
    return None


def native_forwarding(wname, param):
    """native replay of a failed forwarding obligation (for the parameters we know how to observe)"""
    t = _tree()
    meth = wname.split(".")[-1]
    keep = {"A", "C", "D"}
    if param == "suppress_unifurcations" and meth.startswith("extract_tree_with"):
        neg = "without" in meth
        if "labels" in meth:
            arg = (set("ABCD") - keep) if neg else keep
        else:
            arg = [x for x in t.taxon_namespace if (x.label not in keep if neg else x.label in keep)]
        r = getattr(t, meth)(arg, suppress_unifurcations=False)
        n_unif = sum(1 for nd in r.preorder_node_iter() if len(nd._child_nodes) == 1)
        if n_unif == 0:
            return ("%s(keep A,C,D of ((A:1,B:1):1,(C:1,D:1):1), suppress_unifurcations=False)" % meth,
                    "result %s has no unifurcation: the flag was ignored (extract_tree with the same flag keeps the node above A)" % r.as_string("newick").strip())
    return None


def t1(ctx):
    ctx.assume("C08/T1 covers the wrapper contracts only (argument forwarding, filter predicate); induced-subtree equality is bounded (T2)")
    for w, c in WRAPPERS:
        fails = effects.forwarding_obligations(ctx, TM + ":" + w, TM + ":" + c, exempt=("taxa",) if w == "Tree.retain_taxa" else ())
        for name, p in fails:
            r = native_forwarding(w, p) if p else None
            if r:
                ctx.fail(name, dict(key="%s|%s" % (w, p), call=r[0], outcome=r[1]), detail="%s: %s" % r, kind="T1")
            else:
                ctx.fail(name, dict(key="site:%s|%s" % (w, p)), detail="wrapper %s accepts %s but does not pass it on" % (w, p), kind="T1", no_input=True)
    for w, (arg, by_label, neg) in FILTERS.items():
        filter_obligation(ctx, w, arg, by_label, neg)
    complement_obligation(ctx)


def complement_obligation(ctx):
    """retain_taxa hands prune_taxa exactly the complement of `taxa` within the namespace:
    the first argument is `[t for t in self.taxon_namespace if t not in taxa]`"""
    m, ci, fn = frontend.resolve(TM + ":Tree.retain_taxa")
    name = "Tree.retain_taxa.prunes[the complement of taxa in the namespace]"
    t0 = time.time()
    ok = False
    why = "no call of prune_taxa"
    for n in ast.walk(fn):
        if isinstance(n, ast.Call) and isinstance(n.func, ast.Attribute) and n.func.attr == "prune_taxa" and n.args:
            a = n.args[0]
            src = None
            if isinstance(a, ast.Name):
                for st in ast.walk(fn):
                    if isinstance(st, ast.Assign) and any(isinstance(t, ast.Name) and t.id == a.id for t in st.targets):
                        src = st.value
            else:
                src = a
            if isinstance(src, (ast.ListComp, ast.SetComp, ast.GeneratorExp)) and len(src.generators) == 1:
                g = src.generators[0]
                v = g.target.id if isinstance(g.target, ast.Name) else None
                elt_ok = isinstance(src.elt, ast.Name) and src.elt.id == v
                it_ok = ast.unparse(g.iter) in ("self.taxon_namespace", "self._taxon_namespace")
                cond_ok = len(g.ifs) == 1 and ast.unparse(g.ifs[0]) in ("%s not in taxa" % v, "not %s in taxa" % v, "not (%s in taxa)" % v)
                ok = elt_ok and it_ok and cond_ok
                why = "argument is %s" % ast.unparse(src)
            else:
                why = "argument of prune_taxa is not a comprehension over the namespace"
    ctx.obligation(name, "proved" if ok else "refuted", "effects", time.time() - t0, TM + ":Tree.retain_taxa", detail=None if ok else why)
    if not ok:
        import dendropy
        t = _tree()
        keep = [x for x in t.taxon_namespace if x.label in ("A", "C")]
        t.retain_taxa(keep)
        got = sorted(l.taxon.label for l in t.leaf_node_iter())
        if got != ["A", "C"]:
            ctx.fail(name, dict(key="retain_taxa|keep=A,C", outcome="leaves %s" % got), detail="retain_taxa([A,C]) left leaves %s" % got, kind="T1")
        else:
            ctx.fail(name, dict(key="obligation:%s" % name, why=why), detail=why, kind="T1", no_input=True)


def replay(ctx, rec):
    w = rec.get("witness", {})
    k = w.get("key", "")
    if "|" in k and not k.startswith("site:") and not k.startswith("obligation:"):
        wname, p = k.split("|", 1)
        r = native_forwarding(wname, p) or native_filter(wname, "without" in wname)
        print(r or "holds on the witness")
        return r is None
    print("no native input recorded")
    return True
