"""Native validation of the traversal / well-formedness facts that the loop proofs of C01 (encode_bipartitions), C11 (trees) and
C17 (calc_node_ages) ASSUME: what `postorder_edge_iter`, `postorder_node_iter` and `for nd in tree` yield on real trees, also after
the restructuring calls encode_bipartitions makes before its loop.  Bounded (small trees); never counted as proved."""

NEWICKS = ["A;", "(A,B);", "(A,B,C);", "((A,B),C);", "((A,B),(C,D));", "(A,(B,(C,D)));", "((A,B)x,C)y;", "((A,B,C),D,E);", "(((A,B),C),(D,E));",
           "((A,(B,C)),D,(E,F));", "(A,(B)u,C);", "((A,B));", "(((A)));", "((A)u,(B)v);", "(A,((B,C)));"]


def wf_failures(tree, after=None):
    """the facts WF of contracts/C01enc.py and contracts/C17.py, read off the real objects"""
    out = []
    edges = list(tree.postorder_edge_iter())
    nodes = list(tree.postorder_node_iter())
    it = list(tree)
    if [id(e) for e in edges] != [id(n.edge) for n in nodes]:
        out.append("postorder_edge_iter is not the edges of postorder_node_iter")
    if sorted(id(n) for n in it) != sorted(id(n) for n in nodes):
        out.append("`for nd in tree` and postorder_node_iter visit different node sets")
    if len(set(id(n) for n in nodes)) != len(nodes) or len(set(id(e) for e in edges)) != len(edges):
        out.append("a node or edge is visited twice")
    pos = dict((id(n), i) for i, n in enumerate(nodes))
    for i, n in enumerate(nodes):
        if n.edge is None or n.edge._head_node is not n:
            out.append("edge/head-node mismatch")
        ch = n._child_nodes
        if len(set(id(c) for c in ch)) != len(ch) or any(c is None for c in ch):
            out.append("a child list holds None or a node twice")
        for c in ch:
            if id(c) not in pos or pos[id(c)] >= i:
                out.append("a child is visited after its parent (or not at all)")
            if c._parent_node is not n:
                out.append("a child's parent pointer does not point back")
    if not nodes or nodes[-1] is not tree.seed_node:
        out.append("the traversal does not end with the seed node")
    if after == "suppress_unifurcations" and any(len(n._child_nodes) == 1 for n in nodes):
        out.append("a node of outdegree one is left after suppress_unifurcations()")
    return out


def validate(ctx, scope="assumed-wf@traversals"):
    import dendropy
    ctx.scope(scope, rule="the traversal / well-formedness facts the loop proofs assume, checked on %d small trees x {rooted, unrooted} as parsed, after "
                          "suppress_unifurcations() and after collapse_basal_bifurcation()" % len(NEWICKS), exhaustive=False)
    for nw in NEWICKS:
        for rooting in ("[&R] ", "[&U] "):
            for op in (None, "suppress_unifurcations", "collapse_basal_bifurcation", "both"):
                tree = dendropy.Tree.get(data=rooting + nw, schema="newick", suppress_internal_node_taxa=False)
                try:
                    if op in ("suppress_unifurcations", "both"):
                        tree.suppress_unifurcations()
                    if op in ("collapse_basal_bifurcation", "both"):
                        tree.collapse_basal_bifurcation(set_as_unrooted_tree=False)
                    bad = wf_failures(tree, after="suppress_unifurcations" if op == "suppress_unifurcations" else None)
                except Exception as e:  # noqa
                    bad = ["raised %s: %s" % (type(e).__name__, str(e)[:80])]
                key = "%s%s after %s" % (rooting, nw, op or "parsing")
                ctx.case(scope, key, nontrivial=nw.count(",") >= 1, sample=key)
                for b in bad[:2]:
                    ctx.fail("assumed-wf.%s" % b[:50].replace(" ", "-"), dict(key=key, tree=rooting + nw, op=op, failed=bad[:4]), detail="%s: %s" % (key, b), kind="T2")
