"""C18 -- simulated trees are reproducible (T1 part, theory F: effects).

Determinism clause: "every simulator is a deterministic function of its
arguments and the generator state".  Contract per function: the only source of
randomness is the `rng` parameter.  Obligations E1-E3 (dpvc/effects.py) for
every simulator named by the property and, transitively, every callee that
declares an `rng` parameter.  A failed obligation is replayed natively: two
calls from equal `Random(seed)` states but different global-generator states
must give equal results."""
import random

from dpvc import effects

ROOTS = [
    "dendropy.model.birthdeath:birth_death_tree",
    "dendropy.model.birthdeath:fast_birth_death_tree",
    "dendropy.model.birthdeath:discrete_birth_death_tree",
    "dendropy.model.birthdeath:uniform_pure_birth_tree",
    "dendropy.model.coalescent:pure_kingman_tree",
    "dendropy.model.coalescent:pure_kingman_tree_shape",
    "dendropy.model.coalescent:mean_kingman_tree",
    "dendropy.model.coalescent:constrained_kingman_tree",
    "dendropy.model.coalescent:contained_coalescent_tree",
    "dendropy.model.coalescent:coalesce_nodes",
    "dendropy.model.coalescent:time_to_coalescence",
    "dendropy.model.coalescent:discrete_time_to_coalescence",
    "dendropy.model.reconcile:ContainingTree.embed_contained_kingman",
    "dendropy.model.reconcile:ContainingTree.simulate_contained_kingman",
]


def _drivers():
    """native determinism drivers: name of function -> callable(rng) -> comparable value"""
    import dendropy
    from dendropy.model import birthdeath, coalescent
    from dendropy.calculate import probability

    def dump(t):
        return t.as_string("newick") if hasattr(t, "as_string") else repr(t)

    def ns(n):
        return dendropy.TaxonNamespace(["t%d" % i for i in range(n)])

    def sp():
        t = dendropy.Tree.get(data="[&R] ((A:1,B:1):1,C:2):0;", schema="newick")
        return t

    d = {
        "birth_death_tree": lambda r: dump(birthdeath.birth_death_tree(1.0, 0.3, num_extant_tips=6, rng=r)),
        "fast_birth_death_tree": lambda r: dump(birthdeath.fast_birth_death_tree(1.0, 0.3, num_extant_tips=6, rng=r)),
        "discrete_birth_death_tree": lambda r: dump(birthdeath.discrete_birth_death_tree(0.3, 0.05, num_extant_tips=5, rng=r)),
        "uniform_pure_birth_tree": lambda r: dump(birthdeath.uniform_pure_birth_tree(ns(6), rng=r)),
        "pure_kingman_tree": lambda r: dump(coalescent.pure_kingman_tree(ns(6), rng=r)),
        "pure_kingman_tree_shape": lambda r: dump(coalescent.pure_kingman_tree_shape(6, rng=r)),
        "mean_kingman_tree": lambda r: dump(coalescent.mean_kingman_tree(ns(6), rng=r)),
        "time_to_coalescence": lambda r: coalescent.time_to_coalescence(5, pop_size=10, rng=r),
        "discrete_time_to_coalescence": lambda r: coalescent.discrete_time_to_coalescence(10, pop_size=10, rng=r),
        "geometric_rv": lambda r: probability.geometric_rv(0.2, rng=r),
        "binomial_rv": lambda r: probability.binomial_rv(10, 0.3, rng=r),
        "poisson_rv": lambda r: probability.poisson_rv(2.0, rng=r),
        "weighted_choice": lambda r: probability.weighted_choice([1, 2, 3], [0.2, 0.3, 0.5], rng=r),
        "weighted_index_choice": lambda r: probability.weighted_index_choice([0.2, 0.3, 0.5], rng=r),
        "sample_multinomial": lambda r: probability.sample_multinomial([0.2, 0.3, 0.5], rng=r),
        "num_poisson_events": lambda r: probability.num_poisson_events(2.0, 3.0, rng=r),
    }

    def constrained(r):
        t = sp()
        g = dendropy.TaxonNamespace()
        out = coalescent.constrained_kingman_tree(t, gene_tree_list=None, rng=r, gene_node_label_fn=None, num_genes_attr="num_genes", pop_size_attr="pop_size") if False else None
        return out

    def contained(r):
        t = sp()
        gm = dendropy.TaxonNamespaceMapping.create_contained_taxon_mapping(t.taxon_namespace, 2)
        return dump(coalescent.contained_coalescent_tree(t, gene_to_containing_taxon_map=gm, rng=r))

    d["contained_coalescent_tree"] = contained
    d["coalesce_nodes"] = lambda r: repr([round(n.edge.length or 0, 9) for n in coalescent.coalesce_nodes(
        [dendropy.Node(label=str(i)) for i in range(5)], pop_size=3, period=None, rng=r)])
    return d


def native_determinism(fname, seeds=(1, 2, 3, 4, 5)):
    """returns None if deterministic w.r.t. rng on all seeds, else a description"""
    d = _drivers().get(fname)
    if d is None:
        return "no-driver"
    for s in seeds:
        random.seed(1000 + s)
        st0 = random.getstate()
        a = d(random.Random(s))
        st1 = random.getstate()
        random.seed(2000 + s)
        b = d(random.Random(s))
        if a != b:
            return "seed %d: two runs from Random(%d) differ when the global generator is seeded differently" % (s, s)
        if st0 != st1:
            return "seed %d: the call advanced the global random generator" % s
    return None


def t1(ctx):
    ctx.assume("C18/T1 effects: callees are resolved by name over the indexed dendropy modules (no dynamic dispatch); "
               "rng.* method calls are the only primitive draws; distributions and tree shape clauses are bounded (T2)")
    effects.check_rng_closure(ctx, ROOTS)
    for f in getattr(ctx, "pending_effect_failures", []):
        fname = f["target"].split(":")[1].split(".")[-1]
        r = native_determinism(fname)
        if r is None or r == "no-driver":
            ctx.fail(f["name"], dict(key="site:%s" % f["site"] if f["site"] else "obligation:%s" % f["name"], why=f["why"], function=f["target"],
                                      native="no failing seed among 5" if r is None else "no native driver for this function"),
                     detail=f["why"], kind="T1", no_input=True)
        else:
            ctx.fail(f["name"], dict(key="site:%s" % f["site"] if f["site"] else "obligation:%s" % f["name"], why=f["why"], function=f["target"], driver=fname, native=r),
                     detail="%s; native replay: %s" % (f["why"], r), kind="T1")


def replay(ctx, rec):
    w = rec.get("witness", {})
    fname = w.get("driver")
    if not fname:
        print("no native driver recorded")
        return True
    r = native_determinism(fname)
    print("determinism of %s w.r.t. rng: %s" % (fname, r or "holds on 5 seeds"))
    return r is None
