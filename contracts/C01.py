"""C01 -- bipartition encoding exact, canonical, sufficient (T1 part).

Postconditions are the property's set-theoretic definitions; requires/frames
are read off the code and its call sites."""
from dpvc.symexec import Contract, Loop
from dpvc.verify import Suite, verify_contract, crosscheck
from dpvc import replay as dreplay

BIP = "dendropy.datamodel.treemodel._bipartition"
BITP = "dendropy.utility.bitprocessing"

SCHEMA = {
    "Bipartition._split_bitmask": "opt bits",
    "Bipartition._leafset_bitmask": "opt bits",
    "Bipartition._tree_leafset_bitmask": "opt bits",
    "Bipartition._lowest_relevant_bit": "opt bits",
    "Bipartition._is_rooted": "opt bool",
    "Bipartition.is_mutable": "opt bool",
}

CONTRACTS = [
    Contract(
        BITP + ":least_significant_set_bit",
        name="bitprocessing.least_significant_set_bit",
        types={"n": "bits", "return": "bits"},
        requires="True",
        # the singleton of the lowest set bit; 0 for 0
        ensures={"lowest-bit": "ite(empty(n), empty(result), result == lowbit(n))"},
    ),
    Contract(
        BIP + ":Bipartition.normalize_bitmask",
        types={"bitmask": "bits", "fill_bitmask": "bits", "lowest_relevant_bit": "bits", "return": "bits"},
        # call sites pass the lowest set bit of fill (or the default 1 with a fill whose bit 0 is set)
        requires="not empty(fill_bitmask) and lowest_relevant_bit == lowbit(fill_bitmask)",
        ensures={
            "within-fill": "subset(result, fill_bitmask)",
            "lowest-bit-clear": "disjoint(result, lowest_relevant_bit)",
            "same-or-complement": "ite(disjoint(bitmask, lowest_relevant_bit), result == inter(bitmask, fill_bitmask), result == diff(fill_bitmask, bitmask))",
        },
    ),
    Contract(
        BIP + ":Bipartition.is_trivial_bitmask",
        types={"bitmask": "bits", "fill_bitmask": "bits", "return": "bool"},
        requires="True",
        # the property's definition: at most one taxon on one of the two sides (within fill)
        ensures={
            "definition": "implies(subset(bitmask, fill_bitmask), result == (card_le1(inter(bitmask, fill_bitmask)) or card_le1(diff(fill_bitmask, bitmask))))",
            "unmasked-argument": "implies(card_le1(inter(bitmask, fill_bitmask)) or card_le1(diff(fill_bitmask, bitmask)), result)",
        },
    ),
    Contract(
        BIP + ":Bipartition.is_compatible_bitmasks",
        types={"m1": "bits", "m2": "bits", "fill_bitmask": "bits", "return": "bool"},
        requires="not empty(fill_bitmask)",
        ensures={
            # set-theoretic definition on the taxon sets (restricted to fill): disjoint or nested
            # or jointly exhaustive
            "definition": "result == (disjoint(inter(m1, fill_bitmask), inter(m2, fill_bitmask)) "
                          "or subset(inter(m1, fill_bitmask), m2) or subset(inter(m2, fill_bitmask), m1))",
            # for unrooted splits normalised on the same fill (lowest bit of fill in neither) the
            # fourth textbook case -- the two complements are disjoint -- cannot occur, so the
            # three-way test is the full set-theoretic definition of split compatibility
            "unrooted-four-way": "implies(disjoint(m1, lowbit(fill_bitmask)) and disjoint(m2, lowbit(fill_bitmask)) "
                                 "and subset(m1, fill_bitmask) and subset(m2, fill_bitmask), "
                                 "result == (disjoint(m1, m2) or subset(m1, m2) or subset(m2, m1) or subset(fill_bitmask, union(m1, m2))))",
        },
    ),
    # ---- instance methods: the data-structure invariant INV(self) ties the cached lowest bit to the
    # tree leaf set:  truthy(_tree_leafset_bitmask) => _lowest_relevant_bit == lowbit(_tree_leafset_bitmask)
    Contract(
        BIP + ":Bipartition.compile_tree_leafset_bitmask",
        types={"tree_leafset_bitmask": "opt bits", "lowest_relevant_bit": "opt bits", "return": "opt bits"},
        requires="truthy(self.is_mutable)",
        modifies=["self._tree_leafset_bitmask", "self._lowest_relevant_bit"],
        ensures={
            "stores-argument": "eq(self._tree_leafset_bitmask, tree_leafset_bitmask) and eq(result, tree_leafset_bitmask)",
            "lowest-bit-derived": "implies(isnone(lowest_relevant_bit), ite(truthy(tree_leafset_bitmask), "
                                  "eq(self._lowest_relevant_bit, lowbit(tree_leafset_bitmask)), isnone(self._lowest_relevant_bit)))",
            "lowest-bit-given": "implies(not isnone(lowest_relevant_bit), eq(self._lowest_relevant_bit, lowest_relevant_bit))",
        },
    ),
    Contract(
        BIP + ":Bipartition.compile_leafset_bitmask",
        types={"leafset_bitmask": "opt bits", "tree_leafset_bitmask": "opt bits", "return": "opt bits"},
        # call sites: compile_split_bitmask passes a truthy leafset_bitmask and no tree mask
        requires="truthy(self.is_mutable) and (not isnone(leafset_bitmask) or not isnone(self._leafset_bitmask))",
        modifies=["self._leafset_bitmask", "self._tree_leafset_bitmask", "self._lowest_relevant_bit"],
        ensures={
            "masked": "eq(self._leafset_bitmask, ite(truthy(self._tree_leafset_bitmask), "
                      "inter(ite(isnone(leafset_bitmask), old(self._leafset_bitmask), leafset_bitmask), self._tree_leafset_bitmask), "
                      "ite(isnone(leafset_bitmask), old(self._leafset_bitmask), leafset_bitmask)))",
            "tree-mask": "implies(isnone(tree_leafset_bitmask), eq(self._tree_leafset_bitmask, old(self._tree_leafset_bitmask)) "
                         "and eq(self._lowest_relevant_bit, old(self._lowest_relevant_bit)))",
            "returns": "eq(result, self._leafset_bitmask)",
        },
    ),
    Contract(
        BIP + ":Bipartition.compile_split_bitmask",
        types={"leafset_bitmask": "opt bits", "tree_leafset_bitmask": "opt bits", "is_rooted": "opt bool",
               "is_mutable": "opt bool", "return": "opt bits"},
        # INV(self) on entry; a tree mask that stays in force must not be the empty set (Bipartition(tree_leafset_bitmask=0)
        # on an unrooted bipartition has no lowest bit to normalise on)
        requires="truthy(self.is_mutable) "
                 "and implies(truthy(self._tree_leafset_bitmask), eq(self._lowest_relevant_bit, lowbit(self._tree_leafset_bitmask))) "
                 "and implies(not truthy(tree_leafset_bitmask), isnone(self._tree_leafset_bitmask) or truthy(self._tree_leafset_bitmask))",
        modifies=["self._split_bitmask", "self._leafset_bitmask", "self._tree_leafset_bitmask", "self._lowest_relevant_bit",
                  "self._is_rooted", "self.is_mutable"],
        ensures={
            # the property: rooted -> split == leafset; unrooted -> leafset normalised so that the lowest
            # taxon bit present on the tree is 0
            "rooted-split-is-leafset": "implies(not isnone(self._leafset_bitmask) and not isnone(self._tree_leafset_bitmask) and truthy(self._is_rooted), "
                                       "eq(self._split_bitmask, self._leafset_bitmask))",
            "unrooted-split-is-normalised": "implies(not isnone(self._leafset_bitmask) and not isnone(self._tree_leafset_bitmask) and not truthy(self._is_rooted), "
                                            "eq(self._split_bitmask, ite(disjoint(self._leafset_bitmask, lowbit(self._tree_leafset_bitmask)), "
                                            "inter(self._leafset_bitmask, self._tree_leafset_bitmask), diff(self._tree_leafset_bitmask, self._leafset_bitmask))))",
            "unrooted-lowest-bit-clear": "implies(not isnone(self._leafset_bitmask) and not isnone(self._tree_leafset_bitmask) and not truthy(self._is_rooted), "
                                         "disjoint(self._split_bitmask, lowbit(self._tree_leafset_bitmask)) and subset(self._split_bitmask, self._tree_leafset_bitmask))",
            "tree-mask-taken": "implies(truthy(tree_leafset_bitmask), eq(self._tree_leafset_bitmask, tree_leafset_bitmask))",
            "leafset-taken": "implies(truthy(leafset_bitmask), eq(self._leafset_bitmask, ite(truthy(self._tree_leafset_bitmask), inter(leafset_bitmask, self._tree_leafset_bitmask), leafset_bitmask)))",
            "leafset-kept": "implies(not truthy(leafset_bitmask), eq(self._leafset_bitmask, old(self._leafset_bitmask)))",
            "invariant-kept": "implies(truthy(self._tree_leafset_bitmask), eq(self._lowest_relevant_bit, lowbit(self._tree_leafset_bitmask)))",
            "rooting-taken": "implies(not isnone(is_rooted), eq(self._is_rooted, is_rooted))",
        },
    ),
    Contract(
        BIP + ":Bipartition.is_compatible_with",
        types={"other": "ref:Bipartition", "return": "bool"},
        requires="not isnone(self._split_bitmask) and not isnone(other._split_bitmask) and truthy(self._tree_leafset_bitmask)",
        ensures={
            "definition": "result == (disjoint(inter(self._split_bitmask, self._tree_leafset_bitmask), inter(other._split_bitmask, self._tree_leafset_bitmask)) "
                          "or subset(inter(self._split_bitmask, self._tree_leafset_bitmask), other._split_bitmask) "
                          "or subset(inter(other._split_bitmask, self._tree_leafset_bitmask), self._split_bitmask))",
        },
    ),
    Contract(
        BIP + ":Bipartition.is_nested_within",
        types={"other": "ref:Bipartition", "is_other_masked_for_tree_leafset": "bool", "return": "bool"},
        requires="not isnone(self._split_bitmask) and not isnone(other._split_bitmask) and not isnone(self._leafset_bitmask) "
                 "and not isnone(other._leafset_bitmask) and not isnone(self._tree_leafset_bitmask)",
        ensures={
            "definition": "implies(not is_other_masked_for_tree_leafset, result == ite(truthy(self._is_rooted), "
                          "subset(self._leafset_bitmask, inter(other._leafset_bitmask, self._tree_leafset_bitmask)), "
                          "subset(self._split_bitmask, inter(other._split_bitmask, self._tree_leafset_bitmask))))",
            "premasked": "implies(is_other_masked_for_tree_leafset, result == ite(truthy(self._is_rooted), "
                         "subset(self._leafset_bitmask, other._leafset_bitmask), subset(self._split_bitmask, other._split_bitmask)))",
        },
    ),
    Contract(
        BIP + ":Bipartition.is_leafset_nested_within",
        types={"other": "ref:Bipartition", "return": "bool"},
        requires="not isnone(self._leafset_bitmask) and not isnone(other._leafset_bitmask) and not isnone(self._tree_leafset_bitmask)",
        ensures={"definition": "result == subset(self._leafset_bitmask, inter(other._leafset_bitmask, self._tree_leafset_bitmask))"},
    ),
    Contract(
        BIP + ":Bipartition.is_trivial",
        types={"return": "bool"},
        requires="not isnone(self._split_bitmask) and not isnone(self._tree_leafset_bitmask) and subset(self._split_bitmask, self._tree_leafset_bitmask)",
        ensures={"definition": "result == (card_le1(self._split_bitmask) or card_le1(diff(self._tree_leafset_bitmask, self._split_bitmask)))"},
    ),
]

SUITE = Suite(SCHEMA, [BIP], CONTRACTS)


def t1(ctx):
    ctx.assume("bit masks are Python ints modelled exactly as sets of naturals (Array Int Bool restricted to NAT); "
               "x-1 by the Skolemised lowest-set-bit definition")
    for c in CONTRACTS:
        verify_contract(ctx, SUITE, c, replay=dreplay.replay_any)
        crosscheck(ctx, SUITE, c, n=40 if ctx.tier == "quick" else 400, seed=ctx.seed)
    # the traversal loop of Tree.encode_bipartitions (separate suite: heap theory B + allocation)
    from contracts import C01enc
    C01enc.t1(ctx)


def replay(ctx, rec):
    """T1 witnesses of C01: an encode_bipartitions tree (native re-run) or a scalar input of a bitmask function"""
    w = rec.get("witness", {})
    if "tree" in w and str(w.get("key", "")).startswith("encode_bipartitions|"):
        import dendropy
        from contracts import C01enc
        desc = w["tree"]
        removed = "(namespace without its first taxon)" in desc
        nw = desc.replace(" (namespace without its first taxon)", "")
        ns = dendropy.TaxonNamespace(["Z", "A", "B", "C", "D", "E", "F", "x", "y", "u"])
        if removed:
            ns.remove_taxon(ns[0])
        tree = dendropy.Tree.get(data=nw, schema="newick", taxon_namespace=ns, suppress_internal_node_taxa=False)
        try:
            tree.encode_bipartitions(suppress_unifurcations=False, collapse_unrooted_basal_bifurcation=False)
            bad = C01enc._local_equation_failures(tree, ns)
        except Exception as e:  # noqa
            bad = ["raised %s" % type(e).__name__]
        print("encode_bipartitions on %s: %s" % (desc, bad or "local equations hold"))
        return not bad
    # scalar witnesses: call the real function on the recorded arguments
    args = w.get("inputs") or w.get("kwargs")
    fn = w.get("function")
    if not args or not fn:
        print("no input recorded for this obligation")
        return True
    f = dreplay.real_function(fn)
    print("%s(%s) -> %r" % (fn, args, f(**args)))
    return True
