"""C15 -- traversals (T1 part, small): the filter-composition lambdas of the
internal-node / internal-edge / leaf iterators are pure truthiness expressions;
each is proved equivalent (z3, propositional atoms read off the AST) to the
property's definition

    internal variants : non-leaf AND (seed allowed OR has a parent) AND user filter
    leaf variant      : leaf AND user filter

under assumption 1 of DESIGN.md section 3 (a Node/Edge is always truthy: the
classes define no __bool__/__len__ -- re-checked from the AST on every run).
The defining ORDER of the explicit-stack generators needs induction over
recursive sequence functions and is decided at T2 (exhaustive small scope)."""
import ast
import time

import z3

from dpvc import frontend

NODE = "dendropy.datamodel.treemodel._node"
TREE = "dendropy.datamodel.treemodel._tree"
EDGE = "dendropy.datamodel.treemodel._edge"


def truth(e, env):
    """truthiness of an expression as a z3 Bool over propositional atoms"""
    if isinstance(e, ast.BoolOp):
        parts = [truth(v, env) for v in e.values]
        return z3.And(*parts) if isinstance(e.op, ast.And) else z3.Or(*parts)
    if isinstance(e, ast.UnaryOp) and isinstance(e.op, ast.Not):
        return z3.Not(truth(e.operand, env))
    if isinstance(e, ast.Constant):
        return z3.BoolVal(bool(e.value))
    src = ast.unparse(e)
    if src in env:
        return env[src]
    if isinstance(e, ast.Call) and isinstance(e.func, ast.Name) and e.func.id in env.get("$lambdas", {}):
        lam = env["$lambdas"][e.func.id]
        return truth(lam.body, env)
    if isinstance(e, ast.Call) and isinstance(e.func, ast.Name) and e.func.id == "bool" and len(e.args) == 1:
        return truth(e.args[0], env)
    # an expression we have no definition for: an uninterpreted atom (any disagreement it causes is
    # then decided by native replay)
    return z3.Bool("atom[%s]" % src)


def class_is_always_truthy(modname, cls):
    m = frontend.module(modname)
    ci = m.classes[cls]
    return "__bool__" not in ci.methods and "__len__" not in ci.methods


def is_leaf_definition_ok():
    """Node.is_leaf() returns bool(not self._child_nodes)"""
    m, ci, fn = frontend.resolve(NODE + ":Node.is_leaf")
    body, _ = frontend.strip_docstring(fn)
    return len(body) == 1 and isinstance(body[0], ast.Return) and ast.unparse(body[0].value) in ("bool(not self._child_nodes)", "not self._child_nodes")


def lambdas_of(fn):
    """(branch description, lambda name, Lambda) for the assignments `name = lambda ...` in fn, with the
    enclosing if-conditions"""
    out = []

    def walk(stmts, conds):
        for st in stmts:
            if isinstance(st, ast.If):
                c = ast.unparse(st.test)
                walk(st.body, conds + [(c, True)])
                walk(st.orelse, conds + [(c, False)])
            elif isinstance(st, ast.Assign) and isinstance(st.value, ast.Lambda) and isinstance(st.targets[0], ast.Name):
                out.append((tuple(conds), st.targets[0].id, st.value))
            elif isinstance(st, (ast.For, ast.While, ast.Try, ast.With)):
                walk(getattr(st, "body", []), conds)

    body, _ = frontend.strip_docstring(fn)
    walk(body, [])
    return out


def check_internal(ctx, target, child_expr, parent_expr, excl_name="exclude_seed_node"):
    """froot / f lambdas of an internal-node (or internal-edge) iterator"""
    m, ci, fn = frontend.resolve(target)
    name0 = target.split(":")[1]
    ctx.add_function(target)
    lams = lambdas_of(fn)
    P, C, F = z3.Bool("has_parent"), z3.Bool("has_children"), z3.Bool("user_filter_true")
    n_ob = 0
    for excl in (True, False):
        for has_filter in (True, False):
            froot = [l for conds, nm, l in lams if nm == "froot" and dict(conds).get(excl_name) == excl]
            fl = [l for conds, nm, l in lams if nm == "f" and dict(conds).get("filter_fn") == has_filter]
            name = "%s.filter[exclude seed=%s, filter_fn %s] == non-leaf and (seed allowed or has parent) and user filter" % (
                name0, excl, "given" if has_filter else "None")
            t0 = time.time()
            if len(froot) != 1 or len(fl) != 1:
                ctx.obligation(name, "unsupported", "z3", 0.0, target, detail="lambda shape not recognised")
                ctx.functions_out_of_subset.append("%s: filter lambdas not recognised" % name0)
                continue
            x = fl[0].args.args[0].arg
            fx = froot[0].args.args[0].arg
            env = {
                "%s" % x: z3.BoolVal(True),  # assumption 1: nodes/edges are truthy
                child_expr.replace("x", x, 1): C,
                "filter_fn(%s)" % x: F,
                parent_expr.replace("x", fx, 1) + " is not None": P,
                "$lambdas": {"froot": froot[0]},
            }
            try:
                got = truth(fl[0].body, env)
            except ValueError as e:
                ctx.obligation(name, "unsupported", "z3", 0.0, target, detail=str(e))
                ctx.functions_out_of_subset.append("%s: %s" % (name0, e))
                continue
            spec = z3.And(C, z3.Or(z3.Not(z3.BoolVal(excl)), P), F if has_filter else z3.BoolVal(True))
            s = z3.Solver()
            s.add(got != spec)
            r = s.check()
            n_ob += 1
            if r == z3.unsat:
                ctx.obligation(name, "proved", "z3", time.time() - t0, target)
            else:
                mdl = {str(d): z3.is_true(s.model()[d]) for d in s.model().decls()}
                ctx.obligation(name, "refuted", "z3", time.time() - t0, target, detail=str(mdl))
                replay_internal(ctx, name, name0, excl, has_filter, mdl, excl_name)
    return n_ob


def _tree():
    import dendropy
    return dendropy.Tree.get(data="[&R] ((A,B)i1,(C,(D,E)i3)i2)root;", schema="newick")


def replay_internal(ctx, name, fname, excl, has_filter, mdl, excl_name="exclude_seed_node"):
    from specs import trees as S
    t = _tree()
    meth = fname.split(".")[-1]
    owner = t if fname.startswith("Tree.") else t.seed_node
    flt = (lambda n: (n.label or getattr(getattr(n, "_head_node", None), "label", "") or "") != "i2") if has_filter else None
    try:
        got = list(getattr(owner, meth)(filter_fn=flt, **{excl_name: excl}))
    except Exception as e:
        ctx.fail(name, dict(key="%s|excl=%s,filter=%s" % (fname, excl, has_filter), outcome="raised %r" % (e,)), detail="%s raised %r" % (fname, e), kind="T1")
        return
    is_edge = "edge" in meth
    nodes = S.pre(t.seed_node) if "preorder" in meth else S.post(t.seed_node)
    exp = [n for n in nodes if n._child_nodes and (not excl or n._parent_node is not None)]
    if is_edge:
        exp = [n._edge for n in exp]
    if has_filter:
        exp = [n for n in exp if flt(n)]
    if [id(a) for a in got] != [id(b) for b in exp]:
        lab = lambda n: getattr(n, "label", None) or getattr(getattr(n, "_head_node", None), "label", None)
        ctx.fail(name, dict(key="%s|excl=%s,filter=%s|((A,B)i1,(C,(D,E)i3)i2)root" % (fname, excl, has_filter),
                            got=[lab(a) for a in got], expected=[lab(b) for b in exp]),
                 detail="%s(exclude_seed_node=%s%s) yields %s, expected %s" % (fname, excl, ", filter" if has_filter else "", [lab(a) for a in got], [lab(b) for b in exp]), kind="T1")
    else:
        ctx.fail(name, dict(key="obligation:%s" % name, model=mdl), detail="filter differs from its definition for %s; no failing traversal found" % mdl, kind="T1", no_input=True)


def check_leaf(ctx):
    target = NODE + ":Node.leaf_iter"
    m, ci, fn = frontend.resolve(target)
    ctx.add_function(target)
    lams = lambdas_of(fn)
    C, F = z3.Bool("has_children"), z3.Bool("user_filter_true")
    for has_filter in (True, False):
        fl = [l for conds, nm, l in lams if nm == "ff" and dict(conds).get("filter_fn") == has_filter]
        name = "Node.leaf_iter.filter[filter_fn %s] == leaf and user filter" % ("given" if has_filter else "None")
        t0 = time.time()
        if len(fl) != 1:
            ctx.obligation(name, "unsupported", "z3", 0.0, target, detail="lambda shape not recognised")
            continue
        x = fl[0].args.args[0].arg
        env = {x: z3.BoolVal(True), "%s.is_leaf()" % x: z3.Not(C), "filter_fn(%s)" % x: F}
        try:
            got = truth(fl[0].body, env)
        except ValueError as e:
            ctx.obligation(name, "unsupported", "z3", 0.0, target, detail=str(e))
            continue
        spec = z3.And(z3.Not(C), F if has_filter else z3.BoolVal(True))
        s = z3.Solver()
        s.add(got != spec)
        if s.check() == z3.unsat:
            ctx.obligation(name, "proved", "z3", time.time() - t0, target)
        else:
            ctx.obligation(name, "refuted", "z3", time.time() - t0, target, detail=str(s.model()))
            t = _tree()
            from specs import trees as S
            flt = (lambda n: n.taxon.label != "C") if has_filter else None
            got_l = [n.taxon.label if n.taxon else n.label for n in t.seed_node.leaf_iter(flt)]
            exp_l = [n.taxon.label for n in S.leaves(t.seed_node) if (flt is None or flt(n))]
            if got_l != exp_l:
                ctx.fail(name, dict(key="leaf_iter|filter=%s" % has_filter, got=got_l, expected=exp_l), detail="leaf_iter yields %s, expected %s" % (got_l, exp_l), kind="T1")
            else:
                ctx.fail(name, dict(key="obligation:%s" % name), detail="leaf filter differs from its definition", kind="T1", no_input=True)


def t1(ctx):
    ctx.assume("C15/T1: only the filter-composition lambdas are proved; visit ORDER of the stack generators is bounded (T2, exhaustive)")
    t0 = time.time()
    for modname, cls in ((NODE, "Node"), (EDGE, "Edge")):
        ok = class_is_always_truthy(modname, cls)
        ctx.obligation("%s.always-truthy[no __bool__/__len__]" % cls, "proved" if ok else "refuted", "ast-scan", time.time() - t0, modname)
        if not ok:
            ctx.fail("%s.always-truthy[no __bool__/__len__]" % cls, dict(key="class:%s" % cls),
                     detail="%s defines __bool__/__len__: `if node:` tests and the `x and ...` filter idioms change meaning" % cls, kind="T1", no_input=True)
    ok = is_leaf_definition_ok()
    ctx.obligation("Node.is_leaf == not _child_nodes", "proved" if ok else "refuted", "ast-scan", time.time() - t0, NODE + ":Node.is_leaf")
    if not ok:
        t = _tree()
        bad = [n.label for n in t.preorder_node_iter() if n.is_leaf() != (len(n._child_nodes) == 0)]
        ctx.fail("Node.is_leaf == not _child_nodes", dict(key="is_leaf|tree", nodes=bad), detail="is_leaf() disagrees with 'no children' on %s" % bad, kind="T1", no_input=not bad)
    check_internal(ctx, NODE + ":Node.preorder_internal_node_iter", "x._child_nodes", "x._parent_node")
    check_internal(ctx, NODE + ":Node.postorder_internal_node_iter", "x._child_nodes", "x._parent_node")
    check_internal(ctx, TREE + ":Tree.preorder_internal_edge_iter", "x._head_node._child_nodes", "x._head_node._parent_node", "exclude_seed_edge")
    check_internal(ctx, TREE + ":Tree.postorder_internal_edge_iter", "x._head_node._child_nodes", "x._head_node._parent_node", "exclude_seed_edge")
    check_leaf(ctx)


def replay(ctx, rec):
    print(rec.get("witness"))
    return True
