"""C17 -- "the given precision": whoever accepts an ultrametricity precision hands it to the age calculation (T1, AST).

The property speaks of trees whose paths agree "within the given precision".  The precision is decided in ONE place
(Tree.calc_node_ages, under contract in C17.py); every other function of the library that accepts a precision from its caller
only has to carry it there.  The obligations below are decided on the AST of every module under src/dendropy, no solver:

  precision-reaches[f -> g@Ln]   in a function f where a caller-given precision is in scope -- f has a parameter named
                                 `ultrametricity_precision`, or f is a method of a class whose __init__ has one (it is then
                                 kept as self.ultrametricity_precision: obligation `precision-kept[Class]`), or f reads it
                                 from **kwargs -- every call of a precision-taking function g passes an argument for g's
                                 precision parameter whose expression mentions that precision.

`g` ranges over the functions (and classes, through __init__) of the scanned modules that have a parameter named
`ultrametricity_precision`, plus treemeasure.pybus_harvey_gamma / Tree.pybus_harvey_gamma whose parameter is called `prec`;
calls are matched by the callee's name.  A call g(...) made where NO caller-given precision is in scope is not constrained
(the library default applies, which is what the caller asked for)."""
import ast
import os
import time

from dpvc import frontend
from dpvc.ctx import SRC

P = "ultrametricity_precision"
ALIASES = {"pybus_harvey_gamma": "prec"}


def scan():
    """-> (sinks, kept, records); a record = (module, qualified function, callee name, line, ok, why) -- the generic scan of dpvc/forwarding.py"""
    from dpvc import forwarding
    return forwarding.scan(P, ALIASES, exact=False)


def native_precision_ignored(modname, qual):
    """call the module-level function on a tree whose tips differ by 1e-3, once with precision 0.01 and once with 1e-9"""
    import importlib
    import inspect
    import dendropy
    from dendropy.utility.error import UltrametricityError
    if "." in qual:
        return None
    try:
        f = getattr(importlib.import_module(modname), qual)
        sig = inspect.signature(f)
    except Exception:  # noqa
        return None
    nw = "[&R] ((A:1.0,B:1.001):1,(C:1.5,D:1.5):0.5);"
    outs = {}
    for prec in (0.01, 1e-9):
        tree = dendropy.Tree.get(data=nw, schema="newick")
        kw = {}
        for name, p in sig.parameters.items():
            if name == "tree":
                kw[name] = tree
            elif name in (P, "prec"):
                kw[name] = prec
            elif p.default is inspect.Parameter.empty and p.kind in (p.POSITIONAL_OR_KEYWORD, p.KEYWORD_ONLY):
                kw[name] = 10
        if "tree" not in kw:
            return None
        try:
            f(**kw)
            outs[prec] = "accepted"
        except UltrametricityError:
            outs[prec] = "rejected"
        except Exception as e:  # noqa
            outs[prec] = "raised %s" % type(e).__name__
    if outs.get(0.01) == "rejected" or outs.get(1e-9) == "accepted":
        return dict(tree=nw, call="%s.%s" % (modname, qual), outcomes=dict((repr(k), v) for k, v in outs.items()),
                    expected="tips differ by 0.001: accepted with precision 0.01, rejected with precision 1e-9")
    return None


def t1(ctx):
    ctx.assume("C17/T1 precision forwarding: decided on the AST by callee NAME (a call of an unrelated function that happens to share the name of a "
               "precision-taking one is constrained too); an argument 'mentions' the precision when its expression reads ultrametricity_precision / "
               "self.ultrametricity_precision / the 'ultrametricity_precision' key -- arithmetic on it is not interpreted")
    t0 = time.time()
    sinks, kept, recs = scan()
    ctx.obligation("precision-sinks.found", "proved" if "calc_node_ages" in sinks and len(sinks) >= 5 else "refuted", "ast-scan", time.time() - t0,
                   "dendropy.datamodel.treemodel._tree:Tree.calc_node_ages", detail="%d precision-taking callables: %s" % (len(sinks), sorted(sinks)))
    if "calc_node_ages" not in sinks:
        ctx.fail("precision-sinks.found", dict(key="site:precision-sinks"), detail="Tree.calc_node_ages no longer takes ultrametricity_precision", kind="T1", no_input=True)
        return
    for (mn, cn), stored in sorted(kept.items()):
        name = "precision-kept[%s.%s]" % (mn.split(".")[-1], cn)
        if stored == "handed-on":  # not stored on self: then __init__ itself must hand it to a precision-taking callable
            stored = any(r[0] == mn and r[1] == cn + ".__init__" and r[4] for r in recs)
        ctx.obligation(name, "proved" if stored else "refuted", "ast-scan", 0.0, "%s:%s.__init__" % (mn, cn),
                       detail=None if stored else "__init__ accepts ultrametricity_precision but neither keeps it as self.ultrametricity_precision nor hands it on")
        ctx.add_function("%s:%s.__init__" % (mn, cn))
        if not stored:
            ctx.fail(name, dict(key="site:%s" % name), detail="%s.%s.__init__ drops the precision it is given" % (mn, cn), kind="T1", no_input=True)
    for mn, qual, cn, line, ok, why in recs:
        name = "precision-reaches[%s.%s -> %s@L%d]" % (mn.split(".")[-1], qual, cn, line)
        tgt = "%s:%s" % (mn, qual)
        ctx.add_function(tgt)
        ctx.obligation(name, "proved" if ok else "refuted", "ast-scan", 0.0, tgt, detail=why)
        if not ok:
            w = native_precision_ignored(mn, qual)
            if w is not None:
                ctx.fail(name, dict(key="precision|%s.%s" % (mn, qual), function=tgt, why=why, **w),
                         detail="%s; native: %s on %s gives %r" % (why, w["call"], w["tree"], w["outcomes"]), kind="T1")
            else:
                ctx.fail(name, dict(key="site:%s.%s->%s" % (mn, qual, cn), function=tgt, why=why), detail=why, kind="T1", no_input=True)


def replay(ctx, rec):
    w = rec.get("witness", {})
    fn = w.get("function")
    if not fn:
        return None
    mn, _, qual = fn.partition(":")
    r = native_precision_ignored(mn, qual)
    print(r or "%s honours the precision it is given on the sample tree (or cannot be called stand-alone)" % fn)
    return r is None
