"""C20 -- readers terminate and report bad data as parse errors (T1 part).

Theory C of DESIGN.md: the tokenizer is abstracted by ghost state on the
tokenizer object (g_pos tokens consumed, g_n tokens in the stream, g_eof) with
contracts for its real methods read off tokenizer.py / nexusprocessing.py.
Every `while` loop of the NEXUS reader gets
  * a progress obligation: the measure (g_n - g_pos) + (0 if g_eof else 1)
    strictly decreases on every iteration that neither exits nor raises
    (an iteration that consumes nothing at end of stream is a hang witness);
  * None-safety obligations: no method call / attribute access on a token
    that may be None (next_token returns None at end of stream);
  * an exception-family obligation: every `raise` is of the DataParseError
    family (class hierarchy read from the AST).
The reader functions are executed in *lenient* mode: everything that is not
token handling (taxon namespaces, matrices, string formatting) is abstracted to
opaque values with arbitrary truth value, assumed to terminate and to leave
the tokenizer alone (checked syntactically: an abstracted callee must not
mention the tokenizer).  Proofs therefore hold for every behaviour of the
abstracted parts; refutations are trusted only after native replay."""
import ast
import io
import re

import z3

from dpvc import frontend
from dpvc.symexec import Contract, Loop, Unsupported
from dpvc.symexec2 import Executor2
from dpvc.verify import Suite, verify_contract

NR = "dendropy.dataio.nexusreader"
NP = "dendropy.dataio.nexusprocessing"
TK = "dendropy.dataio.tokenizer"

SCHEMA = {
    "NexusReader._nexus_tokenizer": "ref:NexusTokenizer",
    "NexusTokenizer.g_pos": "int",
    "NexusTokenizer.g_n": "int",
    "NexusTokenizer.g_eof": "bool",
    "NexusTokenizer.current_token": "opt str",
}
for _k in ("NexusTokenizer.g_pos", "NexusTokenizer.g_n", "NexusTokenizer.g_eof"):
    pass

T = "self._nexus_tokenizer"
INV_T = "0 <= {t}.g_pos and {t}.g_pos <= {t}.g_n and implies({t}.g_eof, {t}.g_pos == {t}.g_n)"
MEASURE_T = "{t}.g_n - {t}.g_pos + ite({t}.g_eof, 0, 1)"
MONO_T = "{t}.g_pos >= old({t}.g_pos) and implies(old({t}.g_eof), {t}.g_eof) and {t}.g_n == old({t}.g_n)"
LOOP_MONO_T = "{t}.g_pos >= pre({t}.g_pos) and implies(pre({t}.g_eof), {t}.g_eof)"

FAMILY = ("DataParseError",)


def tok_contracts():
    s = "self"
    inv = INV_T.format(t=s)
    mods = ["self.g_pos", "self.g_eof", "self.current_token"]
    step = ("ite(old(self.g_pos) < self.g_n, not isnone(result) and self.g_pos == old(self.g_pos) + 1, "
            "isnone(result) and self.g_eof and self.g_pos == old(self.g_pos)) and self.g_n == old(self.g_n) "
            "and implies(old(self.g_eof), self.g_eof) and " + inv)
    out = []
    for nm, mod in (("next_token", TK + ":Tokenizer.next_token"), ("next_token_ucase", NP + ":NexusTokenizer.next_token_ucase")):
        out.append(Contract(mod, name="NexusTokenizer." + nm, types={"return": "opt str"}, requires=inv, modifies=mods,
                            ensures={"step": step, "current": "eq(self.current_token, result)"},
                            may_raise=("UnterminatedQuoteError",), assumed=True,
                            notes="read off Tokenizer.__next__/next_token: returns the next token or None at end of stream (then is_eof() holds)"))
    req = ("old(self.g_pos) < self.g_n and not isnone(result) and self.g_pos == old(self.g_pos) + 1 and self.g_n == old(self.g_n) "
           "and implies(old(self.g_eof), self.g_eof) and " + inv)
    for nm, mod in (("require_next_token", TK + ":Tokenizer.require_next_token"), ("require_next_token_ucase", NP + ":NexusTokenizer.require_next_token_ucase")):
        out.append(Contract(mod, name="NexusTokenizer." + nm, types={"return": "str"}, requires=inv, modifies=mods,
                            ensures={"step": req, "current": "eq(self.current_token, result)"},
                            raises={"UnexpectedEndOfStreamError": "self.g_pos >= self.g_n"},
                            may_raise=("UnterminatedQuoteError",), assumed=True,
                            notes="as next_token but raises UnexpectedEndOfStreamError at end of stream"))
    out.append(Contract(TK + ":Tokenizer.is_eof", name="NexusTokenizer.is_eof", types={"return": "bool"}, requires="True",
                        ensures={"eof": "result == self.g_eof"}, assumed=True, notes="_cur_char == ''"))
    out.append(Contract(NP + ":NexusTokenizer.cast_current_token_to_ucase", name="NexusTokenizer.cast_current_token_to_ucase",
                        types={"return": "opt str"}, requires="True", modifies=["self.current_token"],
                        ensures={"same-noneness": "isnone(result) == isnone(old(self.current_token)) or not truthy(old(self.current_token))",
                                 "current": "eq(self.current_token, result)"},
                        assumed=True, notes="upper-cases current_token when truthy"))
    out.append(Contract(NP + ":NexusTokenizer.process_and_clear_comments_for_item", name="NexusTokenizer.process_and_clear_comments_for_item",
                        types={"item": "opaque", "extract_comment_metadata": "opaque"}, requires="True", ensures=None, assumed=True,
                        notes="touches captured_comments only"))
    # skip_to_semicolon is VERIFIED (its loop is part of the termination argument)
    out.append(Contract(NP + ":NexusTokenizer.skip_to_semicolon", name="NexusTokenizer.skip_to_semicolon", types={}, requires=inv,
                        modifies=mods, ensures={"mono": MONO_T.format(t="self") + " and " + inv},
                        loops={0: Loop(invariant=inv + " and self.g_n == old(self.g_n) and self.g_pos >= old(self.g_pos) and implies(old(self.g_eof), self.g_eof) "
                                                 "and implies(isnone(token), self.g_eof)",
                                       decreases=MEASURE_T.format(t="self"))},
                        locals={"token": "opt str"}, allowed_raises=("UnterminatedQuoteError",), terminates_required=True, frame=False,
                        attr_overrides={"_cur_char": "eof"}))
    return out


class ReaderExecutor(Executor2):
    lenient = True
    effect_markers = ("_nexus_tokenizer", "self._parse", "self._read", "self._process", "self._consume", "self._build_tree")

    def raise_classifier(self, fsrc, call):
        # raise self._nexus_error(msg[, NexusReader.XError]) / self._too_many_taxa_error(...) ...
        if fsrc in ("self._nexus_error", "self._too_many_taxa_error", "self._undefined_taxon_error", "self._too_many_characters_error"):
            return "NexusReaderError"
        return fsrc.split(".")[-1]

    def attr_of(self, st, base, attr, lineno):
        # `self._cur_char == ""` inside the tokenizer is is_eof()
        if base.kind == "ref" and base.cls == "NexusTokenizer" and attr == "_cur_char":
            v = self.get_attr(st, base, "g_eof", lineno)
            return _EofChar(v.t)
        return Executor2.attr_of(self, st, base, attr, lineno)

    def py_eq(self, a, b):
        if isinstance(a, _EofChar) and b.kind == "str" and b.x == "":
            return a.t
        if isinstance(b, _EofChar) and a.kind == "str" and a.x == "":
            return b.t
        return Executor2.py_eq(self, a, b)

    def call_method(self, st, obj, name, args, kw, ln):
        c = self._contract_for(obj.cls, name)
        if c is None and obj.cls == "NexusReader":
            fm = self._find_method(obj.cls, name)
            if fm is not None:
                ci, fn = fm
                src = ast.unparse(fn)
                if "_nexus_tokenizer" not in src and not re.search(r"self\._(parse|read|process|consume|build_tree)", src):
                    # tokenizer-neutral helper: abstracted (assumed to terminate and raise only parse errors)
                    for a in args:
                        pass
                    return self.opaque("helper %s" % name)
                raise Unsupported("reader method %s touches the tokenizer but has no contract" % name)
        if c is None and obj.cls not in ("NexusReader", "NexusTokenizer"):
            return self.opaque("method %s" % name)
        return Executor2.call_method(self, st, obj, name, args, kw, ln)

    def default_loop(self, s, ordinal):
        inv = INV_T.format(t=T) + " and " + MONO_T.format(t=T) + " and " + LOOP_MONO_T.format(t=T)
        if isinstance(s, ast.While):
            return Loop(invariant=inv, decreases=MEASURE_T.format(t=T))
        return Loop(invariant=inv)


from dpvc.symexec import SV  # noqa: E402


class _EofChar(SV):
    def __init__(self, t):
        SV.__init__(self, "eofchar", t)


# loops that need more than the default invariant: what the guard knows about `token`
TOKEN_NONE_MEANS_EOF = " and implies(isnone(token), {t}.g_eof)".format(t=T)

READER_OVERRIDES = {
    # name: dict(loops={ordinal: extra invariant text}, locals={...}, ensures_extra=...)
    # the label handled in the loop body is never None: tokens come from require_next_token
    "_parse_taxlabels_statement": dict(loops={1: " and not isnone(token)"}),
    "_parse_tree_statement": dict(ensures_extra=" and {t}.g_pos > old({t}.g_pos)".format(t=T)),
    # _build_tree_from_newick_tree_string delegates to NewickReader._parse_tree_statement (recursive descent over the same
    # tokenizer): verified against that function's contract, which contracts/C20newick.py proves; a tree costs a token
    "_build_tree_from_newick_tree_string": dict(ensures_extra=" and implies(not isnone(result), ({m}) < old({m}))".format(m=MEASURE_T.format(t=T))),
}

ALLOWED = ("NexusReaderError", "UnexpectedEndOfStreamError", "UnterminatedQuoteError", "NotNexusFileError", "IncompleteBlockError",
           "BlockTerminatedException", "DataParseError")


def reader_contracts():
    m = frontend.module(NR)
    ci = m.classes["NexusReader"]
    out = []
    inv = INV_T.format(t=T)
    for name, fn in ci.methods.items():
        src = ast.unparse(fn)
        if "_nexus_tokenizer" not in src and not re.search(r"self\._(parse|read|process|consume|build_tree)", src):
            continue
        if name in ("__init__", "_read", "create_tokenizer", "set_stream", "_nexus_error", "_too_many_taxa_error",
                    "_undefined_taxon_error", "_too_many_characters_error", "_debug_print"):
            continue
        types = {}
        for a in fn.args.args[1:]:
            types[a.arg] = "opaque"
        has_ret = any(isinstance(n, ast.Return) and n.value is not None for n in ast.walk(fn))
        if has_ret:
            types["return"] = "opaque"
        ov = READER_OVERRIDES.get(name, {})
        loops = {}
        for k, extra in ov.get("loops", {}).items():
            loops[k] = Loop(invariant=inv + " and " + MONO_T.format(t=T) + " and " + LOOP_MONO_T.format(t=T) + extra, decreases=MEASURE_T.format(t=T))
        locs = {"token": "opt str"}
        locs.update(ov.get("locals", {}))
        out.append(Contract(NR + ":NexusReader." + name, types=types, requires=inv + ov.get("requires_extra", ""),
                            modifies=[T + ".g_pos", T + ".g_eof", T + ".current_token"],
                            ensures={"tokenizer-monotone": MONO_T.format(t=T) + " and " + inv + ov.get("ensures_extra", "")},
                            loops=loops, locals=locs, allowed_raises=ALLOWED, may_raise=("NexusReaderError",),
                            terminates_required=True, frame=False, assumed=ov.get("assumed", False),
                            notes="delegates to code outside the T1 subset" if ov.get("assumed") else None))
    return out


NYI = "dendropy.dataio.nexusyielder"


def yielder_contracts():
    """the NEXUS one-tree-at-a-time iterator (a NexusReader subclass): its own driver loop and its TREES-block generator"""
    m = frontend.module(NYI)
    ci = m.classes["NexusTreeDataYielder"]
    inv = INV_T.format(t=T)
    out = []
    for name in ("_yield_items_from_stream", "_yield_from_trees_block"):
        fn = ci.methods[name]
        types = dict((a.arg, "opaque") for a in fn.args.args[1:])
        types["return"] = "opaque"
        out.append(Contract(NYI + ":NexusTreeDataYielder." + name, types=types, requires=inv,
                            modifies=[T + ".g_pos", T + ".g_eof", T + ".current_token"],
                            ensures=None if name == "_yield_items_from_stream" else {"tokenizer-monotone": MONO_T.format(t=T) + " and " + inv},
                            locals={"token": "opt str"}, allowed_raises=ALLOWED, may_raise=("NexusReaderError",), terminates_required=True, frame=False))
    return out


def build_suite():
    from contracts import C20newick as NWK
    callee = [c for c in NWK.newick_contracts() if c.name == "NewickReader._parse_tree_statement"]
    cs = tok_contracts() + reader_contracts() + yielder_contracts()
    schema = dict(NWK.SCHEMA)
    schema["NexusTreeDataYielder._nexus_tokenizer"] = "ref:NexusTokenizer"
    schema["NexusTreeDataYielder.newick_reader"] = "ref:NewickReader"
    s = Suite(schema, [NR, NP, TK, NWK.NW, NYI], cs + callee, executor_cls=ReaderExecutor)
    return s, cs


def t1(ctx):
    ctx.assume("C20/T1: tokenizer abstracted by ghost state (g_pos, g_n, g_eof); contracts of next_token*/require_next_token*/is_eof/"
               "cast_current_token_to_ucase are ASSUMED (read off tokenizer.py) and validated at run time on sample texts")
    ctx.assume("C20/T1 lenient mode: non-token code of the reader functions is abstracted to opaque values (assumed to terminate, "
               "to raise only parse errors and to leave the tokenizer alone; the last is checked syntactically)")
    suite, cs = build_suite()
    from dpvc import replay_c20
    for c in cs:
        verify_contract(ctx, suite, c, sentinels=False, replay=replay_c20.replay_reader)
    from contracts import C20newick, C20chars
    C20newick.t1(ctx)
    C20chars.t1(ctx)
    validate_tokenizer_assumptions(ctx)
    raise_family_scan(ctx)


def validate_tokenizer_assumptions(ctx):
    """run-time validation of the ASSUMED tokenizer contracts on sample texts (not a proof)"""
    from dendropy.dataio.nexusprocessing import NexusTokenizer
    texts = ["", " ", "a", "a ", "a;b", "a [c] ;", "[c]", "'q' x", "a'b'", "(a,b);\n", "x [c", "a\n\n", ";", "a=b"]
    from bounded.common import time_limit, Timeout
    n = 0
    try:
        with time_limit(20):
            n = _validate_tokenizer_texts(ctx, texts, NexusTokenizer)
    except Timeout:
        # the real tokenizer does not return on one of 14 tiny texts: that is a violation of C20 in its own right (with the texts as input)
        ctx.fail("tokenizer.returns-on-the-sample-texts", dict(key="tokenizer-hang", texts=texts),
                 detail="the real NexusTokenizer did not finish tokenizing the %d sample texts within 20 s of CPU time" % len(texts), kind="T1")
        return
    if n is None:
        return
    ctx.crosscheck_inputs += n


def _validate_tokenizer_texts(ctx, texts, NexusTokenizer):
    n = 0
    for tx in texts:
        ref = list(NexusTokenizer(io.StringIO(tx)))
        tk = NexusTokenizer(io.StringIO(tx))
        pos = 0
        while True:
            was_eof = tk.is_eof()
            t = tk.next_token()
            n += 1
            if pos < len(ref):
                ok = t is not None and t == ref[pos]
                pos += 1
            else:
                ok = t is None and tk.is_eof()
            if was_eof and not tk.is_eof():
                ok = False
            if tk.is_eof() and pos != len(ref):
                ok = False
            if not ok:
                ctx.checker_failure("assumed tokenizer contract does not hold natively on %r at token %d" % (tx, pos))
                return None
            if t is None:
                break
    return n


def raise_family_scan(ctx):
    """every `raise` statement of the reader modules raises a class of the DataParseError family
    (or re-raises); class hierarchy read from the AST."""
    fam = {"DataParseError"}
    mods = [frontend.module(x) for x in (NR, NP, TK, "dendropy.dataio.newickreader", "dendropy.utility.error")]
    changed = True
    classes = {}
    for m in mods:
        for node in ast.walk(m.tree):
            if isinstance(node, ast.ClassDef):
                classes[node.name] = [ast.unparse(b).split(".")[-1] for b in node.bases]
    while changed:
        changed = False
        for k, bs in classes.items():
            if k not in fam and any(b in fam for b in bs):
                fam.add(k)
                changed = True
    import time
    for modname in (NR, "dendropy.dataio.newickreader", TK, "dendropy.dataio.nexusyielder", "dendropy.dataio.newickyielder"):
        m = frontend.module(modname)
        for node in ast.walk(m.tree):
            if not isinstance(node, ast.Raise):
                continue
            t0 = time.time()
            name = "%s.raise@L%d.family" % (modname.split(".")[-1], node.lineno)
            if node.exc is None:
                ctx.obligation(name, "proved", "ast-scan", 0.0, modname, detail="re-raise")
                continue
            if isinstance(node.exc, ast.Call):
                f = ast.unparse(node.exc.func)
            else:
                f = ast.unparse(node.exc)
            last = f.split(".")[-1]
            helpers = ("_nexus_error", "_too_many_taxa_error", "_undefined_taxon_error", "_too_many_characters_error", "_newick_error")
            ok = last in fam or last in helpers or last in ("StopIteration", "BlockTerminatedException")
            if not ok and isinstance(node.exc, ast.Name):
                # `raise exc` of a local: every assignment to it in the enclosing function must build a family member
                fn = _enclosing_function(m, node)
                srcs = []
                for a in ast.walk(fn) if fn is not None else []:
                    if isinstance(a, ast.Assign) and any(isinstance(t, ast.Name) and t.id == node.exc.id for t in a.targets):
                        if isinstance(a.value, ast.Call):
                            srcs.append(ast.unparse(a.value.func).split(".")[-1])
                        else:
                            srcs.append("?")
                if srcs and all(x in fam or x in helpers for x in srcs):
                    ok = True
                    f = "%s (= %s)" % (f, ",".join(sorted(set(srcs))))
            if not ok and _caught_locally(m, node, last):
                ok = True
                f = f + " (caught by an enclosing handler in the same function)"
            documented = last in ("TypeError", "ValueError") and _is_argument_check(m, node)
            if ok or documented:
                ctx.obligation(name, "proved", "ast-scan", time.time() - t0, modname, detail=f)
            else:
                ctx.obligation(name, "refuted", "ast-scan", time.time() - t0, modname, detail=f)
                ctx.fail(name, dict(key="%s:%s" % (modname, f), where="%s line %d" % (m.path, node.lineno), raises=f),
                         detail="raise of %s (not in the DataParseError family) at %s:%d" % (f, m.path, node.lineno), kind="T1", no_input=True)


def _is_argument_check(m, node):
    """TypeError/ValueError raised for bad keyword arguments / option values (documented API errors),
    recognised by the enclosing function being a constructor or option handler"""
    for fn in ast.walk(m.tree):
        if isinstance(fn, ast.FunctionDef) and fn.lineno <= node.lineno <= (fn.end_lineno or fn.lineno):
            if fn.name in ("__init__", "_parse_tree_rooting_state", "get_rooting_argument", "set_stream", "_read", "_set_rooting"):
                return True
    return False


def _enclosing_function(m, node):
    best = None
    for fn in ast.walk(m.tree):
        if isinstance(fn, ast.FunctionDef) and fn.lineno <= node.lineno <= (fn.end_lineno or fn.lineno):
            if best is None or fn.lineno >= best.lineno:
                best = fn
    return best


def _caught_locally(m, node, excname):
    fn = _enclosing_function(m, node)
    if fn is None:
        return False
    for t in ast.walk(fn):
        if isinstance(t, ast.Try):
            in_body = any(b.lineno <= node.lineno <= (b.end_lineno or b.lineno) for b in t.body)
            if not in_body:
                continue
            for h in t.handlers:
                if h.type is None:
                    return True
                names = [ast.unparse(x).split(".")[-1] for x in (h.type.elts if isinstance(h.type, ast.Tuple) else [h.type])]
                if excname in names or "Exception" in names:
                    return True
    return False


def replay(ctx, rec):
    from dpvc import replay_c20
    return replay_c20.replay_record(ctx, rec)
