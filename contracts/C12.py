"""C12 -- copies equal and independent at the documented depth (T1 part: which copy is made, and what a scoped copy shares).

The documented depths are a DISPATCH plus a MEMO:
  * DataObject.clone(depth): 0 -> copy.copy(self), 1 -> self.taxon_namespace_scoped_copy(memo=None), 2 -> copy.deepcopy(self), anything else
    TypeError (AST obligations);
  * Tree / TreeList / CharacterMatrix .taxon_namespace_scoped_copy(memo): a missing memo becomes a fresh dictionary, the object's OWN
    namespace fills it (populate_memo_for_taxon_namespace_scoped_copy) and the result is self.__deepcopy__(memo=memo) with that very memo
    (AST obligations);
  * TaxonNamespace.populate_memo_for_taxon_namespace_scoped_copy(memo) (z3, loop invariant): afterwards memo[id(ns)] is ns and
    memo[id(t)] is t for EVERY taxon t of the namespace, nothing that was in the memo is lost or changed unless it is one of those keys, and the
    memo object is returned.
Under the documented contract of copy.deepcopy ("an object whose id is a key of the memo is not copied: the memo's value stands for it" --
ASSUMED, it is the standard library's), a depth-1 copy therefore refers to the SAME namespace and the SAME Taxon objects: the "taxa and
namespace are shared, everything else is copied" clause for every tree, list and matrix.  What `everything else` means -- equality and
separation of the copied parts -- is the bounded driver's."""
import ast
import time

from dpvc import frontend
from dpvc.symexec import Contract, Loop
from dpvc.symexec3 import Executor3
from dpvc.verify import Suite, verify_contract
from dpvc import replay as dreplay

BM = "dendropy.datamodel.basemodel"
TX = "dendropy.datamodel.taxonmodel"

SCHEMA = {
    "TaxonNamespace._taxa": "reflist:Taxon",
    "Taxon.g_pos": "ghost int",
    "Taxon.g_owner": "ghost opt ref:TaxonNamespace",
    "Memo.g_map": "ghost map:int:ref of=object",
}

MM = "memo.g_map"
CONTRACTS = [
    Contract(TX + ":TaxonNamespace.populate_memo_for_taxon_namespace_scoped_copy", types={"memo": "opt ref:Memo", "return": "opt ref:Memo"},
             requires="listinv(self._taxa)", modifies=["Memo.g_map[*]"], frame=False,
             locals={"taxon": "ref:Taxon"},
             loops={0: Loop(invariant="get({m}, id(self)) == self and has({m}, id(self)) and "
                                      "forall_int(lambda j: implies(0 <= j and j < loop_index(), has({m}, id(at(self._taxa, j))) and get({m}, id(at(self._taxa, j))) == at(self._taxa, j))) and "
                                      "forall_int(lambda k: implies(pre(has({m}, k)) and k != id(self) and forall_int(lambda j: implies(0 <= j and j < loop_index(), k != id(at(self._taxa, j)))), "
                                      "has({m}, k) and get({m}, k) == pre(get({m}, k))))".format(m=MM))},
             ensures={"returns-the-memo": "eq(result, memo)",
                      "namespace-stands-for-itself": "implies(not isnone(memo), has({m}, id(self)) and get({m}, id(self)) == self)".format(m=MM),
                      "every-taxon-stands-for-itself": "implies(not isnone(memo), forall_int(lambda j: implies(0 <= j and j < length(self._taxa), "
                                                       "has({m}, id(at(self._taxa, j))) and get({m}, id(at(self._taxa, j))) == at(self._taxa, j))))".format(m=MM),
                      "other-entries-kept": "implies(not isnone(memo), forall_int(lambda k: implies(old(has({m}, k)) and k != id(self) and "
                                            "forall_int(lambda j: implies(0 <= j and j < length(self._taxa), k != id(at(self._taxa, j)))), "
                                            "has({m}, k) and get({m}, k) == old(get({m}, k)))))".format(m=MM)}),
]


class MemoExecutor(Executor3):
    dict_views = {"Memo": "g_map"}


SUITE = Suite(SCHEMA, [TX], CONTRACTS, executor_cls=MemoExecutor)


# ----------------------------------------------------------------------------- AST obligations
def _method(m, cls, name):
    for n in m.tree.body:
        if isinstance(n, ast.ClassDef) and n.name == cls:
            for s in n.body:
                if isinstance(s, ast.FunctionDef) and s.name == name:
                    return s
    return None


def _ret_of_branch(fn, depth):
    """the expression returned under `depth == <depth>` in an if/elif chain over the parameter `depth`"""
    node = next((s for s in fn.body if isinstance(s, ast.If)), None)
    while node is not None:
        t = node.test
        if (isinstance(t, ast.Compare) and isinstance(t.left, ast.Name) and t.left.id == "depth" and len(t.ops) == 1 and isinstance(t.ops[0], ast.Eq)
                and isinstance(t.comparators[0], ast.Constant) and t.comparators[0].value == depth):
            if len(node.body) == 1 and isinstance(node.body[0], ast.Return):
                return node.body[0].value
            return None
        node = node.orelse[0] if len(node.orelse) == 1 and isinstance(node.orelse[0], ast.If) else None
    return None


def _else_raises_typeerror(fn):
    node = next((s for s in fn.body if isinstance(s, ast.If)), None)
    while node is not None:
        if len(node.orelse) == 1 and isinstance(node.orelse[0], ast.If):
            node = node.orelse[0]
            continue
        return (len(node.orelse) == 1 and isinstance(node.orelse[0], ast.Raise) and isinstance(node.orelse[0].exc, ast.Call)
                and ast.unparse(node.orelse[0].exc.func) == "TypeError")
    return False


SCOPED = [("dendropy.datamodel.treemodel._tree", "Tree"), ("dendropy.datamodel.treecollectionmodel", "TreeList"),
          ("dendropy.datamodel.charmatrixmodel", "CharacterMatrix")]


def dispatch_obligations(ctx):
    out = []

    def emit(name, ok, target, why):
        ctx.obligation(name, "proved" if ok else "refuted", "ast-scan", time.time() - t0, target, detail=None if ok else why)
        if not ok:
            out.append((name, target, why))

    t0 = time.time()
    m = frontend.module(BM)
    fn = _method(m, "DataObject", "clone")
    target = BM + ":DataObject.clone"
    ctx.add_function(target)
    want = {0: "copy.copy(self)", 1: "self.taxon_namespace_scoped_copy(memo=None)", 2: "copy.deepcopy(self)"}
    for d, src in sorted(want.items()):
        r = _ret_of_branch(fn, d) if fn is not None else None
        emit("DataObject.clone.depth-%d-returns[%s]" % (d, src), r is not None and ast.unparse(r) == src, target,
             "depth == %d returns %s" % (d, ast.unparse(r) if r is not None else "nothing recognisable"))
    emit("DataObject.clone.other-depths-raise-TypeError", fn is not None and _else_raises_typeerror(fn), target, "the final else does not raise TypeError")
    dflt = fn.args.defaults[-1] if fn is not None and fn.args.defaults else None
    emit("DataObject.clone.default-depth-is-1", isinstance(dflt, ast.Constant) and dflt.value == 1, target, "default depth is %s" % (ast.unparse(dflt) if dflt is not None else None))
    for modname, cls in SCOPED:
        t0 = time.time()
        mm = frontend.module(modname)
        fn = _method(mm, cls, "taxon_namespace_scoped_copy")
        target = "%s:%s.taxon_namespace_scoped_copy" % (modname, cls)
        ctx.add_function(target)
        if fn is None:
            emit("%s.taxon_namespace_scoped_copy.exists" % cls, False, target, "method not found")
            continue
        body = [s for s in fn.body if not (isinstance(s, ast.Expr) and isinstance(s.value, ast.Constant))]
        # 1. `if memo is None: memo = {}`
        fresh = (len(body) >= 1 and isinstance(body[0], ast.If) and ast.unparse(body[0].test) == "memo is None" and len(body[0].body) == 1
                 and ast.unparse(body[0].body[0]) in ("memo = {}", "memo = dict()") and not body[0].orelse)
        emit("%s.taxon_namespace_scoped_copy.missing-memo-is-a-fresh-dictionary" % cls, fresh, target, "first statement: %s" % (ast.unparse(body[0])[:80] if body else None))
        # 2. the object's own namespace fills the memo
        fills = (len(body) >= 2 and isinstance(body[1], ast.Expr)
                 and ast.unparse(body[1].value) in ("self.taxon_namespace.populate_memo_for_taxon_namespace_scoped_copy(memo)",
                                                    "self.taxon_namespace.populate_memo_for_taxon_namespace_scoped_copy(memo=memo)"))
        emit("%s.taxon_namespace_scoped_copy.own-namespace-fills-the-memo" % cls, fills, target, "second statement: %s" % (ast.unparse(body[1])[:100] if len(body) > 1 else None))
        # 3. the copy is made with that memo
        ret = (len(body) == 3 and isinstance(body[2], ast.Return) and ast.unparse(body[2].value) in ("self.__deepcopy__(memo=memo)", "self.__deepcopy__(memo)", "copy.deepcopy(self, memo)"))
        emit("%s.taxon_namespace_scoped_copy.copies-with-that-memo" % cls, ret, target, "statements: %s" % [ast.unparse(s)[:60] for s in body])
    return out


# ----------------------------------------------------------------------------- native side
class Memo(dict):
    g_map = property(lambda self: self)


def _states(c):
    import dendropy
    for labels in ((), ("A",), ("A", "B", "C")):
        for pre in ("none", "empty", "other", "stale"):
            ns = dendropy.TaxonNamespace(list(labels))
            if pre == "none":
                memo = None
            else:
                memo = Memo()
                if pre == "other":
                    memo[12345] = ns
                if pre == "stale" and labels:
                    memo[id(ns[0])] = object()
            uni = {"Taxon": list(ns), "TaxonNamespace": [ns]}
            yield dict(self=ns, memo=memo), uni, "namespace %r, memo %s" % (list(labels), pre)


def native_scoped_copy_shares():
    """the conclusion, natively: depth-1 copies of a tree, a list and a matrix refer to the same namespace and the same Taxon objects,
    depth-2 copies to none of them, depth 0 to the same member objects"""
    import dendropy
    ns = dendropy.TaxonNamespace(["A", "B", "C"])
    tree = dendropy.Tree.get(data="((A,B),C);", schema="newick", taxon_namespace=ns)
    tl = dendropy.TreeList([tree.clone(1)], taxon_namespace=ns)
    cm = dendropy.DnaCharacterMatrix.from_dict({"A": "AC", "B": "AG"}, taxon_namespace=ns)
    for name, obj in (("Tree", tree), ("TreeList", tl), ("DnaCharacterMatrix", cm)):
        c1 = obj.clone(1)
        if c1 is obj or c1.taxon_namespace is not ns:
            return "%s.clone(1): the copy's namespace is %s" % (name, "the copy itself" if c1 is obj else "not the original's")
        taxa = ([n.taxon for n in c1.leaf_node_iter()] if name == "Tree" else [n.taxon for t in c1 for n in t.leaf_node_iter()] if name == "TreeList" else list(c1))
        if any(all(t is not u for u in ns) for t in taxa):
            return "%s.clone(1): a taxon of the copy is not a member of the shared namespace" % name
        c2 = obj.clone(2)
        if c2.taxon_namespace is ns:
            return "%s.clone(2): the deep copy shares the namespace" % name
        try:
            obj.clone(3)
            return "%s.clone(3) returned instead of raising TypeError" % name
        except TypeError:
            pass
    return None


def t1(ctx):
    ctx.assume("C12/T1: copy.copy / copy.deepcopy are ASSUMED to their documented contracts (in particular: an object whose id is a key of the memo "
               "is represented by the memo's value); id() is injective on the objects alive during the call; equality and separation of the copied "
               "parts are bounded only")
    fails = dispatch_obligations(ctx)
    if fails:
        w = native_scoped_copy_shares()
        for name, target, why in fails:
            if w is not None:
                ctx.fail(name, dict(key="clone|" + w, function=target, why=why, native=w), detail="%s; native: %s" % (why, w), kind="T1")
            else:
                ctx.fail(name, dict(key="site:" + name, function=target, why=why, native="clone(0/1/2/3) behave as documented on a sample tree, list and matrix"),
                         detail=why, kind="T1", no_input=True)
    for c in CONTRACTS:
        verify_contract(ctx, SUITE, c, sentinels=False, replay=dreplay.replay_by_search(_states))


def replay(ctx, rec):
    w = rec.get("witness", {})
    if w.get("state") is not None:
        return dreplay.replay_state_record(rec, CONTRACTS, _states)
    r = native_scoped_copy_shares()
    print(r or "clone(0/1/2/3) behave as documented on a sample tree, list and matrix")
    return r is None
