"""C01 -- the traversal loop of Tree.encode_bipartitions (T1 part, theory B + theory A + allocation).

What is proved, for every heap satisfying the stated well-formedness of the traversal:
at the normal exit of the `for edge in self.postorder_edge_iter()` loop every visited edge e with head node h has
a Bipartition object of its own whose leaf-set mask satisfies the LOCAL EQUATION of the clade encoding

     h is a leaf      :  mask(e) = {accession index of h.taxon}   (the empty set if h carries no taxon)
     h is internal    :  bit b is in mask(e)  <=>  b is in mask(c.edge) for some child c of h

By structural induction on the (finite, acyclic) tree these equations have exactly one solution: mask(e) = the set of
taxon bits on the leaves below e -- the statement "the encoding is exact" of C01.  That induction is mathematics about
the specification (lemmas/Clades.lean); what concerns the code is that the loop establishes the equations, and that
is the obligation `loop.after[local-equations]`.

ASSUMED (named in the evidence): `postorder_edge_iter` yields the ghost list g_post -- the edge of every node once,
children before parents (C15, bounded-exhaustive there); the tree is well formed (C03): every visited edge has a head
node whose `_edge` is that edge, child lists hold distinct non-None nodes; every leaf taxon is a member of the tree's
namespace (C11) and taxon_bitmask returns the singleton of its accession index (C10, proved there).
The phase after the loop (compile_split_bitmask per edge: C01's proved contract) and the restructuring calls before it
(suppress_unifurcations, collapse_basal_bifurcation: assumed to re-establish the well-formedness) are not part of this
obligation; whole-tree exactness end to end stays bounded (T2)."""
from dpvc.symexec import Contract, Loop, SV
from dpvc.symexec3 import Executor3
from dpvc.verify import Suite, verify_contract

TR = "dendropy.datamodel.treemodel._tree"
ND = "dendropy.datamodel.treemodel._node"
ED = "dendropy.datamodel.treemodel._edge"
BIP = "dendropy.datamodel.treemodel._bipartition"
TX = "dendropy.datamodel.taxonmodel"

SCHEMA = {
    "Tree._taxon_namespace": "ref:TaxonNamespace",
    "Tree._is_rooted": "opt bool",
    "Tree._seed_node": "opt ref:Node",
    "Tree.g_post": "ghost reflist:Edge",
    "Edge.g_pos": "ghost int",
    "Edge.g_owner": "ghost opt ref:Tree",
    "Edge._head_node": "opt ref:Node",
    "Edge._bipartition": "opt ref:Bipartition",
    "Node._child_nodes": "reflist:Node",
    "Node.g_pos": "ghost int",
    "Node.g_owner": "ghost opt ref:Node",
    "Node._edge": "opt ref:Edge",
    "Node._parent_node": "opt ref:Node",
    "Node.taxon": "opt ref:Taxon",
    "Bipartition._leafset_bitmask": "bits",
    "Bipartition._is_rooted": "opt bool",
    "TaxonNamespace._taxon_accession_index_map": "map:ref:int",
}

P = "self.g_post"


def bm(e):
    return "%s._bipartition._leafset_bitmask" % e


def leq(e):
    h = "%s._head_node" % e
    return ("ite(length({h}._child_nodes) == 0, "
            "ite(isnone({h}.taxon), empty({bme}), eq({bme}, singleton(get(self._taxon_namespace._taxon_accession_index_map, {h}.taxon)))), "
            "forall_int(lambda b: bit({bme}, b) == exists_int(lambda k: 0 <= k and k < length({h}._child_nodes) and bit({bmc}, b))))").format(
                h=h, bme=bm(e), bmc=bm("at(%s._child_nodes, k)._edge" % h))


WF = ("listinv({P}) and "
      # every visited edge has a head node whose edge it is; child lists are proper lists
      "forall_int(lambda j: implies(0 <= j and j < length({P}), not isnone(at({P}, j)._head_node) and at({P}, j)._head_node._edge == at({P}, j) "
      "and listinv(at({P}, j)._head_node._child_nodes))) and "
      # children before parents: the edge of every child of a visited node was visited earlier
      "forall_int(lambda j: forall_int(lambda k: implies(0 <= j and j < length({P}) and 0 <= k and k < length(at({P}, j)._head_node._child_nodes), "
      "not isnone(at(at({P}, j)._head_node._child_nodes, k)._edge) and 0 <= at(at({P}, j)._head_node._child_nodes, k)._edge.g_pos "
      "and at(at({P}, j)._head_node._child_nodes, k)._edge.g_pos < j "
      "and at({P}, at(at({P}, j)._head_node._child_nodes, k)._edge.g_pos) == at(at({P}, j)._head_node._child_nodes, k)._edge))) and "
      # the traversal ends with the seed node
      "length({P}) > 0 and not isnone(self._seed_node._edge) and at({P}, length({P}) - 1) == self._seed_node._edge and "
      # leaf taxa are members of the namespace
      "forall_int(lambda j: implies(0 <= j and j < length({P}) and not isnone(at({P}, j)._head_node.taxon), "
      "has(self._taxon_namespace._taxon_accession_index_map, at({P}, j)._head_node.taxon)))").format(P=P)

STRUCT_KEPT = ("forall_ref('Node', lambda n: same_list(n._child_nodes, pre(n._child_nodes)) and n._edge == pre(n._edge) and n.taxon == pre(n.taxon)) and "
               "forall_ref('Edge', lambda x: x._head_node == pre(x._head_node)) and self._taxon_namespace == pre(self._taxon_namespace) and "
               "forall_ref('Taxon', lambda t: has(self._taxon_namespace._taxon_accession_index_map, t) == pre(has(self._taxon_namespace._taxon_accession_index_map, t)) "
               "and get(self._taxon_namespace._taxon_accession_index_map, t) == pre(get(self._taxon_namespace._taxon_accession_index_map, t)))")

DONE = ("forall_int(lambda j: implies(0 <= j and j < loop_index(), not isnone(at({P}, j)._bipartition) and {leq}))").format(P=P, leq=leq("at(%s, j)" % P))
ALL_DONE = ("forall_int(lambda j: implies(0 <= j and j < length({P}), not isnone(at({P}, j)._bipartition) and {leq}))").format(P=P, leq=leq("at(%s, j)" % P))

INNER = ("forall_int(lambda b: bit(leafset_bitmask, b) == exists_int(lambda k: 0 <= k and k < loop_index() and bit({bmc}, b))) and "
         "forall_ref('Bipartition', lambda x: x._leafset_bitmask == pre(x._leafset_bitmask)) and forall_ref('Edge', lambda x: x._bipartition == pre(x._bipartition))"
         ).format(bmc=bm("at(child_nodes, k)._edge"))

STRUCT_MODS = ["Node._child_nodes[*]", "Node._parent_node[*]", "Node._edge[*]", "Edge._head_node[*]", "Edge._bipartition[*]", "self.g_post", "self._seed_node",
               "Node.g_pos[*]", "Node.g_owner[*]", "Edge.g_pos[*]", "Edge.g_owner[*]"]
NO_UNIF = "forall_int(lambda j: implies(0 <= j and j < length({P}), length(at({P}, j)._head_node._child_nodes) != 1))".format(P=P)
NS_KEPT = ("self._taxon_namespace == old(self._taxon_namespace) and not isnone(self._seed_node)")

CONTRACTS = [
    Contract(TR + ":Tree.encode_bipartitions",
             types={"suppress_unifurcations": "bool", "collapse_unrooted_basal_bifurcation": "bool", "suppress_storage": "opaque",
                    "is_bipartitions_mutable": "opaque", "return": "opaque"},
             # the traversal is well formed for the tree as given; the two restructuring calls before the loop are ASSUMED to
             # leave a tree whose traversal is well formed again (and, for suppress_unifurcations, without nodes of outdegree one)
             requires="not isnone(self._seed_node) and " + WF,
             modifies=STRUCT_MODS + ["Bipartition._leafset_bitmask[*]", "Bipartition._is_rooted[*]"], frame=False,
             inline=("_get_edge", "_get_bipartition", "_set_bipartition", "_get_seed_node"),
             locals={"leafset_bitmask": "bits", "edge": "ref:Edge", "head_node": "ref:Node", "child": "ref:Node", "num_children": "int",
                     "taxon": "opt ref:Taxon"},
             loops={0: Loop(invariant=DONE + " and " + STRUCT_KEPT, after={"local-equations": DONE, "every-edge-visited": "loop_index() == length(%s)" % P}),
                    1: Loop(invariant=INNER),
                    2: Loop(invariant="True")},
             ensures={}),
]

ASSUMED = [
    Contract(TR + ":Tree.suppress_unifurcations", types={"update_bipartitions": "opaque", "return": "opaque"}, assumed=True,
             modifies=STRUCT_MODS, frame=False, ensures={"traversal-well-formed": WF, "no-outdegree-one": NO_UNIF, "namespace-kept": NS_KEPT}),
    Contract(TR + ":Tree.collapse_basal_bifurcation", types={"set_as_unrooted_tree": "opaque", "return": "opaque"}, assumed=True,
             modifies=STRUCT_MODS, frame=False, ensures={"traversal-well-formed": WF, "namespace-kept": NS_KEPT,
                                                         "no-new-outdegree-one": "implies(old(%s), %s)" % (NO_UNIF, NO_UNIF)}),
    Contract(TX + ":TaxonNamespace.taxon_bitmask", types={"taxon": "ref:Taxon", "return": "bits"}, assumed=True,
             requires="has(self._taxon_accession_index_map, taxon)", modifies=[], frame=False,
             ensures={"singleton-of-accession-index": "eq(result, singleton(get(self._taxon_accession_index_map, taxon)))"}),
    Contract(BIP + ":Bipartition.__init__", types={"**": "opaque"}, assumed=True,
             modifies=["self._leafset_bitmask", "self._is_rooted"], frame=False, ensures={}),
]


class EncExecutor(Executor3):
    lenient = True
    iter_views = {"Tree.postorder_edge_iter": "g_post"}
    globals_ = {"_bipartition": SV("module", "_bipartition")}


SUITE = Suite(SCHEMA, [TR, ND, ED, BIP, TX], CONTRACTS + ASSUMED, executor_cls=EncExecutor)


NEWICKS = ["(A,B);", "(A,B,C);", "((A,B),C);", "((A,B),(C,D));", "(A,(B,(C,D)));", "((A,B)x,C)y;", "((A,B,C),D,E);", "(((A,B),C),(D,E));",
           "((A,(B,C)),D,(E,F));", "(A,(B)u,C);"]


def _local_equation_failures(tree, ns):
    """read the masks the real encode_bipartitions left on the edges and test the local equations"""
    out = []
    for nd in tree.postorder_node_iter():
        m = nd.edge.bipartition._leafset_bitmask
        if not nd._child_nodes:
            want = ns.taxon_bitmask(nd.taxon) if nd.taxon is not None else 0
        else:
            want = 0
            for ch in nd._child_nodes:
                want |= ch.edge.bipartition._leafset_bitmask
        if m != want:
            out.append("node %s: mask %s, local equation gives %s" % (nd.taxon.label if nd.taxon is not None else nd.label or "*", bin(m), bin(want)))
    seen = {}
    for nd in tree.postorder_node_iter():
        b = nd.edge.bipartition
        if id(b) in seen:
            out.append("two edges share one Bipartition object")
        seen[id(b)] = nd
    return out


def replay_encode(ctx, suite, c, ob, witness, bv_widths):
    """native search: the real function on small trees (both rooting states, taxa on internal nodes, a unifurcation, a namespace with a
    removed first taxon), called as the contract's precondition says (no restructuring)"""
    import dendropy
    n = 0
    for nw in NEWICKS:
        for rooting in ("[&R] ", "[&U] "):
            for removed in (False, True):
                ns = dendropy.TaxonNamespace(["Z", "A", "B", "C", "D", "E", "F", "x", "y", "u"])
                if removed:
                    ns.remove_taxon(ns[0])
                tree = dendropy.Tree.get(data=rooting + nw, schema="newick", taxon_namespace=ns, suppress_internal_node_taxa=False)
                n += 1
                try:
                    tree.encode_bipartitions(suppress_unifurcations=False, collapse_unrooted_basal_bifurcation=False)
                    bad = _local_equation_failures(tree, ns)
                except Exception as e:  # noqa
                    bad = ["raised %s: %s" % (type(e).__name__, str(e)[:100])]
                if bad:
                    desc = "%s%s%s" % (rooting, nw, " (namespace without its first taxon)" if removed else "")
                    ctx.obligation(ob.name, "refuted", "z3+native-replay", ob.time_s, c.target, detail="%s -> %s" % (desc, bad[0]))
                    ctx.fail(ob.name, dict(key="encode_bipartitions|%s" % desc, tree=desc, failed=bad[:4], found_by="native search over %d small trees" % n),
                             detail="encode_bipartitions(suppress_unifurcations=False, collapse_unrooted_basal_bifurcation=False) on %s: %s" % (desc, bad[0]), kind="T1")
                    return True
    return False


def _norm(text):
    """eq(a, b) and a == b are the same clause (eq() tolerates None operands)"""
    import re
    t = re.sub(r"\s+", " ", text.strip())
    m = re.fullmatch(r"eq\((.*)\)", t)
    if m:
        depth, parts, cur = 0, [], ""
        for ch in m.group(1):
            if ch == "," and depth == 0:
                parts.append(cur.strip())
                cur = ""
                continue
            depth += ch in "([{"
            depth -= ch in ")]}"
            cur += ch
        parts.append(cur.strip())
        if len(parts) == 2:
            return "%s == %s" % tuple(parts)
    return t


def contract_reuse_obligation(ctx):
    """The loop is verified against a contract of TaxonNamespace.taxon_bitmask that is marked ASSUMED in THIS suite; it is not a new
    assumption: contracts/C10.py proves that very clause from the real body (under the namespace invariant NS, which C10 shows every
    mutator preserves).  The obligation checks that the two texts are the same clause and that the proving side asks for no more than
    NS and membership."""
    import time
    from contracts import C10
    t0 = time.time()
    mine = [c for c in ASSUMED if c.name == "TaxonNamespace.taxon_bitmask"][0]
    theirs = [c for c in C10.CONTRACTS if c.name == "TaxonNamespace.taxon_bitmask"][0]
    a = dict((k, _norm(v)) for k, v in mine.ensures_items())
    b = dict((k, _norm(v)) for k, v in theirs.ensures_items())
    same = all(k in b and b[k] == v for k, v in a.items())
    pre_ok = _norm(theirs.requires) == _norm(C10.NS + " and " + mine.requires)
    name = "TaxonNamespace.taxon_bitmask.assumed-clause-is-the-one-proved-in-C10"
    ok = same and pre_ok and not theirs.assumed
    ctx.obligation(name, "proved" if ok else "refuted", "ast-scan", time.time() - t0, mine.target,
                   detail=None if ok else "here: %r requires %r; C10: %r requires ...%r" % (a, mine.requires, b, theirs.requires[-80:]))
    if not ok:
        ctx.fail(name, dict(key="contract-reuse:taxon_bitmask", here=a, proved=b), detail="the clause assumed for taxon_bitmask is no longer the clause C10 proves",
                 kind="T1", no_input=True)


def t1(ctx):
    ctx.assume("C01/encode loop: ASSUMED traversal (postorder_edge_iter yields g_post: every edge once, children before parents -- C15) and well-formedness (C03/C11); "
               "restructuring calls before the loop and the per-edge compile phase after it are outside this obligation; the induction from the local equations "
               "to 'mask = leaves below' is lemmas/Clades.lean")
    for c in CONTRACTS:
        verify_contract(ctx, SUITE, c, sentinels=False, replay=replay_encode)
    from contracts import _wf
    _wf.validate(ctx)
    contract_reuse_obligation(ctx)
    from dpvc import lean
    hyp = "the labelling satisfies the local equations on every visited edge: Tree.encode_bipartitions.loop0.after[local-equations] (z3)"
    lean.check_lemma(ctx, "Clades.lean", ["local_equations_unique", "encodings_agree", "leaves_subset_root"],
                     hypotheses={"local_equations_unique": hyp, "encodings_agree": hyp,
                                 "leaves_subset_root": "definition of leaves; used for: masking with the tree's leaf set in the compile phase is the identity"})
