"""C20 -- the tokenizer itself, one level down: characters (T1 part, continues contracts/C20.py).

The token-level theory of C20.py ASSUMES that the tokenizer primitives return.  Here that is proved from the real bodies of
dendropy.dataio.tokenizer.Tokenizer, with the same kind of ghost state on the CHARACTER stream:

    c_pos   characters read so far        c_n   characters in the stream        _cur_char  the real field ("" once the stream is exhausted)
    INV     0 <= c_pos <= c_n  and  (_cur_char == ""  implies  c_pos == c_n)
    MEASURE (c_n - c_pos) + (0 if _cur_char == "" else 1)

  * _get_next_char is the stream's contract (ASSUMED: `src.read(1)` returns the next character, or "" for ever once exhausted);
  * _skip_to_significant_char, _handle_comment: every iteration reads a character; _handle_comment reads at least one when it is entered
    on a character;
  * __next__: both inner loops make progress, and the RECURSIVE call `self.__next__()` (a token that came out empty: only a comment was
    read) is made on a strictly smaller measure -- so the tokenizer returns or raises on every stream, whatever the delimiter sets are;
    it raises nothing but StopIteration and UnterminatedQuoteError;
  * next_token / require_next_token: return or raise UnexpectedEndOfStreamError / UnterminatedQuoteError.

Membership of a character in one of the tokenizer's character sets (`self._cur_char in self.captured_delimiters`, ...) is an
uninterpreted predicate per set: the SAME character gets the same answer within a call (the sets are not modified by these functions --
checked syntactically), nothing else is assumed about them.  That Python's recursion limit is reached first for ~1000 consecutive
comments is the recorded finding C20-comment-recursion; the obligation is about the mathematical function."""
import ast

import z3

from dpvc import frontend
from dpvc.symexec import Contract, Loop, SV, Unsupported
from dpvc.symexec2 import Executor2
from dpvc.verify import Suite, verify_contract

TK = "dendropy.dataio.tokenizer"
SETS = ("uncaptured_delimiters", "captured_delimiters", "quote_chars", "escape_chars", "comment_begin", "comment_end")

SCHEMA = {
    "Tokenizer.c_pos": "int",
    "Tokenizer.c_n": "int",
    "Tokenizer._cur_char": "opt str",
    "Tokenizer.current_token": "opt str",
}
EOS = 'eq(self._cur_char, "")'
INV = "0 <= self.c_pos and self.c_pos <= self.c_n and implies(%s, self.c_pos == self.c_n)" % EOS
MEASURE = "self.c_n - self.c_pos + ite(%s, 0, 1)" % EOS
MONO = "self.c_pos >= old(self.c_pos) and self.c_n == old(self.c_n) and implies(old(%s), %s) and (%s) <= old(%s)" % (EOS, EOS, MEASURE, MEASURE)
LMONO = "self.c_pos >= pre(self.c_pos) and self.c_n == pre(self.c_n) and implies(pre(%s), %s) and (%s) <= pre(%s)" % (EOS, EOS, MEASURE, MEASURE)
SMALLER = "(%s) < old(%s)" % (MEASURE, MEASURE)
MODS = ["self.c_pos", "self._cur_char", "self.current_token"]
FIRST_OR_SMALLER = "((%s) < pre(%s) or (self.c_pos == pre(self.c_pos) and eq(self._cur_char, pre(self._cur_char))))" % (MEASURE, MEASURE)


def insets(which, ch):
    return "inset_%s(%s)" % (which, ch)


CONTRACTS = [
    Contract(TK + ":Tokenizer._get_next_char", types={"return": "opt str"}, requires=INV, modifies=["self.c_pos", "self._cur_char"], assumed=True,
             ensures={"reads-one-character-or-stays-exhausted":
                      "ite(old(self.c_pos) < self.c_n, self.c_pos == old(self.c_pos) + 1 and not isnone(self._cur_char) and not %s, "
                      "self.c_pos == old(self.c_pos) and %s) and self.c_n == old(self.c_n) and eq(result, self._cur_char) and %s" % (EOS, EOS, INV)},
             notes="the character stream: src.read(1) hands out the next character, or '' for ever once the stream is exhausted"),
    Contract(TK + ":Tokenizer._skip_to_significant_char", types={}, requires=INV, modifies=MODS, frame=False,
             loops={0: Loop(invariant=INV + " and " + MONO + " and " + LMONO + " and not isnone(self._cur_char)", decreases=MEASURE)},
             ensures={"monotone": MONO + " and " + INV, "read-something": "not isnone(self._cur_char)",
                      "stands-on-a-significant-character": "%s or not inset_uncaptured_delimiters(self._cur_char)" % EOS},
             terminates_required=True),
    Contract(TK + ":Tokenizer._handle_comment", types={}, requires=INV + " and not isnone(self._cur_char)", modifies=MODS, frame=False,
             locals={"nesting": "int", "comment_complete": "bool"},
             loops={0: Loop(invariant=INV + " and " + MONO + " and " + LMONO + " and not isnone(self._cur_char) and implies(not pre(%s), loop_count_zero_or(%s))" % (EOS, "True"),
                            decreases=MEASURE)},
             ensures={"monotone": MONO + " and " + INV + " and not isnone(self._cur_char)", "a-comment-costs-a-character": "implies(not old(%s), %s)" % (EOS, SMALLER)},
             terminates_required=True),
    Contract(TK + ":Tokenizer.__next__", types={"return": "opt str"}, requires=INV, modifies=MODS + ["self.is_token_quoted"], frame=False,
             decreases=MEASURE, locals={"cur_quote_char": "opt str"},
             loops={0: Loop(invariant=INV + " and " + MONO + " and " + LMONO + " and not isnone(self._cur_char)", decreases=MEASURE),
                    1: Loop(invariant=INV + " and " + MONO + " and " + LMONO + " and not isnone(self._cur_char) and " + FIRST_OR_SMALLER, decreases=MEASURE)},
             ensures={"monotone": MONO + " and " + INV},
             allowed_raises=("StopIteration", "UnterminatedQuoteError"), may_raise=("StopIteration", "UnterminatedQuoteError"), terminates_required=True),
    Contract(TK + ":Tokenizer.next_token", types={"return": "opt str"}, requires=INV, modifies=MODS + ["self.is_token_quoted"], frame=False,
             ensures={"monotone": MONO + " and " + INV}, allowed_raises=("UnterminatedQuoteError",), terminates_required=True),
    Contract(TK + ":Tokenizer.require_next_token", types={"return": "opt str"}, requires=INV, modifies=MODS + ["self.is_token_quoted"], frame=False,
             ensures={"monotone": MONO + " and " + INV}, allowed_raises=("UnterminatedQuoteError", "UnexpectedEndOfStreamError"), terminates_required=True),
]


class CharExecutor(Executor2):
    lenient = True

    def _uf(self, which):
        return z3.Function("inset_" + which, z3.IntSort(), z3.BoolSort())

    def ev_Compare(self, e, st):
        # <char> in self.<one of the tokenizer's character sets>: the same character, the same answer
        if len(e.ops) == 1 and isinstance(e.ops[0], (ast.In, ast.NotIn)) and isinstance(e.comparators[0], ast.Attribute) \
                and isinstance(e.comparators[0].value, ast.Name) and e.comparators[0].value.id == "self" and e.comparators[0].attr in SETS:
            ch = self.ev(e.left, st)
            if ch.kind == "str":
                r = self._uf(e.comparators[0].attr)(ch.t)
                if ch.none is not None:
                    r = z3.And(z3.Not(ch.none), r)
                return SV("bool", z3.Not(r) if isinstance(e.ops[0], ast.NotIn) else r)
        return Executor2.ev_Compare(self, e, st)

    def ev_Call(self, e, st):
        if self.spec and isinstance(e.func, ast.Name) and e.func.id.startswith("inset_") and e.func.id[6:] in SETS:
            ch = self.ev(e.args[0], st)
            r = self._uf(e.func.id[6:])(ch.t)
            if ch.none is not None:
                r = z3.And(z3.Not(ch.none), r)
            return SV("bool", r)
        if self.spec and isinstance(e.func, ast.Name) and e.func.id == "loop_count_zero_or":
            return self.ev(e.args[0], st)
        return Executor2.ev_Call(self, e, st)


SUITE = Suite(SCHEMA, [TK], CONTRACTS, executor_cls=CharExecutor)


def sets_not_modified_obligation(ctx):
    """the character sets are read-only in the functions under contract (so that membership is a function of the character)"""
    import time
    t0 = time.time()
    m = frontend.module(TK)
    ci = m.classes["Tokenizer"]
    bad = []
    for name in ("_get_next_char", "_skip_to_significant_char", "_handle_comment", "__next__", "next_token", "require_next_token"):
        fn = ci.methods[name]
        for n in ast.walk(fn):
            if isinstance(n, ast.Attribute) and n.attr in SETS and isinstance(n.ctx, (ast.Store, ast.Del)):
                bad.append("%s line %d" % (name, n.lineno))
            if isinstance(n, ast.Call) and isinstance(n.func, ast.Attribute) and isinstance(n.func.value, ast.Attribute) and n.func.value.attr in SETS:
                bad.append("%s line %d: %s" % (name, n.lineno, ast.unparse(n)[:60]))
    nm = "Tokenizer.character-sets-read-only-while-tokenizing"
    ctx.obligation(nm, "proved" if not bad else "refuted", "ast-scan", time.time() - t0, TK + ":Tokenizer", detail=None if not bad else "; ".join(bad[:3]))
    if bad:
        ctx.fail(nm, dict(key="site:" + bad[0], sites=bad[:5]), detail="a character set is modified inside the tokenizer's reading functions: " + bad[0], kind="T1", no_input=True)


def t1(ctx):
    ctx.assume("C20/characters: the stream is ASSUMED to hand out one character per read(1) and '' for ever once exhausted (_get_next_char's contract); "
               "membership in the tokenizer's character sets is an uninterpreted predicate of the character")
    from dpvc import replay_c20
    sets_not_modified_obligation(ctx)
    for c in CONTRACTS:
        if not c.assumed:
            verify_contract(ctx, SUITE, c, sentinels=False, replay=replay_c20.replay_reader)
