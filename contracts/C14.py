"""C14 -- MRCA by leaf-set mask (T1 part: the search loop of Tree.mrca).

For a call  tree.mrca(leafset_bitmask=q, is_bipartitions_updated=True)  on a tree whose edges carry an encoding
(the local clade equations of C01, sibling masks pairwise disjoint, no empty mask), with mask(n) the leaf-set mask on
the edge of node n:

   the result is None        exactly when  q is not contained in mask(seed node)
   otherwise the result r    has  q contained in mask(r)
                             and no child c of r has q contained in mask(c)            (r is the deepest such node on its path)

i.e. the most recent common ancestor of the taxa in q, as the statement of C14 defines it.  The loop walks down with
Python iterators (`iter` / `next` / StopIteration); they are modelled as (list snapshot, position) pairs and the three
ways the loop returns are each checked against the clauses above.
ASSUMED: the encoding facts in `requires` (C01: proved for the traversal loop + Lean induction; C03 well-formedness).
Path distances, edge counts, NJ / UPGMA: bounded only."""
from dpvc.symexec import Contract, Loop, SV
from dpvc.symexec3 import Executor3
from dpvc.verify import Suite, verify_contract

TR = "dendropy.datamodel.treemodel._tree"
ND = "dendropy.datamodel.treemodel._node"
ED = "dendropy.datamodel.treemodel._edge"
BIP = "dendropy.datamodel.treemodel._bipartition"

SCHEMA = {
    "Tree._seed_node": "opt ref:Node",
    "Tree._is_rooted": "opt bool",
    "Node._child_nodes": "reflist:Node",
    "Node.g_pos": "ghost int",
    "Node.g_owner": "ghost opt ref:Node",
    "Node._edge": "opt ref:Edge",
    "Node._parent_node": "opt ref:Node",
    "Edge._bipartition": "opt ref:Bipartition",
    "Edge._head_node": "opt ref:Node",
    "Bipartition._leafset_bitmask": "bits",
}


def mask(n):
    return "%s._edge._bipartition._leafset_bitmask" % n


Q = "leafset_bitmask"
ENCODED = (
    "forall_ref('Node', lambda n: not isnone(n._edge) and not isnone(n._edge._bipartition) and listinv(n._child_nodes) and not empty({mn})) and "
    # internal nodes: the union of the children's masks
    "forall_ref('Node', lambda n: implies(length(n._child_nodes) > 0, forall_int(lambda b: bit({mn}, b) == "
    "exists_int(lambda k: 0 <= k and k < length(n._child_nodes) and bit({mc}, b))))) and "
    # siblings carry disjoint masks
    "forall_ref('Node', lambda n: forall_int(lambda i: forall_int(lambda j: implies(0 <= i and i < j and j < length(n._child_nodes), "
    "disjoint({mi}, {mj})))))").format(mn=mask("n"), mc=mask("at(n._child_nodes, k)"), mi=mask("at(n._child_nodes, i)"), mj=mask("at(n._child_nodes, j)"))

# a consequence of the three facts above (obligation `lemma[a child of a multifurcation never carries its parent's whole mask]`, proved below by z3 from
# exactly those three facts): stated here so that the solver does not have to find the sibling that witnesses it
PROPER_CHILD = ("forall_ref('Node', lambda n: forall_int(lambda k: implies(length(n._child_nodes) >= 2 and 0 <= k and k < length(n._child_nodes), "
                "not subset({mn}, {mk}))))").format(mn=mask("n"), mk=mask("at(n._child_nodes, k)"))
ENCODED = ENCODED + " and " + PROPER_CHILD

DEEPEST = ("forall_int(lambda k: implies(0 <= k and k < length(result._child_nodes), not subset({q}, {mc})))").format(q=Q, mc=mask("at(result._child_nodes, k)"))

# the search loop: last_match contains q; the iterator runs over last_match's children; every child already passed is disjoint from q;
# curr_node is the child just taken from the iterator (or last_match itself right after a descent / at the start)
SEARCH = ("not isnone(last_match) and not isnone(curr_node) and subset({q}, {ml}) and not empty({q}) and "
          "same_list(iter_list(nd_source), last_match._child_nodes) and 0 <= iter_pos(nd_source) and iter_pos(nd_source) <= length(last_match._child_nodes) and "
          "ite(iter_pos(nd_source) == 0, curr_node == last_match, curr_node == at(last_match._child_nodes, iter_pos(nd_source) - 1)) and "
          "forall_int(lambda k: implies(0 <= k and k < iter_pos(nd_source) - 1, disjoint({mk}, {q})))").format(
              q=Q, ml=mask("last_match"), mk=mask("at(last_match._child_nodes, k)"))
STEPDOWN = "not isnone(curr_node) and eq(%s, %s) and not empty(%s)" % (mask("curr_node"), Q, Q)

CONTRACTS = [
    Contract(TR + ":Tree.mrca", types={"**": "opaque", "return": "opt ref:Node"},
             kwargs={"leafset_bitmask": "bits", "is_bipartitions_updated": "bool"},
             requires="is_bipartitions_updated and not empty(%s) and not isnone(self._seed_node) and %s" % (Q, ENCODED),
             modifies=[], frame=False, allowed_raises=(),
             inline=("_get_edge", "_get_bipartition", "_get_leafset_bitmask", "_get_seed_node", "child_nodes", "num_child_nodes"),
             locals={"curr_node": "ref:Node", "last_match": "ref:Node", "start_node": "ref:Node", "cm": "bits", "cms": "bits", "leafset_bitmask": "opt bits"},
             loops={0: Loop(invariant=SEARCH), 1: Loop(invariant=STEPDOWN)},
             ensures={"none-iff-the-taxa-are-not-all-on-the-tree": "isnone(result) == (not subset(%s, %s))" % (Q, mask("self._seed_node")),
                      "contains-the-taxa": "implies(not isnone(result), subset(%s, %s))" % (Q, mask("result")),
                      "deepest": "implies(not isnone(result), %s)" % DEEPEST}),
]


class MrcaExecutor(Executor3):
    lenient = True
    globals_ = {"_bipartition": SV("module", "_bipartition")}


SUITE = Suite(SCHEMA, [TR, ND, ED, BIP], CONTRACTS, executor_cls=MrcaExecutor)


def proper_child_lemma(ctx):
    """union of the children + pairwise disjoint siblings + no empty mask  ==>  a child of a node with >= 2 children does not contain the node's mask.
    Abstractly (mask: N x Int -> Bool, child: N x Int -> N, len: N -> Int); one instantiation hint: a bit of the other child (child 1 if k = 0, else child 0)."""
    import time
    import z3
    N = z3.DeclareSort("N")
    m = z3.Function("mask", N, z3.IntSort(), z3.BoolSort())
    child = z3.Function("child", N, z3.IntSort(), N)
    ln = z3.Function("len", N, z3.IntSort())
    n, b, k, i, j = z3.Const("n", N), z3.Int("b"), z3.Int("k"), z3.Int("i"), z3.Int("j")
    H1 = z3.ForAll([n, b], z3.Implies(ln(n) > 0, m(n, b) == z3.Exists([k], z3.And(0 <= k, k < ln(n), m(child(n, k), b)))))
    H2 = z3.ForAll([n, i, j, b], z3.Implies(z3.And(0 <= i, i < j, j < ln(n)), z3.Not(z3.And(m(child(n, i), b), m(child(n, j), b)))))
    H3 = z3.ForAll([n], z3.Exists([b], m(n, b)))
    n0, k0, b1 = z3.Const("n0", N), z3.Int("k0"), z3.Int("b1")
    neg_goal = z3.And(ln(n0) >= 2, 0 <= k0, k0 < ln(n0), z3.ForAll([b], z3.Implies(m(n0, b), m(child(n0, k0), b))))
    j0 = z3.If(k0 == 0, 1, 0)
    s = z3.Solver()
    s.set("timeout", 30000)
    s.add(H1, H2, H3, neg_goal)
    s.add(z3.Implies(z3.Exists([b], m(child(n0, j0), b)), m(child(n0, j0), b1)))   # b1 names a bit of the other child (Skolem constant)
    t0 = time.time()
    r = s.check()
    name = "lemma[a child of a multifurcation never carries its parent's whole mask]"
    if r == z3.unsat:
        ctx.obligation(name, "proved", "z3", time.time() - t0, TR + ":Tree.mrca")
    else:
        ctx.obligation(name, "unproved", "z3", time.time() - t0, TR + ":Tree.mrca", detail=str(r))
        ctx.undecided_ob(name, str(r))


def replay_mrca(ctx, suite, c, ob, witness, bv_widths):
    """native search: every non-empty set of leaf bits (and one foreign bit) on small trees incl. unifurcations and taxa on internal nodes"""
    import itertools
    import dendropy
    from contracts import _wf
    n = 0
    for nw in _wf.NEWICKS:
        for rooting in ("[&R] ", "[&U] "):
            tree = dendropy.Tree.get(data=rooting + nw, schema="newick", suppress_internal_node_taxa=True)
            tree.encode_bipartitions(suppress_unifurcations=False, collapse_unrooted_basal_bifurcation=False)
            ns = tree.taxon_namespace
            bits = [ns.taxon_bitmask(t) for t in ns] + [1 << (len(ns) + 1)]
            top = tree.seed_node.edge.bipartition._leafset_bitmask
            for r in range(1, len(bits) + 1):
                for combo in itertools.combinations(bits, r):
                    q = 0
                    for x in combo:
                        q |= x
                    n += 1
                    desc = "%s%s q=%s" % (rooting, nw, bin(q))
                    bad = []
                    try:
                        res = tree.mrca(leafset_bitmask=q, is_bipartitions_updated=True)
                        if (res is None) != ((q & top) != q):
                            bad.append("returned %r although q %s contained in the root's mask %s" % (res, "is" if (q & top) == q else "is not", bin(top)))
                        elif res is not None:
                            m = res.edge.bipartition._leafset_bitmask
                            if (m & q) != q:
                                bad.append("the returned node's mask %s does not contain q" % bin(m))
                            for ch in res._child_nodes:
                                if (ch.edge.bipartition._leafset_bitmask & q) == q:
                                    bad.append("a child of the returned node (mask %s) still contains q" % bin(ch.edge.bipartition._leafset_bitmask))
                    except Exception as e:  # noqa
                        bad.append("raised %s: %s" % (type(e).__name__, str(e)[:80]))
                    if bad:
                        ctx.obligation(ob.name, "refuted", "z3+native-replay", ob.time_s, c.target, detail="%s -> %s" % (desc, bad[0]))
                        ctx.fail(ob.name, dict(key="mrca|%s" % desc, tree=rooting + nw, q=bin(q), failed=bad[:3], found_by="native search over %d cases" % n),
                                 detail="mrca(leafset_bitmask=%s) on %s%s: %s" % (bin(q), rooting, nw, bad[0]), kind="T1")
                        return True
    return False


def validate_assumed(ctx):
    """the encoding facts in `requires`, read off real trees after encode_bipartitions (bounded)"""
    import dendropy
    from contracts import _wf
    scope = "assumed-contracts@encoding-facts"
    ctx.scope(scope, rule="after encode_bipartitions on %d small trees x {rooted, unrooted} whose leaves all carry taxa: every mask non-empty, an internal mask is the "
                          "union of its children's, sibling masks pairwise disjoint" % len(_wf.NEWICKS), exhaustive=False)
    for nw in _wf.NEWICKS:
        for rooting in ("[&R] ", "[&U] "):
            tree = dendropy.Tree.get(data=rooting + nw, schema="newick", suppress_internal_node_taxa=True)
            tree.encode_bipartitions()
            key = rooting + nw
            bad = []
            for nd in tree.postorder_node_iter():
                m = nd.edge.bipartition._leafset_bitmask
                ch = [c.edge.bipartition._leafset_bitmask for c in nd._child_nodes]
                if m == 0:
                    bad.append("an empty mask")
                if ch:
                    u = 0
                    for x in ch:
                        if u & x:
                            bad.append("sibling masks overlap")
                        u |= x
                    if u != m:
                        bad.append("an internal mask is not the union of its children's")
            ctx.case(scope, key, nontrivial=nw.count(",") >= 1, sample=key)
            for b in bad[:1]:
                ctx.fail("assumed-encoding.%s" % b.replace(" ", "-"), dict(key=key, failed=bad[:3]), detail="%s: %s" % (key, b), kind="T2")


def t1(ctx):
    ctx.assume("C14/T1: Tree.mrca is verified for calls mrca(leafset_bitmask=q, is_bipartitions_updated=True) on an encoded tree (requires: the local clade equations, "
               "disjoint sibling masks, no empty mask -- C01 / C03); the `taxa=` / `taxon_labels=` call shapes reduce to this one through taxa_bitmask (C10) and are bounded here")
    proper_child_lemma(ctx)
    for c in CONTRACTS:
        verify_contract(ctx, SUITE, c, sentinels=False, replay=replay_mrca)
    validate_assumed(ctx)
    # patristic_distance(tree, t1, t2, is_bipartitions_updated) hands the caller's flag to Tree.mrca unchanged
    from dpvc import forwarding
    forwarding.obligations(ctx, "is_bipartitions_updated", lambda mn: mn == "dendropy.calculate.treemeasure", "flag-reaches", exact=True)
    # the distance matrix: which distance (edge counts or summed lengths) and whether it is divided by the tree size is the caller's choice at every
    # level -- each function hands both flags to the one it delegates to
    for flag in ("is_weighted_edge_distances", "is_normalize_by_tree_size"):
        forwarding.obligations(ctx, flag, lambda mn: mn == "dendropy.calculate.phylogeneticdistance", "option-reaches[%s]" % flag, exact=True,
                               native=native_distance_options_ignored)


def native_distance_options_ignored(modname=None, qual=None):
    """summaries of the distance matrix under the four settings of (weighted, normalised) against the same summary computed from distance()"""
    import itertools
    import dendropy
    t = dendropy.Tree.get(data="((A:1,B:2):1.5,(C:0.5,(D:2,E:3):1):2);", schema="newick")
    pdm = t.phylogenetic_distance_matrix()
    taxa = list(t.taxon_namespace)
    for w, nrm in itertools.product((True, False), repeat=2):
        pairs = [pdm.distance(a, b, is_weighted_edge_distances=w, is_normalize_by_tree_size=nrm) for a, b in itertools.combinations(taxa, 2)]
        want_mpd = sum(pairs) / len(pairs)
        got = pdm.mean_pairwise_distance(is_weighted_edge_distances=w, is_normalize_by_tree_size=nrm)
        if abs(got - want_mpd) > 1e-9:
            return dict(key="mpd|%r|%r" % (w, nrm), outcome="mean_pairwise_distance(is_weighted_edge_distances=%r, is_normalize_by_tree_size=%r) = %r; "
                                                             "the mean of distance() over all pairs under the same settings is %r" % (w, nrm, got, want_mpd))
        nn = []
        for a in taxa:
            nn.append(min(pdm.distance(a, b, is_weighted_edge_distances=w, is_normalize_by_tree_size=nrm) for b in taxa if b is not a))
        want_mntd = sum(nn) / len(nn)
        got = pdm.mean_nearest_taxon_distance(is_weighted_edge_distances=w, is_normalize_by_tree_size=nrm)
        if abs(got - want_mntd) > 1e-9:
            return dict(key="mntd|%r|%r" % (w, nrm), outcome="mean_nearest_taxon_distance(is_weighted_edge_distances=%r, is_normalize_by_tree_size=%r) = %r; "
                                                              "from distance() under the same settings %r" % (w, nrm, got, want_mntd))
    return None


def replay(ctx, rec):
    """re-run the recorded call natively"""
    import dendropy
    w = rec.get("witness", {})
    if "tree" not in w:
        print("no input recorded for this obligation")
        return True
    tree = dendropy.Tree.get(data=w["tree"], schema="newick", suppress_internal_node_taxa=True)
    tree.encode_bipartitions(suppress_unifurcations=False, collapse_unrooted_basal_bifurcation=False)
    q = int(w["q"], 2)
    res = tree.mrca(leafset_bitmask=q, is_bipartitions_updated=True)
    top = tree.seed_node.edge.bipartition._leafset_bitmask
    ok = (res is None) == ((q & top) != q)
    if res is not None:
        ok = ok and (res.edge.bipartition._leafset_bitmask & q) == q and not any((ch.edge.bipartition._leafset_bitmask & q) == q for ch in res._child_nodes)
    print("mrca(leafset_bitmask=%s) on %s -> %r: %s" % (w["q"], w["tree"], res, "as specified" if ok else "violates the contract"))
    return ok
