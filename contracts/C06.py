"""C06 -- tree-sample summaries independent of partitioning/order (T1 part).

Data-structure invariant of TreeArray: the four parallel per-tree lists
(_tree_split_bitmasks, _tree_edge_lengths, _tree_leafset_bitmasks,
_tree_weights) are equally long (every per-tree query asserts or relies on
it).  Lists are modelled by their LENGTH only (contents abstracted; lenient
mode), which is exactly what the alignment invariant needs.
Contracts: every mutator (add_tree / append / insert / update / extend /
__iadd__) preserves ALIGNED and grows all four lists by the stated amount, and
`update` never refuses arrays that are compatible in the property's sense
(equal settings; equal rooting, or `other` empty with undefined rooting -- the
idle-worker case of SumTrees -- or `self` empty)."""
from dpvc.symexec import Contract, Loop
from dpvc.symexec2 import Executor2
from dpvc.verify import Suite, verify_contract
from dpvc import lean
from dpvc import replay as dreplay

TC = "dendropy.datamodel.treecollectionmodel"

SCHEMA = {
    "TreeArray._tree_split_bitmasks": "lenlist",
    "TreeArray._tree_edge_lengths": "lenlist",
    "TreeArray._tree_leafset_bitmasks": "lenlist",
    "TreeArray._tree_weights": "lenlist",
    "TreeArray._is_rooted_trees": "opt bool",
    "TreeArray.ignore_edge_lengths": "opt bool",
    "TreeArray.ignore_node_ages": "opt bool",
    "TreeArray.use_tree_weights": "opt bool",
    "TreeArray._split_distribution": "ref:SplitDistribution",
    "TreeArray.taxon_namespace": "ref:TaxonNamespace",
    "Tree.taxon_namespace": "ref:TaxonNamespace",
    "Tree._is_rooted": "opt bool",
    # the summary itself: per-split weighted counts and the two totals (contracts/C05.py)
    "SplitDistribution.split_counts": "map:int:real default=0.0",
    "SplitDistribution.total_trees_counted": "int",
    "SplitDistribution.sum_of_tree_weights": "real",
    "SplitDistribution._trees_counted_for_summaries": "int",
    "SplitDistribution.use_tree_weights": "opt bool",
}


def aligned(x):
    return ("len({x}._tree_split_bitmasks) == len({x}._tree_edge_lengths) and len({x}._tree_split_bitmasks) == len({x}._tree_leafset_bitmasks) "
            "and len({x}._tree_split_bitmasks) == len({x}._tree_weights) and len({x}._tree_split_bitmasks) >= 0").format(x=x)


def grown(x, by):
    return " and ".join("len({x}.{f}) == old(len({x}.{f})) + {by}".format(x=x, f=f, by=by) for f in
                        ("_tree_split_bitmasks", "_tree_edge_lengths", "_tree_leafset_bitmasks", "_tree_weights"))


LISTS = ["self._tree_split_bitmasks", "self._tree_edge_lengths", "self._tree_leafset_bitmasks", "self._tree_weights"]
SETTINGS_EQ = ("self.ignore_edge_lengths is other.ignore_edge_lengths and self.ignore_node_ages is other.ignore_node_ages "
               "and self.use_tree_weights is other.use_tree_weights")
COMPATIBLE = ("(" + SETTINGS_EQ + ") and (self._is_rooted_trees is other._is_rooted_trees "
              "or (len(other._tree_split_bitmasks) == 0 and isnone(other._is_rooted_trees)) or len(self._tree_split_bitmasks) == 0)")

# (the receiver's OWN distribution: every other distribution -- the argument's in particular -- keeps its counts, which callers such as
# __add__, that merge twice, rely on)
SD_MODS = ["self._split_distribution.split_counts", "self._split_distribution.total_trees_counted", "self._split_distribution.sum_of_tree_weights",
           "self._split_distribution._trees_counted_for_summaries", "self._split_distribution.use_tree_weights"]


def _cnt(x, k):
    return "ite(has({x}.split_counts, {k}), get({x}.split_counts, {k}), 0.0)".format(x=x, k=k)


ARG_KEPT = ("forall_int(lambda s: has({o}._split_distribution.split_counts, s) == old(has({o}._split_distribution.split_counts, s)) and "
            "get({o}._split_distribution.split_counts, s) == old(get({o}._split_distribution.split_counts, s))) and "
            "{o}._split_distribution.total_trees_counted == old({o}._split_distribution.total_trees_counted) and "
            "{o}._split_distribution.sum_of_tree_weights == old({o}._split_distribution.sum_of_tree_weights)")

ALLOWED_ADD = ("TaxonNamespaceIdentityError", "MixedRootingError", "*")

CONTRACTS = [
    Contract(TC + ":TreeArray.update", types={"other": "ref:TreeArray"},
             requires=aligned("self") + " and " + aligned("other") + " and self != other and " + COMPATIBLE +
                      # every TreeArray owns its SplitDistribution (set once in __init__)
                      " and self._split_distribution != other._split_distribution",
             modifies=LISTS + ["self._is_rooted_trees", "self.ignore_edge_lengths", "self.ignore_node_ages", "self.use_tree_weights"] + SD_MODS +
                      ["other._split_distribution.split_counts"],
             inline=("__len__",), frame=False,
             ensures={"aligned": aligned("self"),
                      "argument-summary-untouched": ARG_KEPT.format(o="other"),
                      "concatenated": grown("self", "len(other._tree_split_bitmasks)"),
                      "other-unchanged": aligned("other") + " and len(other._tree_split_bitmasks) == old(len(other._tree_split_bitmasks))",
                      # the abstract view of the sample (Merge.lean): componentwise addition
                      "summary-merged[counts]": "forall_int(lambda s: {now} == old({now}) + old({oth}))".format(
                          now=_cnt("self._split_distribution", "s"), oth=_cnt("other._split_distribution", "s")),
                      "summary-merged[trees]": "self._split_distribution.total_trees_counted == old(self._split_distribution.total_trees_counted) "
                                               "+ old(other._split_distribution.total_trees_counted)",
                      "summary-merged[weights]": "self._split_distribution.sum_of_tree_weights == old(self._split_distribution.sum_of_tree_weights) "
                                                 "+ old(other._split_distribution.sum_of_tree_weights)"}),
    Contract(TC + ":TreeArray.extend", types={"tree_array": "ref:TreeArray", "return": "ref:TreeArray"},
             requires=aligned("self") + " and " + aligned("tree_array") + " and self != tree_array and self.taxon_namespace == tree_array.taxon_namespace "
                      "and self.ignore_edge_lengths is tree_array.ignore_edge_lengths "
                      "and self.ignore_node_ages is tree_array.ignore_node_ages and self.use_tree_weights is tree_array.use_tree_weights "
                      # compatible rooting in the property's sense: equal, or one side is empty with undefined rooting
                      "and (self._is_rooted_trees is tree_array._is_rooted_trees "
                      "or (len(tree_array._tree_split_bitmasks) == 0 and isnone(tree_array._is_rooted_trees)) "
                      "or (len(self._tree_split_bitmasks) == 0 and isnone(self._is_rooted_trees))) "
                      "and self._split_distribution != tree_array._split_distribution",
             modifies=LISTS + ["self._is_rooted_trees"] + SD_MODS + ["tree_array._split_distribution.split_counts"], frame=False, inline=("__len__",),
             ensures={"aligned": aligned("self"), "concatenated": grown("self", "len(tree_array._tree_split_bitmasks)"), "returns-self": "result == self",
                      "argument-summary-untouched": ARG_KEPT.format(o="tree_array"),
                      "summary-merged[counts]": "forall_int(lambda s: {now} == old({now}) + old({oth}))".format(
                          now=_cnt("self._split_distribution", "s"), oth=_cnt("tree_array._split_distribution", "s")),
                      "summary-merged[trees]": "self._split_distribution.total_trees_counted == old(self._split_distribution.total_trees_counted) "
                                               "+ old(tree_array._split_distribution.total_trees_counted)",
                      "summary-merged[weights]": "self._split_distribution.sum_of_tree_weights == old(self._split_distribution.sum_of_tree_weights) "
                                                 "+ old(tree_array._split_distribution.sum_of_tree_weights)",
                      "rooting": "ite(old(len(self._tree_split_bitmasks)) == 0 and isnone(old(self._is_rooted_trees)), "
                                 "self._is_rooted_trees is tree_array._is_rooted_trees, self._is_rooted_trees is old(self._is_rooted_trees))"}),
    Contract(TC + ":TreeArray.__iadd__", types={"tree_array": "ref:TreeArray", "return": "ref:TreeArray"},
             requires=aligned("self") + " and " + aligned("tree_array") + " and self != tree_array and self.taxon_namespace == tree_array.taxon_namespace "
                      "and self.ignore_edge_lengths is tree_array.ignore_edge_lengths "
                      "and self.ignore_node_ages is tree_array.ignore_node_ages and self.use_tree_weights is tree_array.use_tree_weights "
                      # compatible rooting in the property's sense: equal, or one side is empty with undefined rooting
                      "and (self._is_rooted_trees is tree_array._is_rooted_trees "
                      "or (len(tree_array._tree_split_bitmasks) == 0 and isnone(tree_array._is_rooted_trees)) "
                      "or (len(self._tree_split_bitmasks) == 0 and isnone(self._is_rooted_trees))) "
                      "and self._split_distribution != tree_array._split_distribution",
             modifies=LISTS + ["self._is_rooted_trees"] + SD_MODS + ["tree_array._split_distribution.split_counts"], frame=False, inline=("__len__",),
             ensures={"aligned": aligned("self"), "concatenated": grown("self", "len(tree_array._tree_split_bitmasks)"), "returns-self": "result == self",
                      "argument-summary-untouched": ARG_KEPT.format(o="tree_array"),
                      "summary-merged[counts]": "forall_int(lambda s: {now} == old({now}) + old({oth}))".format(
                          now=_cnt("self._split_distribution", "s"), oth=_cnt("tree_array._split_distribution", "s")),
                      "summary-merged[trees]": "self._split_distribution.total_trees_counted == old(self._split_distribution.total_trees_counted) "
                                               "+ old(tree_array._split_distribution.total_trees_counted)",
                      "summary-merged[weights]": "self._split_distribution.sum_of_tree_weights == old(self._split_distribution.sum_of_tree_weights) "
                                                 "+ old(tree_array._split_distribution.sum_of_tree_weights)",
                      "rooting": "ite(old(len(self._tree_split_bitmasks)) == 0 and isnone(old(self._is_rooted_trees)), "
                                 "self._is_rooted_trees is tree_array._is_rooted_trees, self._is_rooted_trees is old(self._is_rooted_trees))"}),
    Contract(TC + ":TreeArray.add_tree", types={"tree": "ref:Tree", "is_bipartitions_updated": "opaque", "index": "opt int", "return": "opaque"},
             requires=aligned("self"), modifies=LISTS + ["self._is_rooted_trees"], frame=False, allowed_raises=ALLOWED_ADD,
             inline=("validate_rooting",),
             ensures={"aligned": aligned("self"), "one-more": grown("self", "1")}),
    Contract(TC + ":TreeArray.append", types={"tree": "ref:Tree", "is_bipartitions_updated": "opaque", "return": "opaque"},
             requires=aligned("self"), modifies=LISTS + ["self._is_rooted_trees"], frame=False, allowed_raises=ALLOWED_ADD,
             ensures={"aligned": aligned("self"), "one-more": grown("self", "1")}),
    Contract(TC + ":TreeArray.insert", types={"index": "int", "tree": "ref:Tree", "is_bipartitions_updated": "opaque", "return": "opaque"},
             requires=aligned("self"), modifies=LISTS + ["self._is_rooted_trees"], frame=False, allowed_raises=ALLOWED_ADD,
             ensures={"aligned": aligned("self"), "one-more": grown("self", "1")}),
    Contract(TC + ":TreeArray.validate_rooting", types={"rooting_of_other": "opt bool"},
             requires="True", modifies=["self._is_rooted_trees"], frame=False,
             raises={"MixedRootingError": "not isnone(self._is_rooted_trees) and not eq(self._is_rooted_trees, rooting_of_other)"},
             ensures={"adopts": "implies(isnone(old(self._is_rooted_trees)), eq(self._is_rooted_trees, rooting_of_other))",
                      "keeps": "implies(not isnone(old(self._is_rooted_trees)), eq(self._is_rooted_trees, old(self._is_rooted_trees)))"}),
]


# ---- a + b: a NEW collection (TreeArray.__init__: ASSUMED allocation contract -- an empty collection with the settings given and a
# distribution of its own), into which both operands are merged; the operands keep their trees and their summaries
def lens_eq(x, expr):
    return " and ".join("len({x}.{f}) == {e}".format(x=x, f=f, e=expr) for f in ("_tree_split_bitmasks", "_tree_edge_lengths", "_tree_leafset_bitmasks", "_tree_weights"))
TA_INIT = Contract(TC + ":TreeArray.__init__", types={"taxon_namespace": "ref:TaxonNamespace", "is_rooted_trees": "opt bool", "ignore_edge_lengths": "opt bool", "ignore_node_ages": "opt bool",
                                                    "use_tree_weights": "opt bool", "ultrametricity_precision": "opaque", "is_force_max_age": "opaque", "is_force_min_age": "opaque",
                                                    "taxon_label_age_map": "opaque", "is_bipartitions_mutable": "opaque"},
                requires="True", assumed=True, frame=False,
                modifies=["self._tree_split_bitmasks", "self._tree_edge_lengths", "self._tree_leafset_bitmasks", "self._tree_weights", "self._is_rooted_trees",
                          "self.ignore_edge_lengths", "self.ignore_node_ages", "self.use_tree_weights", "self._split_distribution", "self.taxon_namespace"] + SD_MODS,
                ensures={"an-empty-collection-with-the-settings-given": lens_eq("self", "0") + " and self.taxon_namespace == taxon_namespace and self._is_rooted_trees is is_rooted_trees "
                         "and self.ignore_edge_lengths is ignore_edge_lengths and self.ignore_node_ages is ignore_node_ages and self.use_tree_weights is use_tree_weights",
                         "its-own-empty-distribution": "not isnone(self._split_distribution) and forall_ref('TreeArray', lambda a: implies(a != self, a._split_distribution != self._split_distribution)) and "
                                                       "forall_int(lambda s: not has(self._split_distribution.split_counts, s)) and self._split_distribution.total_trees_counted == 0 "
                                                       "and self._split_distribution.sum_of_tree_weights == 0.0",
                         "others-untouched": "forall_ref('TreeArray', lambda a: implies(a != self, " + lens_eq("a", "old(len(a._tree_split_bitmasks))").replace("old(len(a._tree_split_bitmasks))", "old(len(a._tree_split_bitmasks))") + "))"})
COMPAT = ("self != other and self.taxon_namespace == other.taxon_namespace and self.ignore_edge_lengths is other.ignore_edge_lengths and self.ignore_node_ages is other.ignore_node_ages "
          "and self.use_tree_weights is other.use_tree_weights and (self._is_rooted_trees is other._is_rooted_trees or (len(other._tree_split_bitmasks) == 0 and isnone(other._is_rooted_trees))) "
          "and self._split_distribution != other._split_distribution and not isnone(self._split_distribution) and not isnone(other._split_distribution)")
TA_ADD = Contract(TC + ":TreeArray.__add__", types={"other": "ref:TreeArray", "return": "ref:TreeArray"},
               requires=aligned("self") + " and " + aligned("other") + " and " + COMPAT,
               modifies=["TreeArray._tree_split_bitmasks[*]", "TreeArray._tree_edge_lengths[*]", "TreeArray._tree_leafset_bitmasks[*]", "TreeArray._tree_weights[*]",
                         "TreeArray._is_rooted_trees[*]", "TreeArray._split_distribution[*]", "TreeArray.taxon_namespace[*]", "TreeArray.ignore_edge_lengths[*]",
                         "TreeArray.ignore_node_ages[*]", "TreeArray.use_tree_weights[*]"] + SD_MODS, frame=False,
               ensures={"a-new-collection": "result != self and result != other",
                        "aligned": aligned("result"),
                        "concatenated": lens_eq("result", "old(len(self._tree_split_bitmasks)) + old(len(other._tree_split_bitmasks))"),
                        "operands-keep-their-trees": lens_eq("self", "old(len(self._tree_split_bitmasks))") + " and " + lens_eq("other", "old(len(other._tree_split_bitmasks))"),
                        "summary-merged[counts]": "forall_int(lambda s: {r} == old({a}) + old({b}))".format(r=_cnt("result._split_distribution", "s"), a=_cnt("self._split_distribution", "s"), b=_cnt("other._split_distribution", "s")),
                        "summary-merged[trees]": "result._split_distribution.total_trees_counted == old(self._split_distribution.total_trees_counted) + old(other._split_distribution.total_trees_counted)"})


class TAExecutor(Executor2):
    lenient = True


def _sd_update():
    """C05's contract of SplitDistribution.update, the accumulator part (counts and totals): the summary-table cache protocol that C05 also
    proves of it is about fields this suite does not model"""
    import copy
    from contracts import C05
    out = []
    for c in C05.CONTRACTS:
        if c.name == "SplitDistribution.update":
            c2 = copy.copy(c)
            c2.requires = getattr(c, "requires_core", c.requires)
            c2.modifies = list(getattr(c, "modifies_core", c.modifies))
            c2.ensures = dict((k, v) for k, v in c.ensures_items() if k != "summary-cache-protocol")
            out.append(c2)
    return out


SD_UPDATE = _sd_update()
SUITE = Suite(SCHEMA, [TC, "dendropy.datamodel.treemodel._tree"], CONTRACTS + SD_UPDATE + [TA_INIT, TA_ADD], executor_cls=TAExecutor)


# ----------------------------------------------------------------------------- representation ownership (syntactic)
LIST_FIELDS = ("_tree_split_bitmasks", "_tree_edge_lengths", "_tree_leafset_bitmasks", "_tree_weights")
_COPYING = ("len", "zip", "enumerate", "list", "tuple", "sorted", "iter", "reversed", "sum", "max", "min", "any", "all", "set", "frozenset")


def _fresh_list(e):
    import ast
    return (isinstance(e, (ast.List, ast.ListComp)) or
            (isinstance(e, ast.Call) and isinstance(e.func, ast.Name) and e.func.id in ("list", "sorted")))


def ownership_obligations(ctx):
    """Every TreeArray owns its four per-tree lists: in the real source of class TreeArray a list field is only ever
    assigned a fresh list, and a list field of ANY object is only used where its elements are read (receiver of a
    method call, subscript, argument of extend()/len()/zip()/..., iterable, operand of `in`/comparison) -- so no two
    collections share a list object, and growing one never grows another (the length model of the contracts above
    relies on it)."""
    import ast, time
    from dpvc import frontend
    t0 = time.time()
    m = frontend.module(TC)
    cls = [n for n in m.tree.body if isinstance(n, ast.ClassDef) and n.name == "TreeArray"][0]
    parents = {}
    for n in ast.walk(cls):
        for ch in ast.iter_child_nodes(n):
            parents[ch] = n
    bad = []
    count = 0
    for n in ast.walk(cls):
        if not (isinstance(n, ast.Attribute) and n.attr in LIST_FIELDS):
            continue
        count += 1
        p = parents.get(n)
        ok = False
        if isinstance(n.ctx, ast.Store):
            # target of an assignment: the value must be a fresh list
            if isinstance(p, ast.Assign) and len(p.targets) == 1 and _fresh_list(p.value):
                ok = True
            elif isinstance(p, ast.Tuple) and isinstance(parents.get(p), ast.Assign) and isinstance(parents[p].value, ast.Tuple) \
                    and len(parents[p].value.elts) == len(p.elts) and _fresh_list(parents[p].value.elts[p.elts.index(n)]):
                ok = True
        elif isinstance(n.ctx, ast.Del):
            ok = True
        elif isinstance(p, ast.Attribute) and p.value is n:      # X.F.method / attribute of the list
            ok = True
        elif isinstance(p, ast.Subscript) and p.value is n:      # X.F[...]
            ok = True
        elif isinstance(p, ast.Call) and n in p.args and isinstance(p.func, ast.Name) and p.func.id in _COPYING:
            ok = True
        elif isinstance(p, ast.Call) and n in p.args and isinstance(p.func, ast.Attribute) and p.func.attr == "extend" \
                and isinstance(p.func.value, ast.Attribute) and p.func.value.attr in LIST_FIELDS:
            ok = True                                            # other list .extend(X.F): copies the elements
        elif isinstance(p, (ast.For, ast.comprehension)) and p.iter is n:
            ok = True
        elif isinstance(p, ast.Compare):
            ok = True
        elif isinstance(p, (ast.If, ast.While, ast.BoolOp, ast.UnaryOp, ast.Assert, ast.IfExp)) and not (isinstance(p, ast.IfExp) and p.test is not n):
            ok = True                                            # truth value only
        if not ok:
            bad.append("line %d: %s" % (n.lineno, ast.unparse(p if p is not None else n)[:120]))
    name = "TreeArray.owns-its-per-tree-lists"
    if count == 0:
        ctx.obligation(name, "error", "effects", time.time() - t0, TC + ":TreeArray", detail="no use of the list fields found in class TreeArray")
        ctx.checker_failure("C06 ownership: no use of the per-tree list fields found")
        return
    ctx.obligation(name, "proved" if not bad else "refuted", "effects", time.time() - t0, TC + ":TreeArray",
                   detail=None if not bad else "; ".join(bad[:4]))
    if bad:
        w = _alias_witness()
        if w:
            ctx.fail(name, dict(key="TreeArray.alias|" + w[0], history=w[0], outcome=w[1], sites=bad[:6], replay_kind="alias"),
                     detail="%s: %s (list field used outside an element-reading position at %s)" % (w[0], w[1], bad[0]), kind="T1")
        else:
            ctx.fail(name, dict(key="site:" + bad[0], sites=bad[:6], native="no two collections sharing a list found by the native search"),
                     detail="a per-tree list may escape or be adopted: " + bad[0], kind="T1", no_input=True)


def _alias_witness():
    """native search: two distinct TreeArrays that share a per-tree list object after some public operation"""
    import dendropy
    from dpvc import replay_c06
    ns = dendropy.TaxonNamespace(["A", "B", "C", "D"])
    st = (True, True, True)

    def shared(arrs):
        for i, (na, a) in enumerate(arrs):
            for nb, b in arrs[i + 1:]:
                if a is b:
                    continue
                for f in LIST_FIELDS:
                    if getattr(a, f) is getattr(b, f):
                        return "%s and %s share one %s list" % (na, nb, f)
        return None
    for n0, n1 in ((0, 1), (0, 0), (1, 1), (1, 0), (0, 2), (2, 1)):
        for op in ("update", "extend", "iadd", "add", "radd"):
            a = replay_c06._mk(n0, True, True, st, ns)
            b = replay_c06._mk(n1, True, True, st, ns)
            arrs = [("self", a), ("other", b)]
            try:
                if op == "update":
                    a.update(b)
                elif op == "extend":
                    a.extend(b)
                elif op == "iadd":
                    a += b
                elif op == "add":
                    arrs.append(("self + other", a + b))
                else:
                    arrs.append(("other + self", b + a))
            except Exception:
                continue
            r = shared(arrs)
            if r:
                return ("self with %d tree(s), other with %d, %s" % (n0, n1, op), r)
    return None


def queue_protocol_obligations(ctx):
    """multiprocessing.Queue is an external dependency whose documented contract says that get_nowait() / empty() may
    report an empty queue while items put on it are still in transit.  A worker must therefore not take 'empty' for
    'no work left': the real source of dendropy.application.sumtrees polls no queue (get_nowait, empty, get(False))."""
    import ast, time
    from dpvc import frontend
    t0 = time.time()
    mn = "dendropy.application.sumtrees"
    m = frontend.module(mn)
    bad, gets = [], 0
    for n in ast.walk(m.tree):
        if not (isinstance(n, ast.Call) and isinstance(n.func, ast.Attribute)):
            continue
        recv = ast.unparse(n.func.value)
        if "queue" not in recv.lower():
            continue
        if n.func.attr == "get":
            gets += 1
            nonblocking = (n.args and isinstance(n.args[0], ast.Constant) and n.args[0].value is False) or \
                any(k.arg == "block" and isinstance(k.value, ast.Constant) and k.value.value is False for k in n.keywords) or \
                any(k.arg == "timeout" for k in n.keywords) or len(n.args) > 1
            if nonblocking:
                bad.append("line %d: %s" % (n.lineno, ast.unparse(n)))
        elif n.func.attr in ("get_nowait", "empty", "qsize", "full"):
            bad.append("line %d: %s" % (n.lineno, ast.unparse(n)))
    name = "sumtrees.end-of-work-not-inferred-from-an-empty-queue"
    if gets == 0 and not bad:
        ctx.obligation(name, "error", "effects", time.time() - t0, mn, detail="no queue read found in sumtrees")
        ctx.checker_failure("C06 queue protocol: no queue read found")
        return
    ctx.obligation(name, "proved" if not bad else "refuted", "effects", time.time() - t0, mn, detail=None if not bad else "; ".join(bad[:4]))
    if bad:
        w = None
        try:
            from bounded import C06 as B
            case = dict(what="sumtrees-sched", rooted=True, pool="plain", weights="none", settings={}, files=[[0, 1], [2], [3, 4]], annotated=True,
                        force=None, nproc=2, assign=[0, 1, 0], arrival=[0, 1], log_frequency=0, tree_offset=0, lag=True)
            fails = B._sumtrees_sched(case)
            if fails:
                w = (case, fails[0])
        except Exception as e:  # noqa
            w = None
        if w:
            ctx.fail(name, dict(key="sumtrees-sched|lag|" + bad[0], case=w[0], outcome=list(w[1]), sites=bad[:4], replay_kind="queue"),
                     detail="2 workers whose first poll finds the queue (still) empty: %s: %s (%s)" % (w[1][0], w[1][1], bad[0]), kind="T1")
        else:
            ctx.fail(name, dict(key="site:" + bad[0], sites=bad[:4]), detail="a queue is polled: " + bad[0], kind="T1", no_input=True)


def t1(ctx):
    ownership_obligations(ctx)
    queue_protocol_obligations(ctx)
    ctx.assume("C06/T1: Python lists of TreeArray are modelled by their length only (contents abstracted); SplitDistribution.update / "
               "count_splits_on_tree are abstracted calls (their arithmetic is C05); that no two collections share a list object is the syntactic "
               "obligation TreeArray.owns-its-per-tree-lists; OS scheduling is out of reach and multiprocessing.Queue is ASSUMED to its documented contract "
               "(blocking get() delivers every item of one producer once and in order; polls may report empty spuriously -- hence the obligation "
               "sumtrees.end-of-work-not-inferred-from-an-empty-queue); the schedule is an arbitrary arrival order of update() calls, which is what "
               "the update contract quantifies over")
    from dpvc import replay_c06
    for c in CONTRACTS + [TA_ADD]:
        verify_contract(ctx, SUITE, c, sentinels=False, replay=replay_c06.replay_treearray)
    validate_constructor_natively(ctx)
    # every setting under which node ages are computed (forcing option, tip ages) is handed on wherever a collection builds another one -- from a
    # list, as a sum a + b -- and down to the distribution that ages the trees
    from dpvc import forwarding
    for opt in ("is_force_max_age", "taxon_label_age_map"):
        forwarding.obligations(ctx, opt, lambda mn: mn == TC, "age-setting-reaches[%s]" % opt, exact=False, native=native_sum_forgets_age_settings)
    from contracts import C05
    # the two summary tables share one staleness counter: neither calc_* may stamp it (obligations of C05's cache protocol, which the
    # add-then-summarise histories of this property depend on)
    fr = C05.summary_calc_frames(ctx)
    if fr:
        w = C05.native_summary_tables_stale()
        for name, bad in fr:
            if w:
                ctx.fail(name, dict(key="summary-tables|stale", sites=bad, outcome=w, replay_kind="summary-tables"), detail="%s (%s)" % (w, bad[0]), kind="T1")
            else:
                ctx.fail(name, dict(key="site:" + bad[0], sites=bad), detail="calc function assigns " + bad[0], kind="T1", no_input=True)
    for c in SD_UPDATE:
        verify_contract(ctx, SUITE, c, sentinels=False, replay=dreplay.replay_by_search(C05._states))
    lean.check_lemma(ctx, "Merge.lean", ["merge_order_irrelevant", "merge_partition_irrelevant", "merge_empty_block"],
                     hypotheses={
                         "merge_order_irrelevant": "update acts on the view (trees, weights, per-split counts) as componentwise addition: "
                                                   "TreeArray.update.ensures[summary-merged[*]] / SplitDistribution.update.ensures[*] (z3); "
                                                   "edge-length / node-age multisets per split: bounded (T2) only",
                         "merge_partition_irrelevant": "as above",
                         "merge_empty_block": "an empty array has the zero view: SplitDistribution.__init__ (T2: idle-worker scope)"})


def native_sum_forgets_age_settings(modname=None, qual=None):
    """two tip-dated collections summed, a third tree added to the sum: the ages recorded are those of one collection holding the three trees"""
    import dendropy
    ns = dendropy.TaxonNamespace(["A", "B", "C"])
    amap = {"A": 0.0, "B": 1.0, "C": 0.0}
    nws = ["((A:2,B:1):1,C:3);", "((A:3,B:2):1,C:4);", "((A:1,B:0):2,C:3);"]
    arr = lambda: dendropy.TreeArray(taxon_namespace=ns, is_rooted_trees=True, ignore_node_ages=False, taxon_label_age_map=amap)
    tree = lambda nw: dendropy.Tree.get(data=nw, schema="newick", taxon_namespace=ns, rooting="force-rooted")
    ref = arr()
    for nw in nws:
        ref.add_tree(tree(nw))
    want = dict(ref._split_distribution.split_node_ages)
    routes = []
    a, b = arr(), arr()
    a.add_tree(tree(nws[0]))
    b.add_tree(tree(nws[1]))
    routes.append(("(a + b).add_tree(t)", lambda: a + b))
    tl = dendropy.TreeList(taxon_namespace=ns)
    tl.append(tree(nws[0]))
    tl.append(tree(nws[1]))
    routes.append(("TreeArray.from_tree_list(..).add_tree(t)", lambda: dendropy.TreeArray.from_tree_list(tl, ignore_node_ages=False, taxon_label_age_map=amap)))
    routes.append(("TreeList.as_tree_array(..).add_tree(t)", lambda: tl.as_tree_array(ignore_node_ages=False, taxon_label_age_map=amap)))
    for name, f in routes:
        try:
            s = f()
            s.add_tree(tree(nws[2]))
            got = dict(s._split_distribution.split_node_ages)
        except Exception as e:  # noqa
            return dict(key=name, outcome="%s on tip-dated collections (B sampled at age 1): %s: %s" % (name, type(e).__name__, str(e).split("\n")[0][:120]))
        if got != want:
            return dict(key=name, outcome="%s records the node ages %r; one collection holding the three trees records %r" % (name, got, want))
    return None


def validate_constructor_natively(ctx):
    """the ASSUMED contract of TreeArray.__init__ (TA_INIT) on every combination of the settings it names (bounded; never counted as proved)"""
    import itertools
    import dendropy
    sc = "assumed-constructor@TreeArray"
    ctx.scope(sc, rule="TreeArray(taxon_namespace, is_rooted_trees, ignore_edge_lengths, ignore_node_ages, use_tree_weights) for every combination of "
                       "None/True/False x bool^3, next to an existing non-empty array: four empty lists of its own, the settings as given, a distribution "
                       "of its own with no split and zero totals, the existing array untouched", exhaustive=True)
    ns = dendropy.TaxonNamespace(["A", "B", "C", "D"])
    other = dendropy.TreeArray(taxon_namespace=ns)
    other.read(data="((A,B),(C,D));((A,C),(B,D));", schema="newick")
    before = (list(other._tree_split_bitmasks), list(other._tree_leafset_bitmasks), list(other._tree_weights), dict(other._split_distribution.split_counts))
    for rooted, iel, ina, utw in itertools.product((None, True, False), (True, False), (True, False), (True, False)):
        key = "is_rooted_trees=%r ignore_edge_lengths=%r ignore_node_ages=%r use_tree_weights=%r" % (rooted, iel, ina, utw)
        ctx.case(sc, key, True)
        a = dendropy.TreeArray(taxon_namespace=ns, is_rooted_trees=rooted, ignore_edge_lengths=iel, ignore_node_ages=ina, use_tree_weights=utw)
        lists = [a._tree_split_bitmasks, a._tree_edge_lengths, a._tree_leafset_bitmasks, a._tree_weights]
        sd = a._split_distribution
        bad = None
        if any(l != [] for l in lists) or len(set(map(id, lists))) != 4 or any(l is m for l in lists for m in (other._tree_split_bitmasks, other._tree_edge_lengths,
                                                                                                          other._tree_leafset_bitmasks, other._tree_weights)):
            bad = "per-tree lists %r (not four empty lists of its own)" % (lists,)
        elif (a.taxon_namespace is not ns or a._is_rooted_trees is not rooted or a.ignore_edge_lengths is not iel or a.ignore_node_ages is not ina
              or a.use_tree_weights is not utw):
            bad = "settings kept as (%r, %r, %r, %r)" % (a._is_rooted_trees, a.ignore_edge_lengths, a.ignore_node_ages, a.use_tree_weights)
        elif sd is None or sd is other._split_distribution or sd.split_counts or sd.total_trees_counted != 0 or sd.sum_of_tree_weights != 0.0:
            bad = "distribution: shared or not empty"
        elif before != (list(other._tree_split_bitmasks), list(other._tree_leafset_bitmasks), list(other._tree_weights), dict(other._split_distribution.split_counts)):
            bad = "constructing a second array changed the first"
        if bad:
            ctx.fail("TreeArray.__init__.assumed-contract[an empty collection with the settings given]", dict(key=key), detail="TreeArray(%s): %s" % (key, bad))
            return


def replay(ctx, rec):
    if rec.get("witness", {}).get("replay_kind") == "summary-tables" or "summary-tables" in str(rec.get("witness", {}).get("key", "")):
        from contracts import C05
        w = C05.native_summary_tables_stale()
        print(w or "both summary tables describe the trees counted now on the probe")
        return w is None
    if str(rec.get("obligation", "")).startswith("age-setting-reaches"):
        w = native_sum_forgets_age_settings()
        print(w or "a sum / a collection made from a list ages further trees under the operands' settings on the probe")
        return w is None
    from dpvc import replay_c06
    return replay_c06.replay_record(ctx, rec)
