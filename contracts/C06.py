"""C06 -- tree-sample summaries independent of partitioning/order (T1 part).

Data-structure invariant of TreeArray: the four parallel per-tree lists
(_tree_split_bitmasks, _tree_edge_lengths, _tree_leafset_bitmasks,
_tree_weights) are equally long (every per-tree query asserts or relies on
it).  Lists are modelled by their LENGTH only (contents abstracted; lenient
mode), which is exactly what the alignment invariant needs.
Contracts: every mutator (add_tree / append / insert / update / extend /
__iadd__) preserves ALIGNED and grows all four lists by the stated amount, and
`update` never refuses arrays that are compatible in the property's sense
(equal settings; equal rooting, or `other` empty with undefined rooting -- the
idle-worker case of SumTrees -- or `self` empty)."""
from dpvc.symexec import Contract, Loop
from dpvc.symexec2 import Executor2
from dpvc.verify import Suite, verify_contract
from dpvc import lean
from dpvc import replay as dreplay

TC = "dendropy.datamodel.treecollectionmodel"

SCHEMA = {
    "TreeArray._tree_split_bitmasks": "lenlist",
    "TreeArray._tree_edge_lengths": "lenlist",
    "TreeArray._tree_leafset_bitmasks": "lenlist",
    "TreeArray._tree_weights": "lenlist",
    "TreeArray._is_rooted_trees": "opt bool",
    "TreeArray.ignore_edge_lengths": "opt bool",
    "TreeArray.ignore_node_ages": "opt bool",
    "TreeArray.use_tree_weights": "opt bool",
    "TreeArray._split_distribution": "ref:SplitDistribution",
    "TreeArray.taxon_namespace": "ref:TaxonNamespace",
    "Tree.taxon_namespace": "ref:TaxonNamespace",
    "Tree._is_rooted": "opt bool",
    # the summary itself: per-split weighted counts and the two totals (contracts/C05.py)
    "SplitDistribution.split_counts": "map:int:real default=0.0",
    "SplitDistribution.total_trees_counted": "int",
    "SplitDistribution.sum_of_tree_weights": "real",
    "SplitDistribution._trees_counted_for_summaries": "int",
    "SplitDistribution.use_tree_weights": "opt bool",
}


def aligned(x):
    return ("len({x}._tree_split_bitmasks) == len({x}._tree_edge_lengths) and len({x}._tree_split_bitmasks) == len({x}._tree_leafset_bitmasks) "
            "and len({x}._tree_split_bitmasks) == len({x}._tree_weights) and len({x}._tree_split_bitmasks) >= 0").format(x=x)


def grown(x, by):
    return " and ".join("len({x}.{f}) == old(len({x}.{f})) + {by}".format(x=x, f=f, by=by) for f in
                        ("_tree_split_bitmasks", "_tree_edge_lengths", "_tree_leafset_bitmasks", "_tree_weights"))


LISTS = ["self._tree_split_bitmasks", "self._tree_edge_lengths", "self._tree_leafset_bitmasks", "self._tree_weights"]
SETTINGS_EQ = ("self.ignore_edge_lengths is other.ignore_edge_lengths and self.ignore_node_ages is other.ignore_node_ages "
               "and self.use_tree_weights is other.use_tree_weights")
COMPATIBLE = ("(" + SETTINGS_EQ + ") and (self._is_rooted_trees is other._is_rooted_trees "
              "or (len(other._tree_split_bitmasks) == 0 and isnone(other._is_rooted_trees)) or len(self._tree_split_bitmasks) == 0)")

SD_MODS = ["SplitDistribution.split_counts[*]", "SplitDistribution.total_trees_counted[*]", "SplitDistribution.sum_of_tree_weights[*]",
           "SplitDistribution._trees_counted_for_summaries[*]", "SplitDistribution.use_tree_weights[*]"]


def _cnt(x, k):
    return "ite(has({x}.split_counts, {k}), get({x}.split_counts, {k}), 0.0)".format(x=x, k=k)


ALLOWED_ADD = ("TaxonNamespaceIdentityError", "MixedRootingError", "*")

CONTRACTS = [
    Contract(TC + ":TreeArray.update", types={"other": "ref:TreeArray"},
             requires=aligned("self") + " and " + aligned("other") + " and self != other and " + COMPATIBLE +
                      # every TreeArray owns its SplitDistribution (set once in __init__)
                      " and self._split_distribution != other._split_distribution",
             modifies=LISTS + ["self._is_rooted_trees", "self.ignore_edge_lengths", "self.ignore_node_ages", "self.use_tree_weights",
                               "SplitDistribution.split_counts[*]", "SplitDistribution.total_trees_counted[*]",
                               "SplitDistribution.sum_of_tree_weights[*]", "SplitDistribution._trees_counted_for_summaries[*]",
                               "SplitDistribution.use_tree_weights[*]"],
             inline=("__len__",), frame=False,
             ensures={"aligned": aligned("self"),
                      "concatenated": grown("self", "len(other._tree_split_bitmasks)"),
                      "other-unchanged": aligned("other") + " and len(other._tree_split_bitmasks) == old(len(other._tree_split_bitmasks))",
                      # the abstract view of the sample (Merge.lean): componentwise addition
                      "summary-merged[counts]": "forall_int(lambda s: {now} == old({now}) + old({oth}))".format(
                          now=_cnt("self._split_distribution", "s"), oth=_cnt("other._split_distribution", "s")),
                      "summary-merged[trees]": "self._split_distribution.total_trees_counted == old(self._split_distribution.total_trees_counted) "
                                               "+ old(other._split_distribution.total_trees_counted)",
                      "summary-merged[weights]": "self._split_distribution.sum_of_tree_weights == old(self._split_distribution.sum_of_tree_weights) "
                                                 "+ old(other._split_distribution.sum_of_tree_weights)"}),
    Contract(TC + ":TreeArray.extend", types={"tree_array": "ref:TreeArray", "return": "ref:TreeArray"},
             requires=aligned("self") + " and " + aligned("tree_array") + " and self != tree_array and self.taxon_namespace == tree_array.taxon_namespace "
                      "and self.ignore_edge_lengths is tree_array.ignore_edge_lengths "
                      "and self.ignore_node_ages is tree_array.ignore_node_ages and self.use_tree_weights is tree_array.use_tree_weights "
                      # compatible rooting in the property's sense: equal, or one side is empty with undefined rooting
                      "and (self._is_rooted_trees is tree_array._is_rooted_trees "
                      "or (len(tree_array._tree_split_bitmasks) == 0 and isnone(tree_array._is_rooted_trees)) "
                      "or (len(self._tree_split_bitmasks) == 0 and isnone(self._is_rooted_trees))) "
                      "and self._split_distribution != tree_array._split_distribution",
             modifies=LISTS + ["self._is_rooted_trees"] + SD_MODS, frame=False, inline=("__len__",),
             ensures={"aligned": aligned("self"), "concatenated": grown("self", "len(tree_array._tree_split_bitmasks)"), "returns-self": "result == self",
                      "summary-merged[counts]": "forall_int(lambda s: {now} == old({now}) + old({oth}))".format(
                          now=_cnt("self._split_distribution", "s"), oth=_cnt("tree_array._split_distribution", "s")),
                      "summary-merged[trees]": "self._split_distribution.total_trees_counted == old(self._split_distribution.total_trees_counted) "
                                               "+ old(tree_array._split_distribution.total_trees_counted)",
                      "summary-merged[weights]": "self._split_distribution.sum_of_tree_weights == old(self._split_distribution.sum_of_tree_weights) "
                                                 "+ old(tree_array._split_distribution.sum_of_tree_weights)",
                      "rooting": "ite(old(len(self._tree_split_bitmasks)) == 0 and isnone(old(self._is_rooted_trees)), "
                                 "self._is_rooted_trees is tree_array._is_rooted_trees, self._is_rooted_trees is old(self._is_rooted_trees))"}),
    Contract(TC + ":TreeArray.__iadd__", types={"tree_array": "ref:TreeArray", "return": "ref:TreeArray"},
             requires=aligned("self") + " and " + aligned("tree_array") + " and self != tree_array and self.taxon_namespace == tree_array.taxon_namespace "
                      "and self.ignore_edge_lengths is tree_array.ignore_edge_lengths "
                      "and self.ignore_node_ages is tree_array.ignore_node_ages and self.use_tree_weights is tree_array.use_tree_weights "
                      # compatible rooting in the property's sense: equal, or one side is empty with undefined rooting
                      "and (self._is_rooted_trees is tree_array._is_rooted_trees "
                      "or (len(tree_array._tree_split_bitmasks) == 0 and isnone(tree_array._is_rooted_trees)) "
                      "or (len(self._tree_split_bitmasks) == 0 and isnone(self._is_rooted_trees))) "
                      "and self._split_distribution != tree_array._split_distribution",
             modifies=LISTS + ["self._is_rooted_trees"] + SD_MODS, frame=False, inline=("__len__",),
             ensures={"aligned": aligned("self"), "concatenated": grown("self", "len(tree_array._tree_split_bitmasks)"), "returns-self": "result == self",
                      "summary-merged[counts]": "forall_int(lambda s: {now} == old({now}) + old({oth}))".format(
                          now=_cnt("self._split_distribution", "s"), oth=_cnt("tree_array._split_distribution", "s")),
                      "summary-merged[trees]": "self._split_distribution.total_trees_counted == old(self._split_distribution.total_trees_counted) "
                                               "+ old(tree_array._split_distribution.total_trees_counted)",
                      "summary-merged[weights]": "self._split_distribution.sum_of_tree_weights == old(self._split_distribution.sum_of_tree_weights) "
                                                 "+ old(tree_array._split_distribution.sum_of_tree_weights)",
                      "rooting": "ite(old(len(self._tree_split_bitmasks)) == 0 and isnone(old(self._is_rooted_trees)), "
                                 "self._is_rooted_trees is tree_array._is_rooted_trees, self._is_rooted_trees is old(self._is_rooted_trees))"}),
    Contract(TC + ":TreeArray.add_tree", types={"tree": "ref:Tree", "is_bipartitions_updated": "opaque", "index": "opt int", "return": "opaque"},
             requires=aligned("self"), modifies=LISTS + ["self._is_rooted_trees"], frame=False, allowed_raises=ALLOWED_ADD,
             inline=("validate_rooting",),
             ensures={"aligned": aligned("self"), "one-more": grown("self", "1")}),
    Contract(TC + ":TreeArray.append", types={"tree": "ref:Tree", "is_bipartitions_updated": "opaque", "return": "opaque"},
             requires=aligned("self"), modifies=LISTS + ["self._is_rooted_trees"], frame=False, allowed_raises=ALLOWED_ADD,
             ensures={"aligned": aligned("self"), "one-more": grown("self", "1")}),
    Contract(TC + ":TreeArray.insert", types={"index": "int", "tree": "ref:Tree", "is_bipartitions_updated": "opaque", "return": "opaque"},
             requires=aligned("self"), modifies=LISTS + ["self._is_rooted_trees"], frame=False, allowed_raises=ALLOWED_ADD,
             ensures={"aligned": aligned("self"), "one-more": grown("self", "1")}),
    Contract(TC + ":TreeArray.validate_rooting", types={"rooting_of_other": "opt bool"},
             requires="True", modifies=["self._is_rooted_trees"], frame=False,
             raises={"MixedRootingError": "not isnone(self._is_rooted_trees) and not eq(self._is_rooted_trees, rooting_of_other)"},
             ensures={"adopts": "implies(isnone(old(self._is_rooted_trees)), eq(self._is_rooted_trees, rooting_of_other))",
                      "keeps": "implies(not isnone(old(self._is_rooted_trees)), eq(self._is_rooted_trees, old(self._is_rooted_trees)))"}),
]


class TAExecutor(Executor2):
    lenient = True


def _sd_update():
    from contracts import C05
    return [c for c in C05.CONTRACTS if c.name == "SplitDistribution.update"]


SD_UPDATE = _sd_update()
SUITE = Suite(SCHEMA, [TC, "dendropy.datamodel.treemodel._tree"], CONTRACTS + SD_UPDATE, executor_cls=TAExecutor)


def t1(ctx):
    ctx.assume("C06/T1: Python lists of TreeArray are modelled by their length only (contents abstracted); SplitDistribution.update / "
               "count_splits_on_tree are abstracted calls (their arithmetic is C05); OS scheduling and multiprocessing.Queue are out of reach "
               "(the schedule is an arbitrary arrival order of update() calls, which is what the update contract quantifies over)")
    from dpvc import replay_c06
    for c in CONTRACTS:
        verify_contract(ctx, SUITE, c, sentinels=False, replay=replay_c06.replay_treearray)
    from contracts import C05
    for c in SD_UPDATE:
        verify_contract(ctx, SUITE, c, sentinels=False, replay=dreplay.replay_by_search(C05._states))
    lean.check_lemma(ctx, "Merge.lean", ["merge_order_irrelevant", "merge_partition_irrelevant", "merge_empty_block"],
                     hypotheses={
                         "merge_order_irrelevant": "update acts on the view (trees, weights, per-split counts) as componentwise addition: "
                                                   "TreeArray.update.ensures[summary-merged[*]] / SplitDistribution.update.ensures[*] (z3); "
                                                   "edge-length / node-age multisets per split: bounded (T2) only",
                         "merge_partition_irrelevant": "as above",
                         "merge_empty_block": "an empty array has the zero view: SplitDistribution.__init__ (T2: idle-worker scope)"})


def replay(ctx, rec):
    from dpvc import replay_c06
    return replay_c06.replay_record(ctx, rec)
