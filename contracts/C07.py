"""C07 -- re-rooting never changes the underlying unrooted tree (T1 part).

(1) Edge.invert (the only structural step of a re-seeding chain): proved in theory B that the head
    leaves the tail's child list, the tail is appended to the head's, every other child list is
    unchanged, and the two edge LENGTHS are exchanged -- so the undirected adjacency relation with its
    length labelling is preserved by every inversion (the contract lives in contracts/C03.py).
(2) Rooting flag (theory F, constant-propagated store closure over the real Tree class):
    soft operations (reseed_at, to_outgroup_position, randomly_reorient, randomly_rotate, ladderize,
    reorder) reach no assignment to the rooting flag; hard operations (reroot_at_node, reroot_at_edge,
    reroot_at_midpoint) execute `self.is_rooted = True` on every normal path and reach no later store.
Everything else of C07 (leaf set, unrooted splits, path sums, midpoint, edge-root distances) is bounded (T2)."""
import ast
import time

from dpvc import effects, frontend
from dpvc.verify import verify_contract
from dpvc import replay as dreplay
import contracts.C03 as C03

TREE = "dendropy.datamodel.treemodel._tree"
SOFT = ["reseed_at", "to_outgroup_position", "randomly_reorient", "randomly_rotate", "ladderize", "reorder"]
HARD = ["reroot_at_node", "reroot_at_edge", "reroot_at_midpoint"]
FLAG = ("is_rooted", "_is_rooted")


def _tree(nw):
    import dendropy
    return dendropy.Tree.get(data=nw, schema="newick")


def native_flag(method):
    """native replay of a rooting-flag obligation: the flag before/after on small trees in all three rooting states"""
    import random
    bad = []
    for pre, nw, upd in [(p_, n_, u_) for p_ in ("", "[&U] ", "[&R] ") for n_ in ("((A:1,B:2):1,(C:1,D:3):2,E:1);", "((A:1,B:2):1,(C:1,D:3):2);")
                         for u_ in (False, True)]:
        if True:
            t = _tree(pre + nw)
            before = t.is_rooted
            nd = t.seed_node.child_nodes()[0]
            try:
                if method == "reseed_at":
                    t.reseed_at(nd, update_bipartitions=upd)
                elif method == "to_outgroup_position":
                    t.to_outgroup_position(nd, update_bipartitions=upd)
                elif method == "randomly_reorient":
                    t.randomly_reorient(rng=random.Random(3), update_bipartitions=upd)
                elif method == "randomly_rotate":
                    t.randomly_rotate(rng=random.Random(3))
                elif method == "ladderize":
                    t.ladderize()
                elif method == "reorder":
                    t.reorder()
                elif method == "reroot_at_node":
                    t.reroot_at_node(nd, update_bipartitions=upd)
                elif method == "reroot_at_edge":
                    t.reroot_at_edge(nd.edge, update_bipartitions=upd)
                elif method == "reroot_at_midpoint":
                    t.reroot_at_midpoint(update_bipartitions=upd)
            except Exception as e:
                bad.append("%s%s(update_bipartitions=%s) raised %r" % (pre, method, upd, e))
                continue
            after = t.is_rooted
            if method in SOFT and after is not before and after != before:
                bad.append("%s%s(update_bipartitions=%s): is_rooted %r -> %r" % (pre, method, upd, before, after))
            if method in HARD and after is not True:
                bad.append("%s%s(update_bipartitions=%s): is_rooted is %r after a hard re-rooting" % (pre, method, upd, after))
    return bad


def t1(ctx):
    ctx.assume("C07/T1: method calls are resolved inside class Tree (self.<method>) with constant propagation of the arguments passed; "
               "calls on other objects (nodes, edges) cannot touch the tree's rooting flag; reals for floats")
    # (1) the inversion step
    inv = [c for c in C03.CONTRACTS if c.name == "Edge.invert"][0]
    verify_contract(ctx, C03.SUITE, inv, sentinels=False, replay=dreplay.replay_by_search(C03.states))
    # (2) rooting flag
    for m in SOFT + HARD:
        target = TREE + ":Tree." + m
        try:
            frontend.resolve(target)
        except KeyError:
            ctx.note("Tree.%s not found" % m)
            continue
        ctx.add_function(target)
        t0 = time.time()
        me = effects.MethodEffects(TREE, "Tree")
        me.analyse(m)
        stores = [s for s in me.stores if s[0] in FLAG]
        if m in SOFT:
            name = "Tree.%s.frame[rooting flag not assigned]" % m
            ok = not stores
            ctx.obligation(name, "proved" if ok else "refuted", "effects", time.time() - t0, target,
                           detail=None if ok else "reachable store(s): %s" % [(s[1], s[2], s[3]) for s in stores])
        else:
            name = "Tree.%s.ensures[rooting flag set to rooted]" % m
            m_, ci, fn = frontend.resolve(target)
            body, _ = frontend.strip_docstring(fn)
            top = [st for st in body if isinstance(st, ast.Assign) and len(st.targets) == 1 and ast.unparse(st.targets[0]) in ("self.is_rooted", "self._is_rooted")
                   and isinstance(st.value, ast.Constant) and st.value.value is True]
            delegates = [st for st in body if isinstance(st, ast.Expr) and isinstance(st.value, ast.Call) and ast.unparse(st.value.func) in ("self.reroot_at_node",)]
            # no store of anything but True reachable AFTER the top-level store (later calls such as update_bipartitions)
            others = [s for s in stores if s[3] != "True"]
            ok = (bool(top) or bool(delegates)) and not others
            ctx.obligation(name, "proved" if ok else "refuted", "effects", time.time() - t0, target,
                           detail=None if ok else "top-level `self.is_rooted = True`: %s; other reachable stores: %s" % (bool(top), [(s[1], s[2], s[3]) for s in others]))
        if not ok:
            bad = native_flag(m)
            if bad:
                ctx.fail(name, dict(key="Tree.%s|%s" % (m, bad[0]), method=m, observed=bad[:4]), detail=bad[0], kind="T1")
            else:
                ctx.fail(name, dict(key="obligation:%s" % name), detail="rooting-flag obligation failed; flag correct on the native probes", kind="T1", no_input=True)


def replay(ctx, rec):
    w = rec.get("witness", {})
    m = w.get("method")
    if m:
        bad = native_flag(m)
        print(bad or "rooting flag correct on the probes")
        return not bad
    return C03.replay(ctx, rec)
