"""C11 -- the namespace primitives that the closure contracts (contracts/C11.py) call: PROVED here, not trusted.

contracts/C11.py verifies the matrix / tree / list methods against contracts of TaxonNamespace.add_taxon, new_taxon, require_taxon and
get_taxon ("the result is a member", "members stay members", "other namespaces are untouched"), stated over the accession map, which is
what membership means (`taxon in namespace` is `taxon in _taxon_accession_index_map`).  Those four contracts were ASSUMED there.  Here the
SAME ensures texts (imported, not retyped) are verified against the real bodies, together with the representation invariant they need:

    LISTED(ns):  every element of the member list ns._taxa is a key of ns._taxon_accession_index_map

(label look-ups walk the LIST and return one of its elements; that the element is a member in the map's sense is the invariant).
add_taxon, new_taxon, require_taxon and clear preserve LISTED; _lookup_label / get_taxon do not modify anything.
Left out: remove_taxon (list.remove by value on a list whose elements may belong to several namespaces -- the ghost-owner theory of
reference lists does not apply; bounded), sort / reverse (permutations; bounded), __init__ / copies (bounded).  So "every reachable namespace
satisfies LISTED" remains an assumption of contracts/C11.py as a whole; it is validated natively on every state of the native generators.
Taxon(label=...) is an allocation: a new object referenced from nowhere (ASSUMED constructor contract)."""
from dpvc.symexec import Contract, Loop
from dpvc.symexec3 import Executor3
from dpvc.verify import Suite, verify_contract
from dpvc import replay as dreplay
from contracts import C11

TX = C11.TX

SCHEMA = {
    "TaxonNamespace._taxon_accession_index_map": "map:ref:int",
    "TaxonNamespace._accession_index_taxon_map": "map:int:ref",
    "TaxonNamespace._taxon_bitmask_map": "map:ref:int",
    "TaxonNamespace._current_accession_count": "int",
    "TaxonNamespace._taxa": "reflist:Taxon",
    "TaxonNamespace.is_mutable": "opt bool",
    "TaxonNamespace.is_case_sensitive": "opt bool",
    "Taxon.g_pos": "ghost int",
    "Taxon.g_owner": "ghost opt ref:TaxonNamespace",
}


def listed(ns):
    return ("forall_int(lambda j: implies(0 <= j and j < length({n}._taxa), not isnone(at({n}._taxa, j)) and {m}))").format(
        n=ns, m=C11.member(ns, "at(%s._taxa, j)" % ns))


LISTED = listed("self")
MODS = ["TaxonNamespace._taxon_accession_index_map[*]", "TaxonNamespace._accession_index_taxon_map[*]", "TaxonNamespace._current_accession_count[*]", "self._taxa"]
A = dict((c.name.split(".")[-1], c) for c in C11.ASSUMED)   # the contracts as contracts/C11.py uses them


def _ens(name, extra=None):
    e = dict(A[name].ensures_items())
    e["every-listed-taxon-is-a-member"] = LISTED
    if extra:
        e.update(extra)
    return e


CONTRACTS = [
    Contract(TX + ":TaxonNamespace.add_taxon", types={"taxon": "ref:Taxon"}, requires=LISTED, modifies=MODS, frame=False,
             allowed_raises=("ImmutableTaxonNamespaceError",), may_raise=("ImmutableTaxonNamespaceError",), ensures=_ens("add_taxon")),
    Contract(TX + ":TaxonNamespace._lookup_label",
             types={"label": "opaque", "is_case_sensitive": "opaque", "first_match_only": "bool", "error_if_not_found": "bool", "return": "opt ref:Taxon"},
             # the shape in which get_taxon / require_taxon call it
             requires=LISTED + " and first_match_only and not error_if_not_found", modifies=[], frame=False,
             locals={"taxon": "ref:Taxon", "taxa": "lenlist"},
             loops={0: Loop(invariant="len(taxa) == 0"), 1: Loop(invariant="len(taxa) == 0")},
             ensures={"none-or-a-member": "isnone(result) or " + C11.member("self", "result")}),
    Contract(TX + ":TaxonNamespace.get_taxon", types=dict(A["get_taxon"].types), requires=LISTED, modifies=[], frame=False, ensures=dict(A["get_taxon"].ensures_items())),
    Contract(TX + ":TaxonNamespace.new_taxon", types=dict(A["new_taxon"].types), requires=LISTED, modifies=MODS, frame=False,
             allowed_raises=("ImmutableTaxonNamespaceError",), may_raise=("ImmutableTaxonNamespaceError",), ensures=_ens("new_taxon")),
    Contract(TX + ":TaxonNamespace.require_taxon", types=dict(A["require_taxon"].types), requires=LISTED, modifies=MODS, frame=False,
             allowed_raises=("ImmutableTaxonNamespaceError",), ensures=_ens("require_taxon")),
    Contract(TX + ":TaxonNamespace.clear", types={}, requires=LISTED,
             modifies=MODS + ["TaxonNamespace._taxon_bitmask_map[*]"], frame=False,
             ensures={"every-listed-taxon-is-a-member": LISTED, "no-member-left": "forall_ref('Taxon', lambda t: not %s)" % C11.member("self", "t"),
                      "others": C11.OTHER_NS_UNTOUCHED}),
]
TAXON_INIT = Contract(TX + ":Taxon.__init__", types={"label": "opaque"}, requires="True", modifies=[], ensures=None, assumed=True,
                      notes="allocation of a Taxon: sets fields of the new object only")


class NSListExecutor(Executor3):
    lenient = True


SUITE = Suite(SCHEMA, [TX], CONTRACTS + [TAXON_INIT], executor_cls=NSListExecutor)


def _states(c):
    import dendropy
    meth = c.name.split(".")[-1]
    for labels in ((), ("A",), ("A", "b", "B")):
        for mutable in (True, False):
            for arg in ("member", "foreign", "A", "a", "Z", None):
                ns = dendropy.TaxonNamespace(list(labels))
                other = dendropy.TaxonNamespace(["A", "Q"])
                ns.is_mutable = mutable
                uni = {"Taxon": list(ns) + list(other), "TaxonNamespace": [ns, other]}
                if meth == "add_taxon":
                    if arg not in ("member", "foreign") or (arg == "member" and not labels):
                        continue
                    kw = dict(self=ns, taxon=(ns[0] if arg == "member" else other[1]))
                elif meth == "clear":
                    if arg is not None:
                        continue
                    kw = dict(self=ns)
                elif meth == "_lookup_label":
                    if arg in ("member", "foreign", None):
                        continue
                    for cs in (None, True, False):
                        yield dict(self=ns, label=arg, is_case_sensitive=cs, first_match_only=True, error_if_not_found=False), uni, \
                            "namespace %r, label %r, is_case_sensitive=%r" % (list(labels), arg, cs)
                    continue
                elif meth == "new_taxon":
                    if arg in ("member", "foreign", None):
                        continue
                    kw = dict(self=ns, label=arg)
                else:
                    if arg in ("member", "foreign", None):
                        continue
                    kw = dict(self=ns, label=arg, is_case_sensitive=None)
                yield kw, uni, "namespace %r (%s), argument %r" % (list(labels), "mutable" if mutable else "immutable", arg)


def validate_listed_natively(ctx):
    """the representation invariant LISTED after every sequence of <= 3 namespace operations, including the ones not under contract here
    (bounded; never counted as proved)"""
    import copy
    import itertools
    import dendropy
    from dendropy.datamodel.taxonmodel import Taxon
    sc = "representation-invariant@namespaces"
    ctx.scope(sc, rule="LISTED (every listed taxon is a key of the accession map) and its converse after every sequence of <= 3 operations from "
                       "{add_taxon new/member, new_taxon, require_taxon known/new, remove_taxon, remove_taxon_label, discard_taxon_label, clear, sort, "
                       "reverse, copy-construct, deepcopy, clone} on a namespace of 0..2 taxa", exhaustive=True)
    ops = ["add-new", "add-member", "new_taxon", "require-known", "require-new", "remove", "remove_label", "discard_label", "clear", "sort", "reverse",
           "ctor", "deepcopy", "clone"]
    for n0 in (0, 1, 2):
        for seq in itertools.chain.from_iterable(itertools.product(ops, repeat=k) for k in (1, 2, 3)):
            ns = dendropy.TaxonNamespace(["b", "A"][:n0])
            try:
                for op in seq:
                    if op == "add-new":
                        ns.add_taxon(Taxon("n"))
                    elif op == "add-member" and len(ns):
                        ns.add_taxon(ns[0])
                    elif op == "new_taxon":
                        ns.new_taxon("A")
                    elif op == "require-known" and len(ns):
                        ns.require_taxon(ns[0].label)
                    elif op == "require-new":
                        ns.require_taxon("zz")
                    elif op == "remove" and len(ns):
                        ns.remove_taxon(ns[-1])
                    elif op == "remove_label" and len(ns):
                        ns.remove_taxon_label(ns[0].label)
                    elif op == "discard_label":
                        ns.discard_taxon_label("A")
                    elif op == "clear":
                        ns.clear()
                    elif op == "sort":
                        ns.sort()
                    elif op == "reverse":
                        ns.reverse()
                    elif op == "ctor":
                        ns = dendropy.TaxonNamespace(ns)
                    elif op == "deepcopy":
                        ns = copy.deepcopy(ns)
                    elif op == "clone":
                        ns = ns.clone(0)
            except Exception as e:  # noqa -- an operation that raises is some other property's business (C10)
                continue
            key = "%d taxa; %s" % (n0, ";".join(seq))
            ctx.case(sc, key, len(seq) >= 2)
            lst, acc = list(ns._taxa), ns._taxon_accession_index_map
            if any(t is None or t not in acc for t in lst) or any(all(t is not u for u in lst) for t in acc):
                ctx.fail("TaxonNamespace.representation-invariant[listed == keys of the accession map]", dict(key=key, start=n0, ops=list(seq)),
                         detail="after %s: listed %r, accession keys %r" % (key, [t.label for t in lst], [t.label for t in acc]))
                return


def t1(ctx):
    ctx.assume("C11/namespace primitives: a member list is an exact reference list, the accession maps are maps; Taxon(label=...) is an allocation "
               "(ASSUMED constructor contract); remove_taxon, sort, reverse, __init__ and copies are not under contract here, so 'every reachable "
               "namespace satisfies LISTED' is validated natively, not proved")
    for c in CONTRACTS:
        verify_contract(ctx, SUITE, c, sentinels=False, replay=dreplay.replay_by_search(_states))
    validate_listed_natively(ctx)
