"""C11 -- collections keep every member inside their own taxon namespace (T1 part).

Closure is stated over the real fields:
   member(ns, t)  :=  t is a key of ns._taxon_accession_index_map   (what `t in ns` tests)
   CLM(m)         :=  every key of m._taxon_sequence_map is a member of m._taxon_namespace
   CLT(tree)      :=  every node of the tree carries no taxon or a member of tree._taxon_namespace
Namespace primitives come with C10's proved contract for add_taxon (is-member, members-kept) and with
ASSUMED contracts for the label look-ups (require_taxon / new_taxon / get_taxon return a member and
remove none) -- these are validated at run time by the bounded drivers of C10 and C11.

CharacterMatrix (dictionary keyed by taxon):
   new_sequence / __setitem__     refuse a taxon outside the namespace (ValueError), keep CLM
   update_taxon_namespace         establishes CLM whatever the keys were (loop over the dictionary)
   reconstruct_taxon_namespace    establishes CLM: every sequence ends up keyed by a member -- also when the
                                  replacement comes from the caller's taxon_mapping_memo (loop over a snapshot of
                                  the keys while the dictionary is re-keyed)
   migrate_taxon_namespace        the matrix refers to the new namespace and CLM holds"""
from dpvc.symexec import Contract, Loop
from dpvc.symexec3 import Executor3
from dpvc.verify import Suite, verify_contract
from dpvc import replay as dreplay

TX = "dendropy.datamodel.taxonmodel"
CM = "dendropy.datamodel.charmatrixmodel"

SCHEMA = {
    "TaxonNamespace._taxon_accession_index_map": "map:ref:int",
    "TaxonNamespace.is_mutable": "opt bool",
    "CharacterMatrix._taxon_sequence_map": "map:ref:ref",
    "CharacterMatrix._taxon_namespace": "ref:TaxonNamespace",
    "*.automigrate_taxon_namespace_on_assignment": "opt bool",
}


def member(ns, t):
    return "has(%s._taxon_accession_index_map, %s)" % (ns, t)


def clm(m):
    return "forall_ref('Taxon', lambda t: implies(has({m}._taxon_sequence_map, t), {mem}))".format(m=m, mem=member(m + "._taxon_namespace", "t"))


NS_MODS = ["TaxonNamespace._taxon_accession_index_map[*]"]
KEPT = "self._taxon_namespace == old(self._taxon_namespace) and forall_ref('Taxon', lambda t: implies(old(%s), %s))" % (
    member("self._taxon_namespace", "t"), member("self._taxon_namespace", "t"))
NO_NONE_KEY = "not has(self._taxon_sequence_map, None)"
MEMBERS_KEPT_SELF = "forall_ref('Taxon', lambda t: implies(old(has(self._taxon_accession_index_map, t)), has(self._taxon_accession_index_map, t)))"
OTHER_NS_UNTOUCHED = ("forall_ref('TaxonNamespace', lambda n: implies(n != self, forall_ref('Taxon', lambda t: "
                      "has(n._taxon_accession_index_map, t) == old(has(n._taxon_accession_index_map, t)))))")

ASSUMED = [
    # C10 proves add_taxon (is-member, members-kept, only-taxon-added) over the full namespace invariant; restated here
    # over the accession map alone, which is all that closure needs
    Contract(TX + ":TaxonNamespace.add_taxon", types={"taxon": "ref:Taxon"}, assumed=True, modifies=NS_MODS, frame=False,
             may_raise=("ImmutableTaxonNamespaceError",), allowed_raises=("ImmutableTaxonNamespaceError",),
             ensures={"is-member": member("self", "taxon"), "members-kept": MEMBERS_KEPT_SELF, "others": OTHER_NS_UNTOUCHED}),
    Contract(TX + ":TaxonNamespace.require_taxon", types={"label": "opaque", "is_case_sensitive": "opaque", "return": "ref:Taxon"}, assumed=True,
             modifies=NS_MODS, frame=False, may_raise=("ImmutableTaxonNamespaceError",), allowed_raises=("ImmutableTaxonNamespaceError",),
             ensures={"returns-a-member": member("self", "result"), "members-kept": MEMBERS_KEPT_SELF, "others": OTHER_NS_UNTOUCHED}),
    Contract(TX + ":TaxonNamespace.new_taxon", types={"label": "opaque", "return": "ref:Taxon"}, assumed=True,
             modifies=NS_MODS, frame=False, may_raise=("ImmutableTaxonNamespaceError",), allowed_raises=("ImmutableTaxonNamespaceError",),
             ensures={"returns-a-member": member("self", "result"), "members-kept": MEMBERS_KEPT_SELF, "others": OTHER_NS_UNTOUCHED}),
]

SEQ_MODS = ["self._taxon_sequence_map"]
LOOP_RECON = ("forall_ref('Taxon', lambda t: implies(has(self._taxon_sequence_map, t), {mem} or (insnap(t) and not seen(t)))) and "
              "forall_ref('Taxon', lambda t: implies(insnap(t) and not seen(t), has(self._taxon_sequence_map, t))) and "
              "self._taxon_namespace == pre(self._taxon_namespace) and "
              "forall_ref('Taxon', lambda t: implies(pre({mem}), {mem}))").format(mem=member("self._taxon_namespace", "t"))

CONTRACTS = [
    Contract(CM + ":CharacterMatrix.new_sequence", types={"taxon": "ref:Taxon", "values": "opaque", "return": "opaque"},
             requires=clm("self"), modifies=SEQ_MODS, frame=False, inline=("__contains__",),
             raises={"ValueError": "has(self._taxon_sequence_map, taxon) or not %s" % member("self._taxon_namespace", "taxon")},
             ensures={"closed": clm("self"), "keyed-by-the-taxon": "has(self._taxon_sequence_map, taxon)",
                      "other-keys-untouched": "forall_ref('Taxon', lambda t: implies(t != taxon, has(self._taxon_sequence_map, t) == old(has(self._taxon_sequence_map, t))))"}),
    Contract(CM + ":CharacterMatrix.update_taxon_namespace", types={}, modifies=NS_MODS, frame=False, allowed_raises=("ImmutableTaxonNamespaceError",),
             requires=NO_NONE_KEY, inline=("__contains__",),
             loops={0: Loop(invariant="forall_ref('Taxon', lambda t: implies(seen(t), {mem})) and self._taxon_namespace == pre(self._taxon_namespace) and "
                                      "forall_ref('Taxon', lambda t: implies(pre({mem}), {mem})) and "
                                      "forall_ref('Taxon', lambda t: has(self._taxon_sequence_map, t) == pre(has(self._taxon_sequence_map, t)))".format(
                                          mem=member("self._taxon_namespace", "t")))},
             locals={"taxon": "ref:Taxon"},
             ensures={"closed": clm("self"), "members-kept": KEPT}),
    Contract(CM + ":CharacterMatrix.reconstruct_taxon_namespace", types={"unify_taxa_by_label": "opt bool", "taxon_mapping_memo": "opaque"},
             requires=NO_NONE_KEY, inline=("__contains__",),
             modifies=NS_MODS + SEQ_MODS, frame=False,
             allowed_raises=("TaxonNamespaceReconstructionError", "ImmutableTaxonNamespaceError"),
             loops={0: Loop(invariant=LOOP_RECON)},
             locals={"original_taxon": "ref:Taxon", "t": "opt ref:Taxon"},
             ensures={"closed": clm("self"), "members-kept": KEPT}),
]

CONTRACTS += [
    Contract(CM + ":CharacterMatrix.__setitem__", types={"key": "ref:Taxon", "values": "opaque"},
             requires=clm("self"), modifies=SEQ_MODS, frame=False, inline=("__contains__", "_resolve_key"),
             allowed_raises=("ValueError", "KeyError", "IndexError"),
             ensures={"closed": clm("self"),
                      "no-foreign-key-accepted": "forall_ref('Taxon', lambda t: implies(has(self._taxon_sequence_map, t) and not old(has(self._taxon_sequence_map, t)), %s))"
                                                 % member("self._taxon_namespace", "t")}),
    Contract(TX + ":TaxonNamespaceAssociated.migrate_taxon_namespace", name="CharacterMatrix.migrate_taxon_namespace",
             types={"self": "ref:CharacterMatrix", "taxon_namespace": "ref:TaxonNamespace", "unify_taxa_by_label": "opt bool", "taxon_mapping_memo": "opaque"},
             requires=NO_NONE_KEY, modifies=NS_MODS + SEQ_MODS + ["self._taxon_namespace"], frame=False,
             allowed_raises=("TaxonNamespaceReconstructionError", "ImmutableTaxonNamespaceError"),
             ensures={"refers-to-the-new-namespace": "self._taxon_namespace == taxon_namespace", "closed": clm("self")}),
]
ASSUMED.append(
    Contract(TX + ":TaxonNamespace.get_taxon", types={"label": "opaque", "is_case_sensitive": "opaque", "return": "opt ref:Taxon"}, assumed=True,
             modifies=[], frame=False, ensures={"none-or-a-member": "isnone(result) or " + member("self", "result")}))

# ----------------------------------------------------------------------------- trees and tree lists
TR = "dendropy.datamodel.treemodel._tree"
TC = "dendropy.datamodel.treecollectionmodel"
SCHEMA.update({
    "Tree._taxon_namespace": "ref:TaxonNamespace",
    "Tree.g_nodes": "ghost reflist:Node",       # the nodes `for nd in tree` visits (ASSUMED: C15)
    "Node.taxon": "opt ref:Taxon",
    "Node.g_pos": "ghost int",
    "Node.g_owner": "ghost opt ref:Tree",
    "TreeList._taxon_namespace": "ref:TaxonNamespace",
    "TreeList._trees": "lenlist",
})


def clt(tree):
    return ("forall_int(lambda j: implies(0 <= j and j < length({t}.g_nodes), isnone(at({t}.g_nodes, j).taxon) or {mem}))").format(
        t=tree, mem=member(tree + "._taxon_namespace", "at(%s.g_nodes, j).taxon" % tree))


def tree_loop(extra=""):
    return ("forall_int(lambda j: implies(0 <= j and j < loop_index(), isnone(at(self.g_nodes, j).taxon) or {mem})) and "
            "self._taxon_namespace == pre(self._taxon_namespace) and "
            "forall_ref('Taxon', lambda t: implies(pre({memt}), {memt}))" + extra).format(
                mem=member("self._taxon_namespace", "at(self.g_nodes, j).taxon"), memt=member("self._taxon_namespace", "t"))


TREE_KEPT = "self._taxon_namespace == old(self._taxon_namespace) and forall_ref('Taxon', lambda t: implies(old(%s), %s))" % (
    member("self._taxon_namespace", "t"), member("self._taxon_namespace", "t"))

# frames that list-wide reasoning needs: nodes that are not this tree's keep their taxon; in EVERY namespace members stay members
def others_nodes(tree, P="old"):
    return "forall_ref('Node', lambda n: implies(n.g_owner != %s, n.taxon == %s(n.taxon)))" % (tree, P)


def all_kept(P="old"):
    return ("forall_ref('TaxonNamespace', lambda m: forall_ref('Taxon', lambda t: implies({P}(has(m._taxon_accession_index_map, t)), "
            "has(m._taxon_accession_index_map, t))))").format(P=P)


CONTRACTS += [
    Contract(TR + ":Tree.update_taxon_namespace", types={"return": "opaque"}, requires="listinv(self.g_nodes)",
             modifies=NS_MODS, frame=False, allowed_raises=("ImmutableTaxonNamespaceError",),
             loops={0: Loop(invariant=tree_loop(" and forall_ref('Node', lambda n: n.taxon == pre(n.taxon)) and " + all_kept("pre")))},
             locals={"nd": "ref:Node"},
             ensures={"closed": clt("self"), "members-kept": TREE_KEPT, "members-kept-in-every-namespace": all_kept(),
                      "node-taxa-untouched": "forall_ref('Node', lambda n: n.taxon == old(n.taxon))"}),
    Contract(TR + ":Tree.reconstruct_taxon_namespace", types={"unify_taxa_by_label": "opt bool", "taxon_mapping_memo": "opaque"},
             requires="listinv(self.g_nodes)", inline=("__contains__",),
             modifies=NS_MODS + ["Node.taxon[*]"], frame=False, allowed_raises=("ImmutableTaxonNamespaceError",),
             loops={0: Loop(invariant=tree_loop(" and " + others_nodes("self", "pre") + " and " + all_kept("pre")))},
             locals={"node": "ref:Node", "t": "opt ref:Taxon"},
             ensures={"closed": clt("self"), "members-kept": TREE_KEPT, "members-kept-in-every-namespace": all_kept(),
                      "nodes-of-other-trees-untouched": others_nodes("self")}),
    Contract(TX + ":TaxonNamespaceAssociated.migrate_taxon_namespace", name="Tree.migrate_taxon_namespace",
             types={"self": "ref:Tree", "taxon_namespace": "ref:TaxonNamespace", "unify_taxa_by_label": "opt bool", "taxon_mapping_memo": "opaque"},
             requires="listinv(self.g_nodes)", modifies=NS_MODS + ["Node.taxon[*]", "self._taxon_namespace"], frame=False,
             allowed_raises=("ImmutableTaxonNamespaceError",),
             ensures={"refers-to-the-new-namespace": "self._taxon_namespace == taxon_namespace", "closed": clt("self"),
                      "members-kept-in-every-namespace": all_kept(), "nodes-of-other-trees-untouched": others_nodes("self")}),
    Contract(TC + ":TreeList._import_tree_to_taxon_namespace", types={"tree": "ref:Tree", "taxon_import_strategy": "opaque", "**": "opaque", "return": "ref:Tree"},
             requires="listinv(tree.g_nodes) and " + clt("tree"),
             modifies=NS_MODS + ["Node.taxon[*]", "tree._taxon_namespace"], frame=False,
             allowed_raises=("ImmutableTaxonNamespaceError", "ValueError"),
             ensures={"shares-the-list's-namespace": "tree._taxon_namespace == self._taxon_namespace", "closed": clt("tree"), "returns-the-tree": "result == tree",
                      "members-kept-in-every-namespace": all_kept(), "nodes-of-other-trees-untouched": others_nodes("tree")}),
    Contract(TC + ":TreeList.append", types={"tree": "ref:Tree", "taxon_import_strategy": "opaque", "**": "opaque"},
             requires="listinv(tree.g_nodes) and " + clt("tree"),
             modifies=NS_MODS + ["Node.taxon[*]", "tree._taxon_namespace", "self._trees"], frame=False,
             allowed_raises=("ImmutableTaxonNamespaceError", "ValueError"),
             ensures={"shares-the-list's-namespace": "tree._taxon_namespace == self._taxon_namespace", "closed": clt("tree"),
                      "one-more-tree": "len(self._trees) == old(len(self._trees)) + 1",
                      "members-kept-in-every-namespace": all_kept(), "nodes-of-other-trees-untouched": others_nodes("tree")}),
    Contract(TC + ":TreeList.insert", types={"index": "int", "tree": "ref:Tree", "taxon_import_strategy": "opaque", "**": "opaque"},
             requires="listinv(tree.g_nodes) and " + clt("tree"),
             modifies=NS_MODS + ["Node.taxon[*]", "tree._taxon_namespace", "self._trees"], frame=False,
             allowed_raises=("ImmutableTaxonNamespaceError", "ValueError"),
             ensures={"shares-the-list's-namespace": "tree._taxon_namespace == self._taxon_namespace", "closed": clt("tree"),
                      "one-more-tree": "len(self._trees) == old(len(self._trees)) + 1",
                      "members-kept-in-every-namespace": all_kept(), "nodes-of-other-trees-untouched": others_nodes("tree")}),
]


class NSExecutor(Executor3):
    lenient = True
    iter_views = {"Tree": "g_nodes"}


SUITE = Suite(SCHEMA, [TX, CM, TR, TC], CONTRACTS + ASSUMED, executor_cls=NSExecutor)


def _assumed_states(c):
    """namespaces with plain, duplicate and case-variant labels, mutable and frozen, looked up / extended by labels that are present, absent or differ in case"""
    import itertools
    import dendropy
    from dendropy.datamodel.taxonmodel import Taxon
    meth = c.name.split(".")[-1]
    for labels, cs, frozen in itertools.product((["A", "B"], ["A", "a", "B"], ["A", "A"], []), (False, True), (False, True)):
        for arg in ("A", "a", "Z", ""):
            ns = dendropy.TaxonNamespace(is_case_sensitive=cs)
            for l in labels:
                ns.add_taxon(Taxon(l))
            other = dendropy.TaxonNamespace(["A", "Q"])
            foreign = Taxon(arg)
            ns.is_mutable = not frozen
            uni = {"Taxon": list(ns) + list(other) + [foreign], "TaxonNamespace": [ns, other]}
            desc = "namespace %r case_sensitive=%r frozen=%r, argument %r" % (labels, cs, frozen, arg)
            if meth == "add_taxon":
                for t in [foreign] + list(ns)[:1]:
                    yield dict(self=ns, taxon=t), uni, desc + (" (a member)" if t is not foreign else " (a new Taxon)")
            elif meth in ("require_taxon", "get_taxon"):
                yield dict(self=ns, label=arg), uni, desc
            elif meth == "new_taxon":
                yield dict(self=ns, label=arg), uni, desc


def validate_assumed(ctx):
    """the ASSUMED namespace contracts as run-time monitors around the real methods (bounded; never counted as proved)"""
    import copy
    cs = []
    for c in ASSUMED:
        c2 = copy.copy(c)
        c2.assumed = False
        cs.append(c2)
    dreplay.validate_contracts_natively(
        ctx, cs, _assumed_states, "assumed-contracts@namespaces",
        rule="the contracts C11's proofs ASSUME for TaxonNamespace.add_taxon / require_taxon / new_taxon / get_taxon, checked natively on 4 label sets x "
             "case sensitivity x frozen x 4 argument labels")


def t1(ctx):
    ctx.assume("C11/T1: membership of a taxon in a namespace is membership in its accession dictionary (what `taxon in ns` tests); the contracts of "
               "add_taxon / new_taxon / require_taxon / get_taxon that the callers are verified against are themselves PROVED (contracts/C11ns.py, same ensures "
               "texts) under the representation invariant 'every listed taxon is a key of the accession map', which those functions and clear() preserve; that "
               "every reachable namespace satisfies it (remove_taxon, sort, reverse, constructors, copies) is validated natively, not proved; "
               "sequences and memo dictionaries are abstracted values")
    for c in CONTRACTS:
        verify_contract(ctx, SUITE, c, sentinels=False, replay=dreplay.replay_by_search(_states))
    from contracts import C11ns
    C11ns.t1(ctx)
    validate_assumed(ctx)
    from_dict_matching(ctx)


def from_dict_matching(ctx):
    """CharacterMatrix.from_dict: which member a string key names is decided by require_taxon under the caller's
    case_sensitive_taxon_labels (documented) -- AST obligation: every require_taxon call of from_dict gets is_case_sensitive=<that parameter>,
    and a Taxon key that is not a member is added (`add_taxon`) before its row is stored"""
    import ast
    import time
    from dpvc import frontend
    tgt = "dendropy.datamodel.charmatrixmodel:CharacterMatrix.from_dict"
    t0 = time.time()
    m, ci, fn = frontend.resolve(tgt)
    ctx.add_function(tgt)
    calls = [n for n in ast.walk(fn) if isinstance(n, ast.Call) and isinstance(n.func, ast.Attribute) and n.func.attr == "require_taxon"]
    ok = bool(calls) and all(any(k.arg == "is_case_sensitive" and isinstance(k.value, ast.Name) and k.value.id == "case_sensitive_taxon_labels" for k in c.keywords) for c in calls)
    name = "CharacterMatrix.from_dict.forwards[case_sensitive_taxon_labels -> require_taxon(is_case_sensitive=)]"
    ctx.obligation(name, "proved" if ok else "refuted", "ast-scan", time.time() - t0, tgt,
                   detail=None if ok else "require_taxon calls: %s" % [ast.unparse(c) for c in calls])
    if not ok:
        import dendropy
        ns = dendropy.TaxonNamespace(["Human"])
        mm = dendropy.DnaCharacterMatrix.from_dict({"HUMAN": "ACGT"}, taxon_namespace=ns, case_sensitive_taxon_labels=False)
        labels = [t.label for t in ns]
        if labels != ["Human"]:
            ctx.fail(name, dict(key="from_dict|HUMAN into [Human], flag False", members=labels),
                     detail="from_dict({'HUMAN': ...}, taxon_namespace=ns(['Human']), case_sensitive_taxon_labels=False) leaves the members %r: the key was not matched "
                            "ignoring case as the flag asks" % (labels,), kind="T1")
        else:
            ns2 = dendropy.TaxonNamespace(["a"])
            dendropy.DnaCharacterMatrix.from_dict({"A": "ACGT"}, taxon_namespace=ns2, case_sensitive_taxon_labels=True)
            labels2 = [t.label for t in ns2]
            if labels2 != ["a", "A"]:
                ctx.fail(name, dict(key="from_dict|A into [a], flag True", members=labels2),
                         detail="from_dict({'A': ...}, taxon_namespace=ns(['a']), case_sensitive_taxon_labels=True) leaves the members %r, required ['a', 'A']" % (labels2,), kind="T1")
            else:
                ctx.fail(name, dict(key="site:from_dict.require_taxon"), detail="the flag is not handed to require_taxon; no failing input found", kind="T1", no_input=True)


# ----------------------------------------------------------------------------- native replay: small matrices
def _states(c):
    """CharacterMatrix objects whose sequences are keyed by members and non-members of the namespace, with and
    without a caller-supplied memo"""
    import itertools
    import dendropy
    from dendropy.datamodel.taxonmodel import Taxon
    meth = c.name.split(".")[-1]
    if c.name.startswith(("Tree.", "TreeList.")):
        for x in _tree_states(c, meth):
            yield x
        return
    for inside, outside in itertools.product(((), (0,), (0, 1)), ((), (0,), (0, 1))):
        for variant in range(4):
            ns = dendropy.TaxonNamespace(["A", "B"])
            mem = list(ns)
            out = [Taxon("F"), Taxon("A")]
            m = dendropy.DnaCharacterMatrix(taxon_namespace=ns)
            for i in inside:
                m._taxon_sequence_map[mem[i]] = m.character_sequence_type("AC")
            for i in outside:
                m._taxon_sequence_map[out[i]] = m.character_sequence_type("GT")
            uni = {"Taxon": mem + out, "TaxonNamespace": [ns]}
            desc = "keys: members %r, non-members %r" % ([mem[i].label for i in inside], [out[i].label for i in outside])
            if meth == "new_sequence":
                for t in mem + out:
                    yield dict(self=m, taxon=t, values="AC"), uni, desc + " taxon=%s(%s)" % (t.label, "member" if t in mem else "foreign")
                    m._taxon_sequence_map.pop(t, None) if t not in [mem[i] for i in inside] + [out[i] for i in outside] else None
                break
            elif meth == "update_taxon_namespace":
                yield dict(self=m), uni, desc
                break
            elif meth == "reconstruct_taxon_namespace":
                memo = None
                if variant >= 2:
                    fresh = [Taxon("F"), Taxon("Q")]
                    uni["Taxon"] = uni["Taxon"] + fresh
                    memo = dict(zip([out[0], mem[0]], fresh))
                yield (dict(self=m, unify_taxa_by_label=(variant % 2 == 0), taxon_mapping_memo=memo), uni,
                       desc + " unify=%r memo=%s" % (variant % 2 == 0, "none" if memo is None else "F->fresh F, A->fresh Q"))


def _tree_states(c, meth):
    """trees whose nodes (internal ones too) carry members and non-members of the tree's namespace; tree lists over another namespace"""
    import itertools
    import dendropy
    from dendropy.datamodel.taxonmodel import Taxon
    for pattern, variant in itertools.product(range(4), range(4)):
        ns = dendropy.TaxonNamespace(["A", "B", "C"])
        tree = dendropy.Tree.get(data="((A,B)C,D)E;" if pattern % 2 else "((A,B),C);", schema="newick", taxon_namespace=ns,
                                 suppress_internal_node_taxa=False)
        out = [Taxon("F"), Taxon("A")]
        nodes = list(tree)
        if pattern >= 2:
            nodes[-1].taxon = out[0]     # a leaf on a taxon outside the namespace
            nodes[1].taxon = out[1]      # an internal node on an outside taxon with a label the namespace knows
        tree.g_nodes = list(tree)
        uni = {"Taxon": list(ns) + out, "TaxonNamespace": [ns], "Node": nodes, "Tree": [tree]}
        desc = "tree %s%s" % (tree.as_string("newick").strip(), " with F and a second A from outside on two nodes" if pattern >= 2 else "")
        if meth == "update_taxon_namespace":
            if variant == 0:
                yield dict(self=tree), uni, desc
        elif meth == "reconstruct_taxon_namespace":
            memo = None
            if variant >= 2:
                fresh = [Taxon("F"), Taxon("Q")]
                uni["Taxon"] = uni["Taxon"] + fresh
                memo = dict(zip([out[0], list(ns)[0]], fresh))
            yield (dict(self=tree, unify_taxa_by_label=(variant % 2 == 0), taxon_mapping_memo=memo), uni,
                   desc + " unify=%r memo=%s" % (variant % 2 == 0, "none" if memo is None else "F->fresh F, A->fresh Q"))
        elif meth == "migrate_taxon_namespace":
            ns2 = dendropy.TaxonNamespace(["B", "D"])
            uni["Taxon"] = uni["Taxon"] + list(ns2)
            uni["TaxonNamespace"].append(ns2)
            yield dict(self=tree, taxon_namespace=ns2, unify_taxa_by_label=(variant % 2 == 0), taxon_mapping_memo=None), uni, desc + " -> namespace [B, D] unify=%r" % (variant % 2 == 0)
        else:
            if pattern >= 2:
                continue  # requires: the incoming tree is closed over its own namespace
            ns2 = ns if variant == 3 else dendropy.TaxonNamespace(["B", "D"])
            tl = dendropy.TreeList(taxon_namespace=ns2)
            uni["Taxon"] = uni["Taxon"] + [t for t in ns2 if t not in uni["Taxon"]]
            uni["TaxonNamespace"] = [ns, ns2] if ns2 is not ns else [ns]
            strat = "add" if variant == 1 else "migrate"
            kw = dict(self=tl, tree=tree, taxon_import_strategy=strat)
            if meth == "insert":
                kw["index"] = 0
            yield kw, uni, desc + " into a list over %s, strategy %s" % ([t.label for t in ns2], strat)


def replay(ctx, rec):
    if str(rec.get("obligation", "")).startswith("CharacterMatrix.from_dict.forwards"):
        import dendropy
        ns = dendropy.TaxonNamespace(["Human"])
        dendropy.DnaCharacterMatrix.from_dict({"HUMAN": "ACGT"}, taxon_namespace=ns, case_sensitive_taxon_labels=False)
        ns2 = dendropy.TaxonNamespace(["a"])
        dendropy.DnaCharacterMatrix.from_dict({"A": "ACGT"}, taxon_namespace=ns2, case_sensitive_taxon_labels=True)
        a, b = [t.label for t in ns], [t.label for t in ns2]
        print("from_dict HUMAN into [Human] ignoring case -> %r; A into [a] respecting case -> %r" % (a, b))
        return a == ["Human"] and b == ["a", "A"]
    return dreplay.replay_state_record(rec, CONTRACTS, _states)
