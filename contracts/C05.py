"""C05 -- split frequencies are exact (T1 part: the SplitDistribution accumulator).

The property's first sentence -- "the split distribution reports for every split the fraction of
trees (weighted by tree weight when weights are used) that contain it, and nothing for splits
that occur in no tree" -- is carried by five small methods of SplitDistribution whose state is a
`collections.defaultdict(float)` of split counts, two counters and a cached frequency table.

Dictionaries are maps (key set + value array) on the access path self.<field>; `split_counts` is
a defaultdict (reading a missing key inserts 0.0 -- modelled, and the reason `x[k] += c` is total).
Split bitmasks are opaque integer keys here (their bit structure is C01's subject).  Floats are
mathematical reals (assumption; the bounded driver compares natively with a tolerance).

A `for k in <dict>` loop is verified with a ghost set seen(k) of the keys already visited: the
body is run for an arbitrary unseen key, the invariant is stated over seen, the exit state knows
seen == keys; the iterated dictionary must keep its key set (obligation).  No order of visiting
is assumed, so the postconditions hold for every hash order.

Contracts (postconditions from the property statement):
  add_split_count           counts'[s] = counts[s] (0 if absent) + c, every other key untouched
  calc_normalization_weight the sum of tree weights if that is non-zero, else the number of trees
  calc_freqs                freq has exactly the keys of counts and freq[s] = counts[s] / W
  _get_split_frequencies    the table returned is current: as calc_freqs, whatever the cache held
  __getitem__               counts[s] / W for a counted split, 0.0 for every other mask
  update                    pointwise sum of the two count tables, tree and weight totals added
                            (the step that C06's merge lemmas fold: lemmas/Merge.lean)
  count_splits_on_tree      every bipartition of the tree's encoding adds the tree's weight (1.0
                            when weights are not used / absent) to its split, one tree is counted,
                            the weight total grows by the same weight, no other split changes"""
import os

from dpvc.symexec import Contract, Loop
from dpvc.symexec3 import Executor3
from dpvc.verify import Suite, verify_contract
from dpvc import lean
from dpvc import replay as dreplay

TC = "dendropy.datamodel.treecollectionmodel"
TX_TREE = "dendropy.datamodel.treemodel._tree"

SCHEMA = {
    "SplitDistribution.split_counts": "map:int:real default=0.0",
    "SplitDistribution._split_freqs": "opt map:int:real",
    "SplitDistribution.total_trees_counted": "int",
    "SplitDistribution.sum_of_tree_weights": "real",
    "SplitDistribution._trees_counted_for_freqs": "int",
    "SplitDistribution._trees_counted_for_summaries": "int",
    # the two summary tables: their CONTENT is abstracted (statistics over value lists); what is modelled is whether there is a table
    # and -- ghost -- how many trees had been counted when it was computed
    "SplitDistribution._split_edge_length_summaries": "opt map:int:int",
    "SplitDistribution._split_node_age_summaries": "opt map:int:int",
    "SplitDistribution.g_len_at": "ghost int",
    "SplitDistribution.g_age_at": "ghost int",
    "SplitDistribution.use_tree_weights": "opt bool",
    "SplitDistribution.ignore_edge_lengths": "opt bool",
    "SplitDistribution.ignore_node_ages": "opt bool",
    "SplitDistribution.taxon_namespace": "ref:TaxonNamespace",
    "Tree.taxon_namespace": "ref:TaxonNamespace",
    "Tree.weight": "opt real",
    "Tree._is_rooted": "opt bool",
    "Tree.bipartition_encoding": "reflist:Bipartition",
    "Bipartition.split_bitmask": "int",
    "Bipartition.g_pos": "ghost int",
    "Bipartition.g_owner": "ghost opt ref:Tree",
}

CNT = "self.split_counts"
FRQ = "self._split_freqs"


def cnt(x, k):
    return "ite(has({x}.split_counts, {k}), get({x}.split_counts, {k}), 0.0)".format(x=x, k=k)


W = "ite(self.sum_of_tree_weights != 0, self.sum_of_tree_weights, self.total_trees_counted)"
FREQ_TABLE = ("forall_int(lambda s: has({frq}, s) == has({cnt}, s)) and "
              "forall_int(lambda s: implies(has({cnt}, s), get({frq}, s) == ite(self.total_trees_counted == 0, 1.0, get({cnt}, s) / ({w}))))"
              ).format(frq=FRQ, cnt=CNT, w=W)
COUNTS_KEPT = ("forall_int(lambda s: has({cnt}, s) == old(has({cnt}, s)) and get({cnt}, s) == old(get({cnt}, s)))").format(cnt=CNT)

CONTRACTS = [
    Contract(TC + ":SplitDistribution.add_split_count", types={"split": "int", "count": "real"},
             modifies=["self.split_counts"],
             ensures={"adds-to-this-split": "has({c}, split) and get({c}, split) == old({o}) + count".format(c=CNT, o=cnt("self", "split")),
                      "other-splits-untouched": "forall_int(lambda s: implies(s != split, has({c}, s) == old(has({c}, s)) and get({c}, s) == old(get({c}, s))))".format(c=CNT)}),
    Contract(TC + ":SplitDistribution.calc_normalization_weight", types={"return": "real"},
             ensures={"weight-total-else-tree-count": "result == " + W}),
    Contract(TC + ":SplitDistribution.calc_freqs", types={}, returns="self._split_freqs",
             modifies=["self._split_freqs", "self._trees_counted_for_freqs", "self._split_edge_length_summaries", "self._split_node_age_summaries"],
             frame=False,
             loops={0: Loop(invariant="not isnone({f}) and forall_int(lambda s: has({f}, s) == seen(s)) and "
                                      "forall_int(lambda s: implies(seen(s), get({f}, s) == 1.0)) and {k}".format(f=FRQ, k=COUNTS_KEPT)),
                    1: Loop(invariant="not isnone({f}) and forall_int(lambda s: has({f}, s) == seen(s)) and "
                                      "forall_int(lambda s: implies(seen(s), get({f}, s) == get({c}, s) / normalization_weight)) and {k} "
                                      "and normalization_weight == {w}".format(f=FRQ, c=CNT, k=COUNTS_KEPT, w=W))},
             locals={"normalization_weight": "real", "count": "real"},
             ensures={"table-present": "not isnone(%s)" % FRQ,
                      "frequency-is-count-over-total-weight": FREQ_TABLE,
                      "nothing-for-uncounted-splits": "forall_int(lambda s: implies(not has(%s, s), not has(%s, s)))" % (CNT, FRQ),
                      "counts-untouched": COUNTS_KEPT,
                      "cache-marked-current": "self._trees_counted_for_freqs == self.total_trees_counted"}),
    Contract(TC + ":SplitDistribution._get_split_frequencies", types={}, returns="self._split_freqs",
             modifies=["self._split_freqs", "self._trees_counted_for_freqs", "self._split_edge_length_summaries", "self._split_node_age_summaries"],
             frame=False,
             requires="implies(not isnone({f}) and self._trees_counted_for_freqs == self.total_trees_counted, {t})".format(f=FRQ, t=FREQ_TABLE),
             ensures={"table-present": "not isnone(%s)" % FRQ,
                      "table-current": FREQ_TABLE,
                      "counts-untouched": COUNTS_KEPT}),
    Contract(TC + ":SplitDistribution.__getitem__", types={"split_bitmask": "int", "return": "real"},
             modifies=["self._split_freqs", "self._trees_counted_for_freqs", "self._split_edge_length_summaries", "self._split_node_age_summaries"],
             frame=False,
             requires="implies(not isnone({f}) and self._trees_counted_for_freqs == self.total_trees_counted, {t})".format(f=FRQ, t=FREQ_TABLE),
             ensures={"fraction-of-(weighted)-trees": "implies(has({c}, split_bitmask), result == ite(self.total_trees_counted == 0, 1.0, get({c}, split_bitmask) / ({w})))".format(c=CNT, w=W),
                      "nothing-for-splits-in-no-tree": "implies(not has(%s, split_bitmask), result == 0.0)" % CNT,
                      "counts-untouched": COUNTS_KEPT}),
]


def cv(x, k, wrap="{}"):
    return wrap.format("ite(has({x}.split_counts, {k}), get({x}.split_counts, {k}), 0.0)".format(x=x, k=k))


OTHER_KEPT = ("forall_int(lambda s: has(split_dist.split_counts, s) == {P}(has(split_dist.split_counts, s)) "
              "and get(split_dist.split_counts, s) == {P}(get(split_dist.split_counts, s)))")

CONTRACTS.append(
    Contract(TC + ":SplitDistribution.update", types={"split_dist": "ref:SplitDistribution"},
             requires="self != split_dist",
             modifies=["self.split_counts", "self.total_trees_counted", "self.sum_of_tree_weights", "self._trees_counted_for_summaries",
                       "split_dist.split_counts"],
             frame=False,
             loops={0: Loop(invariant=(
                 "forall_int(lambda s: has(self.split_counts, s) == (pre(has(self.split_counts, s)) or seen(s))) and "
                 "forall_int(lambda s: {now} == pre({now}) + ite(seen(s), get(split_dist.split_counts, s), 0.0)) and "
                 "{other} and self.total_trees_counted == pre(self.total_trees_counted) and "
                 "self.sum_of_tree_weights == pre(self.sum_of_tree_weights)"
             ).format(now=cnt("self", "s"), other=OTHER_KEPT.format(P="pre")))},
             ensures={"counts-added-pointwise": "forall_int(lambda s: {now} == old({now}) + old({oth}))".format(now=cnt("self", "s"), oth=cnt("split_dist", "s")),
                      "keys-are-the-union": "forall_int(lambda s: has(self.split_counts, s) == (old(has(self.split_counts, s)) or old(has(split_dist.split_counts, s))))",
                      "trees-added": "self.total_trees_counted == old(self.total_trees_counted) + old(split_dist.total_trees_counted)",
                      "weights-added": "self.sum_of_tree_weights == old(self.sum_of_tree_weights) + old(split_dist.sum_of_tree_weights)",
                      "other-untouched": OTHER_KEPT.format(P="old") + " and split_dist.total_trees_counted == old(split_dist.total_trees_counted) "
                                         "and split_dist.sum_of_tree_weights == old(split_dist.sum_of_tree_weights)"}))

ENC = "tree.bipartition_encoding"
DISTINCT = ("forall_int(lambda i: forall_int(lambda j: implies(0 <= i and i < j and j < length({e}), "
            "at({e}, i).split_bitmask != at({e}, j).split_bitmask)))")
WT = "ite(not isnone(tree.weight) and truthy(self.use_tree_weights), tree.weight, 1.0)"

CONTRACTS.append(
    Contract(TC + ":SplitDistribution.count_splits_on_tree",
             types={"tree": "ref:Tree", "is_bipartitions_updated": "bool", "default_edge_length_value": "opaque", "return": "opaque"},
             requires="tree.taxon_namespace == self.taxon_namespace and listinv({e}) and implies(is_bipartitions_updated, {d})".format(
                 e=ENC, d=DISTINCT.format(e=ENC)),
             modifies=["self.split_counts", "self.total_trees_counted", "self.sum_of_tree_weights", "tree.bipartition_encoding"],
             frame=False,
             locals={"weight_to_use": "real", "split": "int", "bipartition": "ref:Bipartition"},
             loops={0: Loop(invariant=(
                 "forall_int(lambda j: implies(0 <= j and j < loop_index(), "
                 "  has(self.split_counts, at({e}, j).split_bitmask) and "
                 "  get(self.split_counts, at({e}, j).split_bitmask) == pre({pj}) + weight_to_use)) and "
                 "forall_int(lambda s: implies(forall_int(lambda j: implies(0 <= j and j < loop_index(), at({e}, j).split_bitmask != s)), "
                 "  has(self.split_counts, s) == pre(has(self.split_counts, s)) and get(self.split_counts, s) == pre(get(self.split_counts, s)))) and "
                 "self.total_trees_counted == pre(self.total_trees_counted) and self.sum_of_tree_weights == pre(self.sum_of_tree_weights) and {d}"
             ).format(e=ENC, pj=cnt("self", "at(%s, j).split_bitmask" % ENC), d=DISTINCT.format(e=ENC)))},
             ensures={"one-tree-counted": "self.total_trees_counted == old(self.total_trees_counted) + 1",
                      "weight-total-grows-by-the-tree-weight": "self.sum_of_tree_weights == old(self.sum_of_tree_weights) + old(%s)" % WT,
                      "every-split-of-the-tree-gets-the-tree-weight": (
                          "forall_int(lambda j: forall_int(lambda s: implies(0 <= j and j < length({e}) and s == at({e}, j).split_bitmask, "
                          "has(self.split_counts, s) and get(self.split_counts, s) == old({ps}) + old({w}))))").format(
                              e=ENC, ps=cnt("self", "s"), w=WT),
                      "no-other-split-changes": (
                          "forall_int(lambda s: implies(forall_int(lambda j: implies(0 <= j and j < length({e}), at({e}, j).split_bitmask != s)), "
                          "has(self.split_counts, s) == old(has(self.split_counts, s)) and get(self.split_counts, s) == old(get(self.split_counts, s))))").format(e=ENC)}))

# ---- the summary tables (per-split edge-length / node-age statistics) are caches with ONE staleness counter between them.
# Representation invariant: a table that is present while the counter equals the number of trees counted was computed from exactly
# those trees; the counter never exceeds the number of trees counted.
def _tab_inv(x, tab, g):
    return ("implies(not isnone({x}.{t}) and {x}._trees_counted_for_summaries == {x}.total_trees_counted, {x}.{g} == {x}.total_trees_counted)").format(x=x, t=tab, g=g)


def SUMM_INV(x="self"):
    return (_tab_inv(x, "_split_edge_length_summaries", "g_len_at") + " and " + _tab_inv(x, "_split_node_age_summaries", "g_age_at") +
            " and 0 <= {x}._trees_counted_for_summaries and {x}._trees_counted_for_summaries <= {x}.total_trees_counted".format(x=x))


SUMMARY_TABLES = (("_split_edge_length_summaries", "g_len_at", "calc_split_edge_length_summaries", "_get_split_edge_length_summaries"),
                  ("_split_node_age_summaries", "g_age_at", "calc_split_node_age_summaries", "_get_split_node_age_summaries"))
SUMM_ASSUMED, SUMM_CONTRACTS = [], []
for _tab, _g, _calc, _getter in SUMMARY_TABLES:
    # calc_*: recomputes its table from every value list the distribution holds (content abstracted) -- ASSUMED; that it writes nothing but
    # its own table is an obligation on the real body (summary_calc_frames below)
    SUMM_ASSUMED.append(Contract(TC + ":SplitDistribution." + _calc, types={"return": "opaque"}, requires="True", modifies=["self." + _tab, "self." + _g],
                                 frame=False, assumed=True,
                                 ensures={"table-of-everything-counted": "not isnone(self.%s) and self.%s == self.total_trees_counted" % (_tab, _g)}))
    SUMM_CONTRACTS.append(Contract(TC + ":SplitDistribution." + _getter, types={"return": "opaque"}, requires=SUMM_INV(),
                                   modifies=["self." + _tab, "self." + _g], frame=False,
                                   ensures={"the-table-is-of-the-trees-counted-now": "not isnone(self.%s) and self.%s == self.total_trees_counted" % (_tab, _g),
                                            "summary-cache-protocol": SUMM_INV()}))

# every method that touches the counter, the number of trees counted or a table keeps the protocol invariant
for _c in CONTRACTS:
    _m = _c.name.split(".")[-1]
    if _m in ("calc_freqs", "_get_split_frequencies", "__getitem__", "update", "count_splits_on_tree"):
        _c.requires_core, _c.modifies_core = _c.requires, list(_c.modifies)   # the accumulator part alone (used by contracts/C06.py as a callee contract)
        _c.requires = "(%s) and %s" % (_c.requires, SUMM_INV()) if _c.requires and _c.requires != "True" else SUMM_INV()
        if _m == "update":
            _c.requires += " and " + SUMM_INV("split_dist")     # the argument is a distribution in a consistent state too
        _c.ensures["summary-cache-protocol"] = SUMM_INV()
        for _f in ("self._split_edge_length_summaries", "self._split_node_age_summaries"):
            if _f not in _c.modifies:
                _c.modifies.append(_f)

# assumed (C01's subject, proved there for the bitmask algebra and checked bounded for whole trees): a fresh encoding
# lists every split of the tree once.  The one known exception is recorded as C05-two-leaf-unrooted.
ASSUMED = [
    # the lookup table edge-by-bipartition is rebuilt lazily; inside the counting loop the encoding is non-empty, so the
    # getter does not re-encode.  Assumed: it writes none of the modelled fields.
    Contract(TX_TREE + ":Tree._get_bipartition_edge_map", types={"return": "opaque"}, assumed=True, modifies=[], frame=False),
    Contract(TX_TREE + ":Tree.encode_bipartitions", types={"**": "opaque", "return": "opaque"}, assumed=True,
             modifies=["self.bipartition_encoding"], frame=False,
             ensures={"splits-listed-once": "listinv(self.bipartition_encoding) and " + DISTINCT.format(e="self.bipartition_encoding")}),
]


class SDExecutor(Executor3):
    lenient = True


SUITE = Suite(SCHEMA, [TC, TX_TREE], CONTRACTS + SUMM_CONTRACTS + SUMM_ASSUMED + ASSUMED, executor_cls=SDExecutor)


def summary_calc_frames(ctx):
    """the real bodies of the two calc_* functions assign no attribute of self but their own table (in particular not the staleness counter
    the two tables share) -- the frame their ASSUMED contract states"""
    import ast
    import time
    from dpvc import frontend
    m = frontend.module(TC)
    ci = m.classes["SplitDistribution"]
    out = []
    for tab, g, calc, getter in SUMMARY_TABLES:
        t0 = time.time()
        fn = ci.methods[calc]
        bad = []
        for n in ast.walk(fn):
            tgt = None
            if isinstance(n, ast.Attribute) and isinstance(n.ctx, (ast.Store, ast.Del)) and isinstance(n.value, ast.Name) and n.value.id == "self":
                tgt = n.attr
            if tgt is not None and tgt != tab:
                bad.append("line %d: self.%s" % (n.lineno, tgt))
        name = "SplitDistribution.%s.assigns-only-its-own-table" % calc
        ctx.obligation(name, "proved" if not bad else "refuted", "ast-scan", time.time() - t0, TC + ":SplitDistribution." + calc, detail=None if not bad else "; ".join(bad))
        if bad:
            out.append((name, bad))
    return out


def native_summary_tables_stale():
    """native witness: a summary is looked at, more trees are counted, both tables are read one after the other"""
    import dendropy
    ns = dendropy.TaxonNamespace(["A", "B", "C"])
    trees = [dendropy.Tree.get(data="[&R] ((A:%s,B:%s):1,C:%s);" % (x, x, x + 1), schema="newick", taxon_namespace=ns) for x in (1.0, 2.0, 4.0)]
    sd = dendropy.SplitDistribution(taxon_namespace=ns)
    sd.ignore_node_ages = False
    sd.count_splits_on_tree(trees[0])
    sd.split_edge_length_summaries, sd.split_node_age_summaries
    for t in trees[1:]:
        sd.count_splits_on_tree(t)
    for order in (("split_edge_length_summaries", "split_node_age_summaries"), ("split_node_age_summaries", "split_edge_length_summaries")):
        tabs = dict((nm, getattr(sd, nm)) for nm in order)
        for nm, vals in (("split_edge_length_summaries", sd.split_edge_lengths), ("split_node_age_summaries", sd.split_node_ages)):
            for sp, vv in vals.items():
                vv = [v for v in vv if v is not None]
                if vv and abs(tabs[nm][sp]["mean"] - sum(vv) / len(vv)) > 1e-9:
                    return "after counting 1 tree, reading both tables, counting 2 more and reading %s then %s: %s of split %s has mean %r, the %d values collected have mean %r" % (
                        order[0], order[1], nm, bin(sp), tabs[nm][sp]["mean"], len(vv), sum(vv) / len(vv))
    return None


def validate_assumed(ctx):
    """the ASSUMED contract of Tree.encode_bipartitions -- every split listed once -- checked natively on small trees (bounded)"""
    import dendropy
    from contracts import _wf
    scope = "assumed-contracts@encode_bipartitions"
    ctx.scope(scope, rule="split bitmasks of a fresh encoding are pairwise distinct, on %d small trees x {rooted, unrooted}" % len(_wf.NEWICKS), exhaustive=False)
    for nw in _wf.NEWICKS:
        for rooting in ("[&R] ", "[&U] "):
            tree = dendropy.Tree.get(data=rooting + nw, schema="newick", suppress_internal_node_taxa=False)
            enc = tree.encode_bipartitions()
            masks = [b.split_bitmask for b in enc]
            n_leaves = len(tree.leaf_nodes())
            key = "%s%s (%d leaves after encoding)" % (rooting, nw, n_leaves)
            ctx.case(scope, key, nontrivial=n_leaves >= 3, sample=key)
            if len(set(masks)) != len(masks):
                ctx.fail("assumed.encode_bipartitions.splits-listed-once", dict(key=key, tree=rooting + nw, masks=[bin(m) for m in masks]),
                         detail="%s: split bitmasks %s" % (key, [bin(m) for m in masks]), kind="T2")


def t1(ctx):
    ctx.assume("C05/T1: Python floats are mathematical reals (division exact; the bounded driver compares natively with a tolerance); "
               "split bitmasks are opaque integer dictionary keys; dictionaries are reached only through self.<field>")
    ctx.assume("C05/T1 covers the SplitDistribution accumulator (counting, merging, frequency table, lookup); consensus construction "
               "(Tree.from_split_bitmasks), summarisation, collapsing and credibility scores are decided by the bounded driver only (T2)")
    for c in CONTRACTS + SUMM_CONTRACTS:
        verify_contract(ctx, SUITE, c, sentinels=False, replay=dreplay.replay_by_search(_states))
    fr = summary_calc_frames(ctx)
    if fr:
        w = native_summary_tables_stale()
        for name, bad in fr:
            if w:
                ctx.fail(name, dict(key="summary-tables|stale", sites=bad, outcome=w, replay_kind="summary-tables"), detail="%s (%s)" % (w, bad[0]), kind="T1")
            else:
                ctx.fail(name, dict(key="site:" + bad[0], sites=bad), detail="calc function assigns " + bad[0], kind="T1", no_input=True)
    validate_assumed(ctx)
    # what a caller says about its trees' encodings (is_bipartitions_updated) reaches the function that acts on it unchanged, on every summary route
    from dpvc import forwarding
    forwarding.obligations(ctx, "is_bipartitions_updated", lambda mn: mn in ("dendropy.datamodel.treecollectionmodel", "dendropy.calculate.treesum"),
                           "flag-reaches", exact=True, native=native_stale_summary)
    # ... and use_tree_weights reaches the distribution that weighs (or does not weigh) the trees, from every function and class that accepts it
    forwarding.obligations(ctx, "use_tree_weights", lambda mn: mn in ("dendropy.datamodel.treecollectionmodel", "dendropy.calculate.treesum",
                                                                      "dendropy.application.sumtrees"),
                           "weights-flag-reaches", exact=False, native=native_weights_flag_ignored)
    options_handed_on(ctx)


def options_handed_on(ctx):
    """TreeList._get_tree_array(kwargs_dict) builds the array every TreeList summary goes through: each option of TreeArray.from_tree_list is taken
    from the caller's keywords under its own name (AST): an option left out of the call silently becomes the default"""
    import ast
    import time
    from dpvc import frontend
    t0 = time.time()
    TCM = "dendropy.datamodel.treecollectionmodel"
    m, ci, fn = frontend.resolve(TCM + ":TreeList._get_tree_array")
    m2, ci2, callee = frontend.resolve(TCM + ":TreeArray.from_tree_list")
    ctx.add_function(TCM + ":TreeList._get_tree_array")
    opts = [a.arg for a in callee.args.args if a.arg not in ("cls", "self", "trees")]
    calls = [n for n in ast.walk(fn) if isinstance(n, ast.Call) and isinstance(n.func, ast.Attribute) and n.func.attr == "from_tree_list"]
    kwname = fn.args.args[1].arg if len(fn.args.args) > 1 else None
    failures = []
    for o in opts:
        ok = len(calls) == 1
        if ok:
            v = [k.value for k in calls[0].keywords if k.arg == o]
            ok = (len(v) == 1 and isinstance(v[0], ast.Call) and isinstance(v[0].func, ast.Attribute) and v[0].func.attr in ("pop", "get")
                  and isinstance(v[0].func.value, ast.Name) and v[0].func.value.id == kwname and v[0].args
                  and isinstance(v[0].args[0], ast.Constant) and v[0].args[0].value == o)
        name = "TreeList._get_tree_array.hands-on[%s -> TreeArray.from_tree_list]" % o
        ctx.obligation(name, "proved" if ok else "refuted", "ast-scan", time.time() - t0, TCM + ":TreeList._get_tree_array",
                       detail=None if ok else "the option %s of from_tree_list is not taken from the caller's keywords" % o)
        if not ok:
            failures.append((name, o))
    for name, o in failures:
        w = native_weights_flag_ignored() if o == "use_tree_weights" else (native_stale_summary() if o == "is_bipartitions_updated" else None)
        if w:
            ctx.fail(name, dict(dict(w), key="option|%s|%s" % (o, w.get("key", ""))), detail="the option %s is not handed on; native: %s" % (o, w.get("outcome")), kind="T1")
        else:
            ctx.fail(name, dict(key="site:_get_tree_array.%s" % o), detail="the option %s of TreeArray.from_tree_list is not handed on by TreeList._get_tree_array" % o,
                     kind="T1", no_input=True)


def native_weights_flag_ignored(modname=None, qual=None):
    """weighted trees summarised with use_tree_weights=False through every route that takes the flag: the counts are plain tree counts"""
    import dendropy
    ns = dendropy.TaxonNamespace(["A", "B", "C", "D"])
    text = "[&W 5] ((A,B),(C,D));\n[&W 1] ((A,C),(B,D));\n[&W 1] ((A,C),(B,D));\n"

    def trees():
        return dendropy.TreeList.get(data=text, schema="newick", taxon_namespace=ns, rooting="force-rooted", store_tree_weights=True)
    ab = ns.taxa_bitmask(labels=["A", "B"])
    routes = [("TreeList.split_distribution(use_tree_weights=False)", lambda: trees().split_distribution(use_tree_weights=False)),
              ("TreeList.as_tree_array(use_tree_weights=False)", lambda: trees().as_tree_array(use_tree_weights=False).split_distribution),
              ("TreeArray.from_tree_list(use_tree_weights=False)", lambda: dendropy.TreeArray.from_tree_list(trees(), use_tree_weights=False).split_distribution),
              ("TreeArray(use_tree_weights=False) + add_tree", lambda: _added_w(trees(), ns))]
    for name, f in routes:
        try:
            sd = f()
            got = sd[ab]
        except Exception as e:  # noqa
            return dict(key=name, outcome="%s: %s: %s" % (name, type(e).__name__, e))
        if abs(got - 1.0 / 3) > 1e-9:
            return dict(key=name, outcome="%s on trees weighted 5, 1, 1: frequency of AB|CD %r, one tree in three has it" % (name, got))
    tl = trees()
    con = tl.consensus(min_freq=0.5, use_tree_weights=False)
    if any(set(l.taxon.label for l in nd.leaf_iter()) == {"A", "B"} for nd in con.postorder_internal_node_iter()):
        return dict(key="TreeList.consensus", outcome="TreeList.consensus(min_freq=0.5, use_tree_weights=False) on trees weighted 5, 1, 1 contains AB, which one tree in three has")
    return None


def _added_w(tl, ns):
    import dendropy
    ta = dendropy.TreeArray(taxon_namespace=ns, use_tree_weights=False)
    for t in tl:
        ta.add_tree(t)
    return ta.split_distribution


def native_stale_summary(modname=None, qual=None):
    """trees encoded by an earlier query, edited, then summarised with default arguments through every route: the split counts must be those of
    fresh copies of the trees as they are now"""
    import dendropy
    from dendropy.calculate import treesum
    ns = dendropy.TaxonNamespace(["A", "B", "C", "D", "E"])
    nws = ["((A,B),(C,(D,E)));", "((A,B),(C,(D,E)));", "((A,B),((C,D),E));", "((A,C),(B,(D,E)));"]

    def edited():
        tl = dendropy.TreeList.get(data="\n".join(nws), schema="newick", taxon_namespace=ns, rooting="force-rooted")
        for t in tl:
            t.encode_bipartitions()
        for t in tl[:2]:
            x, y = t.find_node_with_taxon_label("C"), t.find_node_with_taxon_label("D")
            x.taxon, y.taxon = y.taxon, x.taxon
        return tl
    tl = edited()
    fresh = dendropy.TreeList.get(data="\n".join(t.as_string("newick") for t in tl), schema="newick", taxon_namespace=ns, rooting="force-rooted")
    want = dict(fresh.split_distribution().split_counts)
    routes = [("TreeList.split_distribution", lambda l: l.split_distribution()),
              ("TreeArray.from_tree_list", lambda l: dendropy.TreeArray.from_tree_list(l).split_distribution),
              ("TreeArray.add_tree", lambda l: _added(l, ns)),
              ("TreeSummarizer.count_splits_on_trees", lambda l: treesum.TreeSummarizer().count_splits_on_trees(l, split_distribution=dendropy.SplitDistribution(taxon_namespace=ns)))]
    for name, f in routes:
        try:
            got = dict(f(edited()).split_counts)
        except Exception as e:  # noqa
            return dict(key=name, outcome="%s on trees edited after an earlier encoding: %s: %s" % (name, type(e).__name__, e))
        if got != want:
            return dict(key=name, outcome="%s on trees edited after an earlier encoding counts %r; fresh copies of the same trees give %r" % (name, got, want))
    return None


def _added(tl, ns):
    import dendropy
    ta = dendropy.TreeArray(taxon_namespace=ns)
    for t in tl:
        ta.add_tree(t)
    return ta.split_distribution


# ----------------------------------------------------------------------------- native replay: small accumulator states
def _states(c):
    """SplitDistribution objects in reachable states: count tables over splits {1,2,5}, tree / weight totals,
    the frequency cache absent, current or stale"""
    import itertools
    import dendropy
    from dendropy.datamodel.treecollectionmodel import SplitDistribution
    meth = c.name.split(".")[-1]
    tables = [{}, {1: 1.0}, {1: 2.0, 2: 0.5}, {1: 3.0, 2: 1.0, 5: 2.0}]
    totals = [(0, 0.0), (1, 1.0), (3, 3.0), (3, 1.5), (2, 0.0)]
    for tb, (nt, sw), cache in itertools.product(tables, totals, ("none", "current", "stale", "stale-marked-current")):
        sd = SplitDistribution(taxon_namespace=dendropy.TaxonNamespace(["a", "b", "c"]))
        for k, v in tb.items():
            sd.split_counts[k] = v
        sd.total_trees_counted = nt
        sd.sum_of_tree_weights = sw
        if cache == "current":
            sd.calc_freqs()
        elif cache == "stale":
            sd._split_freqs = {1: 0.125}
            sd._trees_counted_for_freqs = nt + 1
        elif cache == "stale-marked-current":
            # outside every requires that names the cache: kept to show the monitor skips it
            sd._split_freqs = {1: 0.125}
            sd._trees_counted_for_freqs = nt
        desc = "counts=%r trees=%d weights=%r cache=%s" % (tb, nt, sw, cache)
        if meth == "count_splits_on_tree":
            if cache != "none":
                continue
            for nwk, wt, use, upd in itertools.product(("[&R] ((a,b),c);", "[&U] (a,b,c);", "[&R] (a,(b,c));"), (None, 0.25, 2.0, 0, 0.0), (True, False), (False, True)):
                me = SplitDistribution(taxon_namespace=dendropy.TaxonNamespace(["a", "b", "c"]), use_tree_weights=use)
                me.split_counts.update(tb)
                me.total_trees_counted, me.sum_of_tree_weights = nt, sw
                tr = dendropy.Tree.get(data=nwk, schema="newick", taxon_namespace=me.taxon_namespace)
                tr.weight = wt
                if upd:
                    tr.encode_bipartitions()
                yield (dict(self=me, tree=tr, is_bipartitions_updated=upd, default_edge_length_value=None), {},
                       desc + " tree=%s weight=%r use_tree_weights=%r updated=%r" % (nwk, wt, use, upd))
            continue
        if meth == "update":
            if cache != "none":
                continue
            for tb2, (nt2, sw2) in itertools.product(tables, totals[:4]):
                o = SplitDistribution(taxon_namespace=sd.taxon_namespace)
                for k, v in tb2.items():
                    o.split_counts[k + 1] = v
                o.total_trees_counted, o.sum_of_tree_weights = nt2, sw2
                me = SplitDistribution(taxon_namespace=sd.taxon_namespace)
                me.split_counts.update(tb)
                me.total_trees_counted, me.sum_of_tree_weights = nt, sw
                yield dict(self=me, split_dist=o), {}, desc + " other: counts=%r trees=%d weights=%r" % (dict(o.split_counts), nt2, sw2)
            continue
        if meth == "add_split_count":
            for split, cnt_ in ((1, 1.0), (7, 2.5)):
                yield dict(self=sd, split=split, count=cnt_), {}, desc + " split=%d count=%r" % (split, cnt_)
                sd.split_counts.clear()
                sd.split_counts.update(tb)
        elif meth == "__getitem__":
            for split in (1, 2, 7):
                yield dict(self=sd, split_bitmask=split), {}, desc + " split=%d" % split
        else:
            yield dict(self=sd), {}, desc


def replay(ctx, rec):
    if str(rec.get("obligation", "")).startswith(("weights-flag-reaches", "TreeList._get_tree_array.hands-on[use_tree_weights")):
        w = native_weights_flag_ignored()
        print(w or "use_tree_weights=False gives plain tree counts on every route of the probe")
        return w is None
    if str(rec.get("obligation", "")).startswith("flag-reaches"):
        w = native_stale_summary()
        print(w or "every summary route with default arguments describes the trees as they are now on the probe")
        return w is None
    return dreplay.replay_state_record(rec, CONTRACTS, _states)
