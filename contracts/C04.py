"""C04 -- tree distances equal their split-set definitions and are metrics (T1 part).

Contracts (sets of split masks as z3 sets; `card` an uninterpreted cardinality):
  false_positives_and_negatives(ref, cmp, is_bipartitions_updated):
     raises TaxonNamespaceIdentityError iff the namespaces differ;
     re-encodes BOTH trees unless is_bipartitions_updated (then only a tree without an encoding);
     result == (card(S_cmp \\ S_ref), card(S_ref \\ S_cmp)) where S_x is the encoding AFTER those calls --
     with default arguments S_x is the ghost `g_current_splits` (what encode_bipartitions produces from the
     current structure): the staleness clause.
  symmetric_difference == fp + fn;  unweighted_robinson_foulds_distance is an alias.
Lemma layer (Lean 4 + Mathlib, lemmas/Metrics.lean, over these contracts): RF = |S1 symmdiff S2|, zero iff equal split
sets, symmetric, triangle inequality; weighted RF / Euclidean are the L1 / L2 distances of the length vectors, hence
symmetric and triangular.  Definedness symmetry of the weighted distances and everything else is bounded (T2)."""
import z3

from dpvc import lean
from dpvc.symexec import Contract, SV, Unsupported, NoneV
from dpvc.symexec2 import Executor2
from dpvc.verify import Suite, verify_contract

TC = "dendropy.calculate.treecompare"
TR = "dendropy.datamodel.treemodel._tree"

SCHEMA = {
    "Tree.taxon_namespace": "ref:TaxonNamespace",
    "Tree.bipartition_encoding": "opt splitset",
    "Tree.g_current_splits": "ghost splitset",
}


class SetExecutor(Executor2):
    """adds a value kind `splitset` (a set of split bit masks): set(<encoding>), .difference, len"""
    lenient = True

    def _ss_sort(self):
        return z3.ArraySort(self.bits.sort, z3.BoolSort())

    def _field_sort(self, f):
        if f.kind == "splitset":
            return self._ss_sort()
        return Executor2._field_sort(self, f)

    @property
    def card(self):
        if not hasattr(self, "_card"):
            self._card = z3.Function("card", self._ss_sort(), z3.IntSort())
        return self._card

    def bi_set(self, e, st):
        v = self.ev(e.args[0], st)
        if v.kind == "splitset":
            self.require_not_none(st, v, "set()", getattr(e, "lineno", None))
            return SV("splitset", v.t)
        if self.lenient:
            return self.opaque()
        raise Unsupported("set() of %s" % v.kind)

    def attr_of(self, st, base, attr, lineno):
        if base.kind == "splitset":
            return SV("func", "splitset." + attr, x=base)
        return Executor2.attr_of(self, st, base, attr, lineno)

    def call(self, st, f, args, kw, ln):
        if f.kind == "func" and isinstance(f.t, str) and f.t.startswith("splitset."):
            name = f.t[9:]
            a, b = f.x, args[0]
            if b.kind != "splitset":
                raise Unsupported("set operation with %s" % b.kind)
            m = {"difference": lambda x, y: z3.Map(_AND, x, z3.Map(_NOT, y)), "intersection": lambda x, y: z3.Map(_AND, x, y),
                 "union": lambda x, y: z3.Map(_OR, x, y)}.get(name)
            if m is None:
                raise Unsupported("set method %s" % name)
            return SV("splitset", m(a.t, b.t))
        return Executor2.call(self, st, f, args, kw, ln)

    def bi_len(self, e, st):
        v = self.ev(e.args[0], st)
        if v.kind == "splitset":
            return SV("int", self.card(v.t))
        return Executor2.bi_len(self, e, st)

    def sp_card(self, e, st):
        (a,) = self._sargs(e, st)
        return SV("int", self.card(a.t))

    def sp_setdiff(self, e, st):
        a, b = self._sargs(e, st)
        return SV("splitset", z3.Map(_AND, a.t, z3.Map(_NOT, b.t)))

    def _eq(self, a, b):
        if a.kind == "splitset":
            return a.t == b.t
        return Executor2._eq(self, a, b)

    def merge_sv(self, c, a, b):
        if a.kind == "splitset" and b.kind == "splitset":
            return SV("splitset", z3.If(c, a.t, b.t), none=_merge_none(c, a, b))
        return Executor2.merge_sv(self, c, a, b)


def _merge_none(c, a, b):
    if a.none is None and b.none is None:
        return None
    an = a.none if a.none is not None else z3.BoolVal(False)
    bn = b.none if b.none is not None else z3.BoolVal(False)
    return z3.If(c, an, bn)


_b1, _b2 = z3.Bool("sb!1"), z3.Bool("sb!2")
_AND = z3.And(_b1, _b2).decl()
_OR = z3.Or(_b1, _b2).decl()
_NOT = z3.Not(_b1).decl()

S_AFTER_REF = ("ite(not is_bipartitions_updated or isnone(old(reference_tree.bipartition_encoding)), reference_tree.g_current_splits, "
               "old(reference_tree.bipartition_encoding))")
S_AFTER_CMP = ("ite(not is_bipartitions_updated or isnone(old(comparison_tree.bipartition_encoding)), comparison_tree.g_current_splits, "
               "old(comparison_tree.bipartition_encoding))")

CONTRACTS = [
    Contract(TR + ":Tree.encode_bipartitions", name="Tree.encode_bipartitions",
             types={"suppress_unifurcations": "opaque", "collapse_unrooted_basal_bifurcation": "opaque", "suppress_storage": "opaque",
                    "is_bipartitions_mutable": "opaque", "return": "opaque"},
             requires="True", modifies=["self.bipartition_encoding"],
             ensures={"fresh": "not isnone(self.bipartition_encoding) and self.bipartition_encoding == self.g_current_splits"},
             assumed=True, notes="ghost g_current_splits := the split set a fresh encoding of the current structure produces (C01)"),
    Contract(TC + ":false_positives_and_negatives",
             types={"reference_tree": "ref:Tree", "comparison_tree": "ref:Tree", "is_bipartitions_updated": "bool", "return": "tuple:int:int"},
             requires="True", frame=False,
             modifies=["reference_tree.bipartition_encoding", "comparison_tree.bipartition_encoding"],
             raises={"TaxonNamespaceIdentityError": "reference_tree.taxon_namespace != comparison_tree.taxon_namespace"},
             ensures={
                 "false-positives = |S_cmp \\ S_ref| (after re-encoding)": "result[0] == card(setdiff(%s, %s))" % (S_AFTER_CMP, S_AFTER_REF),
                 "false-negatives = |S_ref \\ S_cmp| (after re-encoding)": "result[1] == card(setdiff(%s, %s))" % (S_AFTER_REF, S_AFTER_CMP),
                 "default arguments: both trees are re-encoded": "implies(not is_bipartitions_updated, "
                     "reference_tree.bipartition_encoding == reference_tree.g_current_splits and comparison_tree.bipartition_encoding == comparison_tree.g_current_splits)",
             }),
    Contract(TC + ":symmetric_difference",
             types={"tree1": "ref:Tree", "tree2": "ref:Tree", "is_bipartitions_updated": "bool", "return": "int"},
             requires="tree1.taxon_namespace == tree2.taxon_namespace", frame=False,
             modifies=["tree1.bipartition_encoding", "tree2.bipartition_encoding"],
             ensures={"fp + fn": "result == card(setdiff(%s, %s)) + card(setdiff(%s, %s))" % (
                 S_AFTER_CMP.replace("comparison_tree", "tree2").replace("reference_tree", "tree1"), S_AFTER_REF.replace("reference_tree", "tree1").replace("comparison_tree", "tree2"),
                 S_AFTER_REF.replace("reference_tree", "tree1").replace("comparison_tree", "tree2"), S_AFTER_CMP.replace("comparison_tree", "tree2").replace("reference_tree", "tree1"))}),
]

SUITE = Suite(SCHEMA, [TC, TR], CONTRACTS, executor_cls=SetExecutor)


def native_fpfn():
    """native probe used as replay: fp/fn against label-set definitions on a few pairs, incl. a stale encoding"""
    import dendropy
    from dendropy.calculate import treecompare
    from specs import trees as S
    ns = dendropy.TaxonNamespace(list("ABCDE"))
    T = lambda s: dendropy.Tree.get(data=s, schema="newick", taxon_namespace=ns)
    pairs = [("[&R] ((A,B),(C,(D,E)));", "[&R] ((A,C),(B,(D,E)));"), ("[&R] (((A,B),C),(D,E));", "[&R] ((A,B),(C,(D,E)));"),
             ("[&R] ((A,B),(C,(D,E)));", "[&R] (A,B,C,D,E);")]
    bad = []
    for a, b in pairs:
        t1, t2 = T(a), T(b)
        s1, s2 = S.rooted_clades(t1), S.rooted_clades(t2)
        exp = (len(s2 - s1), len(s1 - s2))
        got = treecompare.false_positives_and_negatives(t1, t2)
        if got != exp:
            bad.append("fp/fn(%s, %s) = %r, required %r" % (a, b, got, exp))
        if treecompare.symmetric_difference(T(a), T(b)) != sum(exp):
            bad.append("symmetric_difference(%s, %s) != %d" % (a, b, sum(exp)))
        # stale encoding: edit t2 after a first call, default arguments must see the edit
        nd = [n for n in t2.preorder_node_iter() if n._child_nodes and n._parent_node is not None]
        if nd:
            nd[0].edge.collapse()
            s2b = S.rooted_clades(t2)
            exp2 = (len(s2b - s1), len(s1 - s2b))
            got2 = treecompare.false_positives_and_negatives(t1, t2)
            if got2 != exp2:
                bad.append("after collapsing an edge of the second tree: fp/fn = %r, required %r (stale encoding?)" % (got2, exp2))
    return bad


def replay_fpfn(ctx, suite, c, ob, witness, bv_widths):
    bad = native_fpfn()
    if bad:
        ctx.obligation(ob.name, "refuted", "z3+native-replay", ob.time_s, c.target, detail=bad[0])
        ctx.fail(ob.name, dict(key="%s|%s" % (c.name, bad[0]), observed=bad[:4]), detail=bad[0], kind="T1")
        return True
    return False


def t1(ctx):
    ctx.assume("C04/T1: a tree's encoding is a set of split masks (Bipartition.__hash__/__eq__ are by split bitmask); the ghost g_current_splits "
               "stands for what encode_bipartitions produces from the current structure (its exactness is C01); len() of a set is an "
               "uninterpreted cardinality; reals for floats in the lemma layer")
    for c in CONTRACTS:
        verify_contract(ctx, SUITE, c, sentinels=False, replay=replay_fpfn)
    # "with default arguments the result reflects the trees' current structure": the default of
    # is_bipartitions_updated is False on every public distance function (read off the AST)
    import ast as _ast, time as _time
    from dpvc import frontend as _fe
    for fname in ("symmetric_difference", "unweighted_robinson_foulds_distance", "weighted_robinson_foulds_distance", "false_positives_and_negatives",
                  "euclidean_distance", "find_missing_bipartitions"):
        t0 = _time.time()
        try:
            m_, ci_, fn_ = _fe.resolve(TC + ":" + fname)
        except KeyError:
            continue
        names = [a.arg for a in fn_.args.args]
        ok = False
        if "is_bipartitions_updated" in names:
            i = names.index("is_bipartitions_updated")
            j = i - (len(names) - len(fn_.args.defaults))
            ok = j >= 0 and isinstance(fn_.args.defaults[j], _ast.Constant) and fn_.args.defaults[j].value is False
        name = "%s.default[is_bipartitions_updated=False]" % fname
        ctx.add_function(TC + ":" + fname)
        ctx.obligation(name, "proved" if ok else "refuted", "effects", _time.time() - t0, TC + ":" + fname)
        if not ok:
            bad = native_fpfn()
            ctx.fail(name, dict(key="%s|default" % fname, observed=bad[:3]), detail=(bad[0] if bad else "default of is_bipartitions_updated is not False"),
                     kind="T1", no_input=not bad)
    # ... and what the caller says about its encodings reaches the function that acts on it, unchanged (a negated or constant flag makes the
    # distance read encodings cached before a modification)
    from dpvc import forwarding
    forwarding.obligations(ctx, "is_bipartitions_updated", lambda mn: mn == TC, "flag-reaches", exact=True, native=native_stale_distance)
    lean.check_lemma(ctx, "Metrics.lean",
                     ["rf_eq_card_symmDiff", "rf_self", "rf_comm", "rf_triangle", "rf_eq_zero_iff", "wrf_self", "wrf_comm", "wrf_triangle",
                      "euclid_triangle", "euclid_comm", "euclid_formula"],
                     hypotheses={"rf_eq_card_symmDiff": "contract of false_positives_and_negatives / symmetric_difference (T1, this file)",
                                 "wrf_triangle": "contract of _get_length_diffs: per-split length vectors extended by 0 (bounded, T2)",
                                 "euclid_triangle": "contract of _get_length_diffs (bounded, T2)"})


def native_stale_distance(modname=None, qual=None):
    """every public distance with default arguments on two trees that were encoded and then edited: must equal the distance of fresh copies"""
    import dendropy
    from dendropy.calculate import treecompare
    ns = dendropy.TaxonNamespace(["A", "B", "C", "D", "E"])
    mk = lambda: [dendropy.Tree.get(data=nw, schema="newick", taxon_namespace=ns) for nw in ("((A:1,B:2):1,(C:1,(D:2,E:1):2):1);", "((A:1,B:2):1,(C:1,(D:2,E:1):2):1);")]
    for fname in ("symmetric_difference", "unweighted_robinson_foulds_distance", "weighted_robinson_foulds_distance", "euclidean_distance", "false_positives_and_negatives"):
        f = getattr(treecompare, fname)
        a, b = mk()
        a.encode_bipartitions()
        b.encode_bipartitions()
        x, y = a.find_node_with_taxon_label("B"), a.find_node_with_taxon_label("D")
        x.taxon, y.taxon = y.taxon, x.taxon                     # edit after encoding
        got = f(a, b)
        fa = dendropy.Tree.get(data=a.as_string("newick"), schema="newick", taxon_namespace=ns)
        fb = dendropy.Tree.get(data=b.as_string("newick"), schema="newick", taxon_namespace=ns)
        want = f(fa, fb)
        if got != want:
            return dict(key=fname, outcome="%s(a, b) with default arguments after exchanging B and D in a (both trees encoded before) = %r; on fresh copies of the "
                                           "same two trees %r" % (fname, got, want))
    return None


def replay(ctx, rec):
    if str(rec.get("obligation", "")).startswith("flag-reaches"):
        w = native_stale_distance()
        print(w or "every distance with default arguments reflects the current structure on the probe")
        return w is None
    bad = native_fpfn()
    print(bad or "fp/fn agree with the set definitions on the probes")
    return not bad
