"""C02 -- tree write/read round trip (T1 part): the writer-side quoting decision
protects every character the tokenizer treats specially (theory D), and the
rooting-token tables of writer and reader are inverse (theory A, strings as
interned constants).

Theory D.  `escape_nexus_token` decides by `re.search` of a character class;
`NexusTokenizer` decides per character by membership in literal sets.  Both
literals are extracted from the AST of the real source on every run.  The
obligation "every tokenizer-special character of the property's label alphabet
is protected by the writer" is a quantifier-free formula over one code point,
discharged by z3 over the symbolic class, and cross-checked by evaluating the
real `re` pattern and the real sets on all 1,114,112 code points."""
import ast
import re
import sys
import time
import unicodedata

import z3

from dpvc import frontend
from dpvc.symexec import Contract, Loop
from dpvc.symexec2 import Executor2
from dpvc.verify import Suite, verify_contract
from dpvc import replay as dreplay

NP = "dendropy.dataio.nexusprocessing"
NW = "dendropy.dataio.newickwriter"
NR = "dendropy.dataio.newickreader"
NXW = "dendropy.dataio.nexuswriter"


# ----------------------------------------------------------------------------- extraction
class NotLiteral(Exception):
    pass


def _regex_text(node, module_tree, depth=0):
    """the pattern text an expression denotes: a string literal, re.compile(<that>), or a module-level name bound once to one of these"""
    if isinstance(node, ast.Constant) and isinstance(node.value, str):
        return node.value
    if isinstance(node, ast.Call) and ast.unparse(node.func) in ("re.compile", "compile") and node.args:
        return _regex_text(node.args[0], module_tree, depth)
    if isinstance(node, ast.Name) and depth < 4:
        binds = [st for st in module_tree.body if isinstance(st, ast.Assign) and any(isinstance(t, ast.Name) and t.id == node.id for t in st.targets)]
        if len(binds) == 1:
            return _regex_text(binds[0].value, module_tree, depth + 1)
    raise NotLiteral("protect_regex is not a literal pattern (nor a module-level name bound once to one): %s" % ast.unparse(node)[:80])


def default_protect_regex():
    m, ci, fn = frontend.resolve(NP + ":escape_nexus_token")
    names = [a.arg for a in fn.args.args]
    i = names.index("protect_regex")
    d = fn.args.defaults[i - (len(names) - len(fn.args.defaults))]
    return _regex_text(d, frontend.module(NP).tree)


def call_site_regexes():
    """every call of escape_nexus_token in the tree writers with the protect_regex it passes"""
    out = []
    for modname in (NW, NXW):
        m = frontend.module(modname)
        for node in ast.walk(m.tree):
            if isinstance(node, ast.Call) and ast.unparse(node.func).endswith("escape_nexus_token"):
                rx = None
                for k in node.keywords:
                    if k.arg == "protect_regex":
                        rx = _regex_text(k.value, m.tree)
                out.append((modname.split(".")[-1], node.lineno, rx))
    return out


def tokenizer_sets():
    m, ci, fn = frontend.resolve(NP + ":NexusTokenizer.__init__")
    sets = {}
    for node in ast.walk(fn):
        if isinstance(node, ast.Call) and ast.unparse(node.func) == "Tokenizer.__init__":
            for k in node.keywords:
                if isinstance(k.value, ast.Call) and ast.unparse(k.value.func) == "set" and k.value.args:
                    sets[k.arg] = set(ast.literal_eval(k.value.args[0]))
    return sets


def class_to_z3(pattern, c):
    """z3 formula 'code point c matches the single character class `pattern`' via sre_parse;
    returns (formula, exact) -- exact False if a category had to be expanded by enumeration"""
    try:
        import re._parser as sp
    except ImportError:  # pragma: no cover
        import sre_parse as sp
    p = sp.parse(pattern)
    if len(p) != 1 or str(p[0][0]) != "IN":
        raise ValueError("protect_regex is not a single character class: %r" % pattern)
    items = p[0][1]
    neg = False
    parts = []
    exact = True
    for op, av in items:
        o = str(op)
        if o == "NEGATE":
            neg = True
        elif o == "LITERAL":
            parts.append(c == av)
        elif o == "RANGE":
            parts.append(z3.And(c >= av[0], c <= av[1]))
        elif o == "CATEGORY":
            exact = False
            rx = re.compile("[%s]" % {"CATEGORY_DIGIT": r"\d", "CATEGORY_SPACE": r"\s", "CATEGORY_WORD": r"\w",
                                       "CATEGORY_NOT_DIGIT": r"\D", "CATEGORY_NOT_SPACE": r"\S", "CATEGORY_NOT_WORD": r"\W"}[str(av)])
            pts = [i for i in range(sys.maxunicode + 1) if rx.match(chr(i))]
            # compress to ranges
            rs = []
            for i in pts:
                if rs and rs[-1][1] == i - 1:
                    rs[-1][1] = i
                else:
                    rs.append([i, i])
            parts.append(z3.Or(*[z3.And(c >= a, c <= b) for a, b in rs]))
        else:
            raise ValueError("unsupported class item %s" % o)
    f = z3.Or(*parts) if parts else z3.BoolVal(False)
    return (z3.Not(f) if neg else f), exact


def in_alphabet_py(i):
    """the property's label alphabet: printable ASCII, tab, non-ASCII letters"""
    if i == 9 or 32 <= i <= 126:
        return True
    if i > 127:
        return unicodedata.category(chr(i)).startswith("L")
    return False


def check_class(ctx, label, pattern, sets, where):
    """obligations for one protect_regex"""
    t0 = time.time()
    c = z3.Int("c")
    fz, exact = class_to_z3(pattern, c)
    special = set()
    for k in ("captured_delimiters", "uncaptured_delimiters", "quote_chars", "comment_begin"):
        special |= set(ord(x) for x in sets.get(k, ()))
    # (1) z3: special(c) and in ASCII alphabet and not space  =>  protected(c)
    spec_f = z3.Or(*[c == k for k in sorted(special)])
    alpha_ascii = z3.Or(c == 9, z3.And(c >= 32, c <= 126))
    # non-ASCII letters are never tokenizer-special as long as all specials are ASCII (checked natively below)
    s = z3.Solver()
    s.set("timeout", 10000)
    s.add(spec_f, alpha_ascii, c != 32, z3.Not(fz))
    r = s.check()
    dt = time.time() - t0
    name = "%s.protects-every-tokenizer-special-character" % label
    if r == z3.unsat:
        ctx.obligation(name, "proved", "z3", dt, where)
    elif r == z3.sat:
        # all counterexamples (finite): enumerate by blocking
        bad = []
        while s.check() == z3.sat and len(bad) < 40:
            v = s.model()[c].as_long()
            bad.append(v)
            s.add(c != v)
        ctx.obligation(name, "refuted", "z3", dt, where, detail="unprotected: %r" % [chr(b) for b in sorted(bad)])
        for b in sorted(bad):
            replay_char(ctx, name, label, pattern, chr(b), where)
    else:
        ctx.obligation(name, "unproved", "z3", dt, where, detail=s.reason_unknown())
        ctx.undecided_ob(name, s.reason_unknown())
    # (2) cross-check of the symbolic class against the real `re` on every code point
    t1 = time.time()
    rx = re.compile(pattern)
    # evaluate fz natively by substitution-free interpretation: collect matched points from z3 ranges
    matched_z3 = _points_of(fz, c)
    disagree = 0
    unprotected_native = []
    for i in range(sys.maxunicode + 1):
        m = rx.match(chr(i)) is not None
        if m != (i in matched_z3):
            disagree += 1
        if i in special and in_alphabet_py(i) and i != 32 and not m:
            unprotected_native.append(i)
    ctx.crosscheck_inputs += sys.maxunicode + 1
    name2 = "%s.class-encoding-agrees-with-re-on-all-code-points" % label
    if disagree:
        ctx.checker_failure("symbolic class for %r disagrees with re on %d code points" % (pattern, disagree))
    else:
        ctx.obligation(name2, "proved", "exhaustive-enumeration", time.time() - t1, where)
    if any(k > 127 for k in special):
        ctx.checker_failure("tokenizer has non-ASCII special characters; the ASCII restriction of obligation (1) is invalid")
    # observation outside the property's alphabet
    outside = [i for i in special if not in_alphabet_py(i) and rx.match(chr(i)) is None]
    if outside:
        ctx.note("%s: tokenizer-special characters outside the property's label alphabet left unprotected: %r" % (label, [chr(i) for i in outside]))


def _points_of(f, c):
    """set of code points satisfying a formula built by class_to_z3"""
    out = set()

    def rec(g):
        if z3.is_or(g):
            s = set()
            for ch in g.children():
                s |= rec(ch)
            return s
        if z3.is_and(g):
            a, b = g.children()
            lo = a.arg(1).as_long()
            hi = b.arg(1).as_long()
            return set(range(lo, hi + 1))
        if z3.is_eq(g):
            return {g.arg(1).as_long()}
        if z3.is_false(g):
            return set()
        if z3.is_not(g):
            return set(range(sys.maxunicode + 1)) - rec(g.arg(0))
        raise ValueError("unexpected formula %s" % g)

    return rec(f)


def replay_char(ctx, name, label, pattern, ch, where):
    """native replay: a label containing the unprotected character is written and read back"""
    import dendropy
    lab = "a%sb" % ch
    try:
        ns = dendropy.TaxonNamespace([lab, "zz"])
        t = dendropy.Tree(taxon_namespace=ns)
        t.seed_node.new_child(taxon=ns[0])
        t.seed_node.new_child(taxon=ns[1])
        schema = "newick" if "newick" in label else "nexus"
        s = t.as_string(schema=schema)
        t2 = dendropy.Tree.get(data=s, schema=schema)
        got = [l.taxon.label for l in t2.leaf_node_iter()]
        ok = got == [lab, "zz"]
        outcome = "read back %r" % (got,)
    except Exception as e:
        ok = False
        s = locals().get("s", None)
        outcome = "re-reading raised %s: %s" % (type(e).__name__, str(e)[:120])
    if not ok:
        ctx.fail(name, dict(key="%s|label=%r" % (label, lab), label=lab, schema=schema, written=s, outcome=outcome, regex=pattern),
                 detail="label %r written by %s as %r; %s" % (lab, where, (s or "").strip()[-40:], outcome), kind="T1")
    else:
        ctx.fail(name, dict(key="%s|char=%r" % (label, ch), regex=pattern, solver="z3 sat", model="c=%d" % ord(ch)),
                 detail="character %r is tokenizer-special but not protected by %r; round trip of %r nevertheless succeeded" % (ch, pattern, lab),
                 kind="T1", no_input=True)


# ----------------------------------------------------------------------------- rooting tables
SCHEMA = {
    "NewickReader._rooting": "opt str",
    "NewickWriter.suppress_rooting": "opt bool",
    "Tree._is_rooted": "opt bool",
}


class WriterExecutor(Executor2):
    lenient = True


ROOTING_CONTRACTS = [
    Contract(
        NR + ":NewickReader._parse_tree_rooting_state",
        types={"rooting_comment": "opt str", "return": "opt bool"},
        requires="True",
        allowed_raises=("TypeError",),
        ensures={
            # reader with no rooting directive: the token decides, no token -> undefined
            "token-decides": "implies(isnone(self._rooting), ite(rooting_comment == '&R' or rooting_comment == '&r', eq(result, True), "
                             "ite(rooting_comment == '&U' or rooting_comment == '&u', eq(result, False), isnone(result))))",
            "forced": "implies(self._rooting == 'force-rooted', eq(result, True)) and implies(self._rooting == 'force-unrooted', eq(result, False))",
            "default-only-without-token": "implies(self._rooting == 'default-rooted' or self._rooting == 'default-unrooted', "
                                          "ite(rooting_comment == '&R' or rooting_comment == '&r', eq(result, True), "
                                          "ite(rooting_comment == '&U' or rooting_comment == '&u', eq(result, False), eq(result, self._rooting == 'default-rooted'))))",
        },
    ),
    Contract(
        NW + ":NewickWriter._write_tree",
        types={"stream": "opaque", "tree": "ref:Tree"},
        requires="True",
        frame=False,
        allowed_raises=("*",),
        inline=("_get_is_rooted", "_get_rooting_state_is_undefined"),
        ensures={
            # the rooting token written: none for an undefined (or suppressed) state, [&R] rooted, [&U] unrooted
            "rooting-token": "ite(isnone(tree._is_rooted) or truthy(self.suppress_rooting), rooting == '', "
                             "ite(truthy(tree._is_rooted), rooting == '[&R] ', rooting == '[&U] '))",
        },
    ),
]

ROOTING_SUITE = Suite(SCHEMA, [NR, NW, "dendropy.datamodel.treemodel._tree"], ROOTING_CONTRACTS, executor_cls=WriterExecutor)


def t1(ctx):
    ctx.assume("C02/T1 theory D: a label character is 'tokenizer-special' iff it is in captured_delimiters, uncaptured_delimiters, "
               "quote_chars or comment_begin of NexusTokenizer.__init__ (extracted from the AST); the property's label alphabet is "
               "printable ASCII, tab and non-ASCII letters; the space is handled by the space/underscore branch of escape_nexus_token")
    ctx.assume("the tokenizer/parser state machines and xml.etree are NOT proved (string loops): round trip is bounded (T2)")
    sets = tokenizer_sets()
    if not sets.get("captured_delimiters"):
        ctx.checker_failure("could not extract the tokenizer character sets from NexusTokenizer.__init__")
        return
    ctx.add_function(NP + ":escape_nexus_token")
    ctx.add_function(NP + ":NexusTokenizer.__init__")
    try:
        d = default_protect_regex()
        sites = call_site_regexes()
    except NotLiteral as e:
        # the writers no longer pass a pattern the extraction can read: the obligation is not decided here (the bounded driver still runs)
        ctx.obligation("writers.protect_regex[extractable]", "unsupported", "ast-scan", 0.0, NW, detail=str(e))
        ctx.functions_out_of_subset.append("protect_regex extraction: %s" % e)
        ctx.undecided_ob("writers.protect_regex[extractable]", str(e))
        d, sites = None, []
    if not sites and d is not None:
        ctx.checker_failure("no escape_nexus_token call sites found in the writers")
    seen = {}
    for mod, line, rx in sites:
        pat = rx if rx is not None else d
        label = ("%s-writer.protect_regex[%s]" % (mod.replace("writer", ""), "override" if rx is not None else "default"))
        if (label, pat) in seen:
            continue
        seen[(label, pat)] = True
        ctx.add_function("%s (call at line %d)" % (mod, line))
        check_class(ctx, label, pat, sets, "%s:%d" % (mod, line))
    for c in ROOTING_CONTRACTS:
        verify_contract(ctx, ROOTING_SUITE, c, sentinels=False, replay=dreplay.replay_any)
    write_glue(ctx)


def write_glue_witness():
    """native witness search: a tree and a tree list through as_string / write(file=) / write(path=) in each schema, options given, and back"""
    import io
    import os
    import tempfile
    import dendropy
    tl = dendropy.TreeList.get(data="[&R] ((A:1,B:2)x:1,(C:3,D:4)y:2)r;[&U] (A:1,(B:1,(C:1,D:1):0.5):2);", schema="newick")
    for obj, name in ((tl[0], "Tree"), (tl, "TreeList")):
        ns_before = [t.label for t in obj.taxon_namespace]
        for schema, opts in (("newick", {}), ("newick", {"suppress_edge_lengths": True}), ("nexus", {}), ("nexus", {"suppress_taxa_blocks": True}), ("nexml", {})):
            outs = {}
            try:
                outs["as_string"] = obj.as_string(schema=schema, **opts)
                s = io.StringIO()
                obj.write(file=s, schema=schema, **opts)
                outs["file"] = s.getvalue()
                fd, p = tempfile.mkstemp(suffix="." + schema)
                os.close(fd)
                try:
                    with open(p, "w") as f:
                        f.write("stale content that a write to this path must replace\n" * 40)
                    obj.write(path=p, schema=schema, **opts)
                    with open(p) as f:
                        outs["path"] = f.read()
                finally:
                    os.unlink(p)
            except Exception as e:  # noqa
                return dict(what=name, schema=schema, options=opts, outcome="writing raises %s: %s" % (type(e).__name__, e))
            if len(set(outs.values())) > 1:
                return dict(what=name, schema=schema, options=opts, outcome="the three destinations receive different text", texts=dict((k, v[:300]) for k, v in outs.items()))
            if "suppress_edge_lengths" in opts and ":" in outs["as_string"]:
                return dict(what=name, schema=schema, options=opts, outcome="the writer option did not reach the writer", text=outs["as_string"][:300])
            try:
                back = dendropy.TreeList.get(data=outs["as_string"], schema=schema)
            except Exception as e:  # noqa
                return dict(what=name, schema=schema, options=opts, outcome="reading back raises %s: %s" % (type(e).__name__, e), text=outs["as_string"][:300])
            src = [obj] if name == "Tree" else list(obj)
            kw = dict(suppress_edge_lengths=bool(opts.get("suppress_edge_lengths")), suppress_rooting=True)
            if len(back) != len(src) or [t.as_string("newick", **kw) for t in back] != [t.as_string("newick", **kw) for t in src]:
                return dict(what=name, schema=schema, options=opts, outcome="read back %r" % [t.as_string("newick", **kw).strip() for t in back], text=outs["as_string"][:300])
            if [t.label for t in obj.taxon_namespace] != ns_before or (name == "Tree" and obj.taxon_namespace is not tl.taxon_namespace):
                return dict(what=name, schema=schema, options=opts, outcome="writing changed the object's namespace")
    return None


def write_glue(ctx):
    """the write side of the round trip up to the writer (AST obligations shared with C09; trees: TreeList / Tree writer glue)"""
    from contracts import C09
    ctx.assume("C02/T1 write glue: as_string / write(file=) / write(path=) hand the caller's schema and options, untouched, to one writer made for that schema, which is "
               "given the tree list (a tree: a new list over the tree's own namespace holding exactly that tree) and the caller's destination; open(), io.StringIO and "
               "dataio.get_writer are ASSUMED to behave as documented; the writers themselves are bounded only")
    fails = C09.glue_obligations(ctx, parts=("serializable", "trees"))
    if fails:
        w = write_glue_witness()
        for name, target, why in fails:
            if w is not None:
                ctx.fail(name, dict(key="writeglue|%s|%s|%s" % (w["what"], w["schema"], sorted(w["options"].items())), function=target, why=why, **w),
                         detail="%s; native: %s as %s with %r -> %s" % (why, w["what"], w["schema"], w["options"], w["outcome"]), kind="T1")
            else:
                ctx.fail(name, dict(key="site:%s" % name, function=target, why=why, native="the sample trees go through every destination and schema and back unchanged"),
                         detail=why, kind="T1", no_input=True)


def replay(ctx, rec):
    import dendropy
    w = rec.get("witness", {})
    if str(w.get("key", "")).startswith(("writeglue|", "site:Serializable", "site:Tree")):
        g = write_glue_witness()
        print(g or "the sample trees go through as_string / file= / path= in every schema and back unchanged")
        return g is None
    lab = w.get("label")
    if lab is None:
        print("no input recorded for this obligation")
        return True
    schema = w.get("schema", "newick")
    ns = dendropy.TaxonNamespace([lab, "zz"])
    t = dendropy.Tree(taxon_namespace=ns)
    t.seed_node.new_child(taxon=ns[0])
    t.seed_node.new_child(taxon=ns[1])
    s = t.as_string(schema=schema)
    try:
        t2 = dendropy.Tree.get(data=s, schema=schema)
        got = [l.taxon.label for l in t2.leaf_node_iter()]
    except Exception as e:
        print("written %r; re-reading raised %r" % (s, e))
        return False
    print("written %r; read back %r" % (s, got))
    return got == [lab, "zz"]
