"""C10 -- taxon namespaces: stable one-to-one taxon/bit map (T1 part).

Dictionaries are maps (key set + value array) on the access path obj.field.
Representation invariant NS(self) over the two accession maps and the counter:
   NS1  every member taxon has an index in [0, count) and the reverse map sends it back
   NS2  every index in the reverse map is in [0, count) and maps to a member holding it
   NS3  a cached bit mask is the singleton of the member's accession index
Contracts (postconditions from the property): every mutator preserves NS, never
changes the index (hence the bit) of a taxon that stays a member, and a new
member gets a fresh index >= the old counter (no reuse, no sharing)."""
from dpvc.symexec import Contract, Loop
from dpvc.symexec2 import Executor2
from dpvc.verify import Suite, verify_contract, crosscheck
from dpvc import replay as dreplay

TX = "dendropy.datamodel.taxonmodel"

SCHEMA = {
    "TaxonNamespace._taxon_accession_index_map": "map:ref:int",
    "TaxonNamespace._accession_index_taxon_map": "map:int:ref",
    "TaxonNamespace._taxon_bitmask_map": "map:ref:bits",
    "TaxonNamespace._current_accession_count": "int",
    "TaxonNamespace._taxa": "lenlist",
    "TaxonNamespace.is_mutable": "opt bool",
}

ACC = "self._taxon_accession_index_map"
IDX = "self._accession_index_taxon_map"
BM = "self._taxon_bitmask_map"
CNT = "self._current_accession_count"

NS = ("{cnt} >= 0 "
      "and forall_ref('Taxon', lambda t: implies(has({acc}, t), 0 <= get({acc}, t) and get({acc}, t) < {cnt} and has({idx}, get({acc}, t)) and get({idx}, get({acc}, t)) == t)) "
      "and forall_int(lambda i: implies(has({idx}, i), 0 <= i and i < {cnt} and get({idx}, i) != None and has({acc}, get({idx}, i)) and get({acc}, get({idx}, i)) == i)) "
      "and forall_ref('Taxon', lambda t: implies(has({bm}, t), has({acc}, t) and get({bm}, t) == singleton(get({acc}, t))))"
      ).format(acc=ACC, idx=IDX, bm=BM, cnt=CNT)

STABLE = ("forall_ref('Taxon', lambda t: implies(old(has({acc}, t)) and has({acc}, t), get({acc}, t) == old(get({acc}, t))))").format(acc=ACC)
MODS = ["self._taxon_accession_index_map", "self._accession_index_taxon_map", "self._taxon_bitmask_map", "self._current_accession_count", "self._taxa"]

CONTRACTS = [
    Contract(TX + ":TaxonNamespace.add_taxon", types={"taxon": "ref:Taxon"},
             requires=NS, modifies=MODS, frame=False,
             raises={"ImmutableTaxonNamespaceError": "not has(%s, taxon) and not truthy(self.is_mutable)" % ACC},
             ensures={"invariant": NS,
                      "member-bits-stable": STABLE,
                      "members-kept": "forall_ref('Taxon', lambda t: implies(old(has(%s, t)), has(%s, t)))" % (ACC, ACC),
                      "is-member": "has(%s, taxon)" % ACC,
                      "fresh-index-not-reused": "implies(not old(has({acc}, taxon)), get({acc}, taxon) == old({cnt}) and {cnt} == old({cnt}) + 1 "
                                                "and len(self._taxa) == old(len(self._taxa)) + 1)".format(acc=ACC, cnt=CNT),
                      "idempotent": "implies(old(has({acc}, taxon)), {cnt} == old({cnt}) and len(self._taxa) == old(len(self._taxa)))".format(acc=ACC, cnt=CNT),
                      "only-taxon-added": "forall_ref('Taxon', lambda t: implies(has({acc}, t) and not old(has({acc}, t)), t == taxon))".format(acc=ACC)}),
    Contract(TX + ":TaxonNamespace.taxon_bitmask", types={"taxon": "ref:Taxon", "return": "bits"},
             requires=NS + " and has(%s, taxon)" % ACC, modifies=["self._taxon_bitmask_map"], frame=False,
             ensures={"singleton-of-accession-index": "result == singleton(get(%s, taxon))" % ACC, "invariant": NS}),
    Contract(TX + ":TaxonNamespace.accession_index", types={"taxon": "ref:Taxon", "return": "int"},
             requires=NS + " and has(%s, taxon)" % ACC,
             ensures={"index": "result == get(%s, taxon)" % ACC}),
    Contract(TX + ":TaxonNamespace.all_taxa_bitmask", types={"return": "bits"},
             requires=NS,
             ensures={"spans-every-index-below-the-counter": "forall_int(lambda i: bit(result, i) == (0 <= i and i < %s))" % CNT}),
    Contract(TX + ":TaxonNamespace.clear", types={},
             requires=NS, modifies=MODS, frame=False,
             ensures={"invariant": NS, "empty": "forall_ref('Taxon', lambda t: not has(%s, t))" % ACC,
                      "counter-kept (no index reuse after clear)": "%s == old(%s)" % (CNT, CNT)}),
    Contract(TX + ":TaxonNamespace.remove_taxon", types={"taxon": "ref:Taxon"},
             requires=NS, modifies=MODS, frame=False, allowed_raises=("ValueError",),
             loops={0: Loop(invariant="True")},
             ensures={"invariant": NS, "member-bits-stable": STABLE,
                      "removed": "not has(%s, taxon)" % ACC,
                      "others-kept": "forall_ref('Taxon', lambda t: implies(old(has({acc}, t)) and t != taxon, has({acc}, t)))".format(acc=ACC),
                      "counter-kept (no index reuse after removal)": "%s == old(%s)" % (CNT, CNT)}),
    Contract(TX + ":TaxonNamespace.sort", types={"key": "opaque", "reverse": "opaque"},
             requires=NS, modifies=["self._taxa"], frame=True,
             ensures={"invariant": NS, "member-bits-stable": STABLE}),
    Contract(TX + ":TaxonNamespace.reverse", types={},
             requires=NS, modifies=["self._taxa"], frame=True,
             ensures={"invariant": NS, "member-bits-stable": STABLE}),
]


class NSExecutor(Executor2):
    lenient = True


SUITE = Suite(SCHEMA, [TX], CONTRACTS, executor_cls=NSExecutor)


def t1(ctx):
    ctx.assume("C10/T1: dictionaries are maps (key set + values) reached only through self.<field>; the member list _taxa is modelled by "
               "its length (membership/order of the list itself, label lookups and copies are bounded, T2); Taxon.__hash__/__eq__ are identity")
    for c in CONTRACTS:
        verify_contract(ctx, SUITE, c, sentinels=False, replay=dreplay.replay_by_search(states))
    # "label lookups ... under the namespace's, or the CALL's, case-sensitivity setting": every lookup method hands its is_case_sensitive to
    # the one function that matches labels (_lookup_label)
    from dpvc import forwarding
    forwarding.obligations(ctx, "is_case_sensitive", lambda mn: mn == "dendropy.datamodel.taxonmodel", "case-flag-reaches", exact=False,
                           native=native_case_flag_ignored)


def native_case_flag_ignored(modname=None, qual=None):
    """every lookup with the call's flag set against the namespace's setting"""
    import dendropy
    for ns_cs in (False, True):
        for call_cs in (False, True):
            ns = dendropy.TaxonNamespace(["Human", "chimp"], is_case_sensitive=ns_cs)
            want = None if call_cs else "Human"
            probes = [("get_taxon", lambda: getattr(ns.get_taxon("HUMAN", is_case_sensitive=call_cs), "label", None), want),
                      ("has_taxon_label", lambda: ns.has_taxon_label("HUMAN", is_case_sensitive=call_cs), not call_cs),
                      ("findall", lambda: [t.label for t in ns.findall("HUMAN", is_case_sensitive=call_cs)], [] if call_cs else ["Human"]),
                      ("get_taxa", lambda: [t.label for t in ns.get_taxa(["HUMAN"], is_case_sensitive=call_cs)], [] if call_cs else ["Human"]),
                      ("has_taxa_labels", lambda: ns.has_taxa_labels(["HUMAN"], is_case_sensitive=call_cs), not call_cs)]
            for name, f, exp in probes:
                try:
                    got = f()
                except Exception as e:  # noqa
                    got = "%s: %s" % (type(e).__name__, e)
                if got != exp:
                    return dict(key="%s|ns=%r|call=%r" % (name, ns_cs, call_cs),
                                outcome="%s('HUMAN', is_case_sensitive=%r) on a namespace ['Human', 'chimp'] with is_case_sensitive=%r gives %r, required %r"
                                        % (name, call_cs, ns_cs, got, exp))
            ns2 = dendropy.TaxonNamespace(["Human"], is_case_sensitive=ns_cs)
            t = ns2.require_taxon("HUMAN", is_case_sensitive=call_cs)
            labs = [x.label for x in ns2]
            exp = ["Human", "HUMAN"] if call_cs else ["Human"]
            if labs != exp:
                return dict(key="require_taxon|ns=%r|call=%r" % (ns_cs, call_cs),
                            outcome="require_taxon('HUMAN', is_case_sensitive=%r) on ['Human'] (namespace setting %r) leaves %r, required %r" % (call_cs, ns_cs, labs, exp))
    return None


# ----------------------------------------------------------------------------- native replay: reachable namespace states
def _states(c):
    import itertools
    import dendropy
    meth = c.name.split(".")[-1]
    ops = ["+A", "+B", "+C", "-A", "-B", "bmA", "bmB", "sort", "imm"]
    for n in range(0, 4):
        for hist in itertools.product(ops, repeat=n):
            if "imm" in hist[:-1]:
                continue
            ns = dendropy.TaxonNamespace()
            tx = {k: dendropy.Taxon(k) for k in "ABC"}
            ok = True
            for op in hist:
                try:
                    if op[0] == "+":
                        ns.add_taxon(tx[op[1]])
                    elif op[0] == "-":
                        if tx[op[1]] in ns._taxa:
                            ns.remove_taxon(tx[op[1]])
                        else:
                            ok = False
                    elif op.startswith("bm"):
                        if tx[op[2]] in ns._taxon_accession_index_map:
                            ns.taxon_bitmask(tx[op[2]])
                        else:
                            ok = False
                    elif op == "sort":
                        ns.sort()
                    elif op == "imm":
                        ns.is_mutable = False
                except Exception:
                    ok = False
            if not ok:
                continue
            uni = {"Taxon": list(tx.values())}
            desc0 = "history [%s]" % ",".join(hist)
            if meth in ("add_taxon", "remove_taxon", "taxon_bitmask", "accession_index"):
                for k in "ABC":
                    # a fresh, identical state per trial (methods mutate the receiver)
                    yield None, None, (hist, k)
            else:
                yield None, None, (hist, None)


def _materialise(hist, k):
    import dendropy
    ns = dendropy.TaxonNamespace()
    tx = {x: dendropy.Taxon(x) for x in "ABC"}
    for op in hist:
        if op[0] == "+":
            ns.add_taxon(tx[op[1]])
        elif op[0] == "-":
            ns.remove_taxon(tx[op[1]])
        elif op.startswith("bm"):
            ns.taxon_bitmask(tx[op[2]])
        elif op == "sort":
            ns.sort()
        elif op == "imm":
            ns.is_mutable = False
    kw = {"self": ns}
    if k is not None:
        kw["taxon"] = tx[k]
    return kw, {"Taxon": list(tx.values())}


def states(c):
    meth = c.name.split(".")[-1]
    for _, _, (hist, k) in _states(c):
        kw, uni = _materialise(hist, k)
        if meth == "sort":
            kw.update(key=None, reverse=False)
        yield kw, uni, "%s(%s) after history [%s]" % (meth, k or "", ",".join(hist))


def replay(ctx, rec):
    if str(rec.get("obligation", "")).startswith("case-flag-reaches"):
        r = native_case_flag_ignored()
        print(r or "every lookup honours the call's is_case_sensitive on the probes")
        return r is None
    w = rec.get("witness", {})
    print(w.get("state"), "->", w.get("outcome"), w.get("failed_clauses"))
    st = w.get("state", "")
    import re
    m = re.match(r"(\w+)\((\w?)\) after history \[(.*)\]", st)
    if not m:
        return True
    meth, k, hist = m.group(1), m.group(2) or None, [h for h in m.group(3).split(",") if h]
    c = [x for x in CONTRACTS if x.name.endswith("." + meth)][0]
    kw, uni = _materialise(hist, k)
    if meth == "sort":
        kw.update(key=None, reverse=False)
    failed, outcome = dreplay.native_check(c, kw, universe=uni)
    print("replayed natively:", outcome, "failed clauses:", failed)
    return not failed
