"""C16 -- parsimony scores are pure functions of tree and matrix (T1 part, theory F).

Frame contract of `parsimony_score(tree, chars, ...)`:
    reads  = tree structure (child lists), node taxa, `chars`, its own arguments
    writes = nothing reachable from `tree` or `chars` (only objects it allocates and
             the caller-supplied score_by_character_list)
Discharged by an effect analysis of the real AST: starting from
`parsimony_score`, callees in parsimony.py are followed with constant
propagation of the arguments actually passed (so that a branch guarded by
`state_sets_attr_name is None` is live or dead according to the call), and
every reachable read/write of an attribute of a tree node through
getattr/setattr (the state-set cache) is an obligation that must be
unreachable.  A failed obligation is replayed natively: scoring matrix 1 then
matrix 2 on one tree object must equal scoring matrix 2 on a fresh copy."""
import ast
import time

from dpvc import frontend

PM = "dendropy.model.parsimony"
_UNKNOWN = object()


def _const_of(node, env):
    if isinstance(node, ast.Constant):
        return node.value
    if isinstance(node, ast.Name) and node.id in env:
        return env[node.id]
    return _UNKNOWN


def _decide(test, env):
    """True / False / None (unknown) for simple tests over constant-propagated names"""
    if isinstance(test, ast.Compare) and len(test.ops) == 1:
        l, r = _const_of(test.left, env), _const_of(test.comparators[0], env)
        if l is not _UNKNOWN and r is not _UNKNOWN:
            if isinstance(test.ops[0], ast.Is):
                return l is r
            if isinstance(test.ops[0], ast.IsNot):
                return l is not r
            if isinstance(test.ops[0], ast.Eq):
                return l == r
            if isinstance(test.ops[0], ast.NotEq):
                return l != r
        return None
    if isinstance(test, ast.UnaryOp) and isinstance(test.op, ast.Not):
        d = _decide(test.operand, env)
        return None if d is None else (not d)
    if isinstance(test, ast.Name):
        v = _const_of(test, env)
        return None if v is _UNKNOWN else bool(v)
    return None


class Effects(object):
    def __init__(self, mod):
        self.mod = mod
        self.found = []  # (kind, function, lineno, text)
        self.visited = set()

    def analyse(self, fname, env, depth=0):
        fn = self.mod.functions.get(fname)
        if fn is None or depth > 6:
            return
        key = (fname, tuple(sorted((k, repr(v)) for k, v in env.items() if v is not _UNKNOWN)))
        if key in self.visited:
            return
        self.visited.add(key)
        body, _ = frontend.strip_docstring(fn)
        self.block(body, dict(env), fname, depth)

    def block(self, stmts, env, fname, depth):
        for st in stmts:
            if isinstance(st, ast.If):
                d = _decide(st.test, env)
                self.expr(st.test, env, fname, depth)
                if d is True:
                    self.block(st.body, env, fname, depth)
                elif d is False:
                    self.block(st.orelse, env, fname, depth)
                else:
                    e1, e2 = dict(env), dict(env)
                    self.block(st.body, e1, fname, depth)
                    self.block(st.orelse, e2, fname, depth)
                    for k in list(env):
                        if e1.get(k, _UNKNOWN) != e2.get(k, _UNKNOWN) or e1.get(k, _UNKNOWN) is _UNKNOWN:
                            env[k] = _UNKNOWN
                continue
            if isinstance(st, (ast.For, ast.While)):
                for n in ast.walk(st):
                    if isinstance(n, (ast.Assign, ast.AugAssign)):
                        for t in (n.targets if isinstance(n, ast.Assign) else [n.target]):
                            for m in ast.walk(t):
                                if isinstance(m, ast.Name):
                                    env[m.id] = _UNKNOWN
                if isinstance(st, ast.For):
                    self.expr(st.iter, env, fname, depth)
                else:
                    self.expr(st.test, env, fname, depth)
                self.block(st.body, env, fname, depth)
                continue
            if isinstance(st, ast.Try):
                self.block(st.body, env, fname, depth)
                for h in st.handlers:
                    self.block(h.body, env, fname, depth)
                self.block(st.orelse, env, fname, depth)
                continue
            if isinstance(st, ast.Assign):
                self.expr(st.value, env, fname, depth)
                for t in st.targets:
                    if isinstance(t, ast.Name):
                        if isinstance(st.value, ast.Lambda):
                            env[t.id] = ("lambda", st.value)
                        else:
                            env[t.id] = _const_of(st.value, env) if isinstance(st.value, (ast.Constant, ast.Name)) else _UNKNOWN
                    elif isinstance(t, ast.Attribute):
                        self.found.append(("attribute-store", fname, st.lineno, ast.unparse(t)))
                continue
            for n in ast.iter_child_nodes(st):
                if isinstance(n, ast.expr):
                    self.expr(n, env, fname, depth)

    def expr(self, e, env, fname, depth):
        for n in ast.walk(e):
            if isinstance(n, ast.Lambda):
                continue
            if not isinstance(n, ast.Call):
                continue
            f = n.func
            if isinstance(f, ast.Name):
                if f.id in ("getattr", "setattr", "delattr", "hasattr"):
                    nm = _const_of(n.args[1], env) if len(n.args) > 1 else _UNKNOWN
                    self.found.append(("%s[%s]" % (f.id, "dynamic name" if nm is _UNKNOWN else nm), fname, n.lineno, ast.unparse(n)[:70]))
                    continue
                v = env.get(f.id)
                if isinstance(v, tuple) and v and v[0] == "lambda":
                    # calling a local lambda: analyse its body in the defining environment
                    self.expr_lambda(v[1], env, fname, depth)
                    continue
                if f.id in self.mod.functions:
                    callee = self.mod.functions[f.id]
                    cenv = self.bind(callee, n, env)
                    self.analyse(f.id, cenv, depth + 1)
            elif isinstance(f, ast.Attribute) and f.attr == "__setitem__":
                pass

    def expr_lambda(self, lam, env, fname, depth):
        for n in ast.walk(lam.body):
            if isinstance(n, ast.Call) and isinstance(n.func, ast.Name):
                if n.func.id in ("getattr", "setattr"):
                    self.found.append(("%s[dynamic name]" % n.func.id, fname, n.lineno, ast.unparse(n)[:70]))
                elif n.func.id in self.mod.functions:
                    callee = self.mod.functions[n.func.id]
                    cenv = self.bind(callee, n, env)
                    self.analyse(n.func.id, cenv, depth + 1)

    def bind(self, callee, call, env):
        params = [a.arg for a in callee.args.args]
        cenv = {}
        nd = len(callee.args.defaults)
        for i, p in enumerate(params):
            j = i - (len(params) - nd)
            if j >= 0:
                cenv[p] = _const_of(callee.args.defaults[j], {})
            else:
                cenv[p] = _UNKNOWN
        for i, a in enumerate(call.args):
            if i < len(params):
                cenv[params[i]] = _const_of(a, env)
        for k in call.keywords:
            if k.arg in params:
                cenv[k.arg] = _const_of(k.value, env)
        return cenv


def t1(ctx):
    ctx.assume("C16/T1 effects: callees resolved by name inside dendropy.model.parsimony; methods of tree/matrix objects "
               "(postorder_node_iter, child_nodes, taxon_state_sets_map) are assumed read-only; Fitch optimality (Hartigan) is "
               "mathematics about the step and is decided at T2 against a brute-force minimum")
    m = frontend.module(PM)
    ctx.add_function(PM + ":parsimony_score")
    ctx.add_function(PM + ":fitch_down_pass")
    t0 = time.time()
    ef = Effects(m)
    ef.analyse("parsimony_score", {})
    cache = [f for f in ef.found if f[0].startswith("getattr") or f[0].startswith("setattr") or f[0] == "attribute-store"]
    # one obligation per potential cache access in the module, reachable or not
    sites = []
    for fn in m.functions.values():
        for n in ast.walk(fn):
            if isinstance(n, ast.Call) and isinstance(n.func, ast.Name) and n.func.id in ("getattr", "setattr") and fn.name.startswith("_"):
                sites.append((fn.name, n.lineno, n.func.id))
    if not sites:
        ctx.note("no node-attribute cache helpers found in parsimony.py")
    reach = set((f[1], f[2]) for f in cache)
    failed = []
    for fname, ln, kind in sites:
        name = "parsimony_score.frame[%s on a tree node in %s@L%d unreachable]" % (kind, fname, ln)
        if (fname, ln) in reach:
            ctx.obligation(name, "refuted", "effects", time.time() - t0, PM + ":parsimony_score",
                           detail="reachable from parsimony_score with the arguments it passes to fitch_down_pass")
            failed.append((name, fname, ln, kind))
        else:
            ctx.obligation(name, "proved", "effects", time.time() - t0, PM + ":parsimony_score")
    name = "parsimony_score.frame[no attribute store on arguments]"
    stores = [f for f in ef.found if f[0] == "attribute-store"]
    ctx.obligation(name, "refuted" if stores else "proved", "effects", time.time() - t0, PM + ":parsimony_score", detail=str(stores) if stores else None)
    if stores:
        failed.append((name, stores[0][1], stores[0][2], "store"))
    from contracts import C16fitch
    C16fitch.t1(ctx)
    if failed:
        r = native_history_dependence()
        for name, fname, ln, kind in failed[:1]:
            if r is None:
                ctx.fail(name, dict(key="site:%s@%s" % (kind, fname), why="node attribute cache reachable"), detail="cache access reachable; no failing history found natively",
                         kind="T1", no_input=True)
            else:
                ctx.fail(name, dict(key="site:%s@%s" % (kind, fname), native=r, where="%s line %d" % (fname, ln)),
                         detail="parsimony_score reaches the node-attribute state-set cache (%s in %s@L%d); native replay: %s" % (kind, fname, ln, r), kind="T1")


def native_history_dependence():
    import dendropy
    from dendropy.calculate import treescore
    ns = dendropy.TaxonNamespace(["A", "B", "C", "D"])
    tree = dendropy.Tree.get(data="((A,B),(C,D));", schema="newick", taxon_namespace=ns)
    m1 = dendropy.DnaCharacterMatrix.from_dict({"A": "AA", "B": "AA", "C": "AA", "D": "AA"}, taxon_namespace=ns)
    m2 = dendropy.DnaCharacterMatrix.from_dict({"A": "AC", "B": "CA", "C": "AG", "D": "TA"}, taxon_namespace=ns)
    fresh = treescore.parsimony_score(dendropy.Tree(tree), m2)
    treescore.parsimony_score(tree, m1)
    again = treescore.parsimony_score(tree, m2)
    if fresh != again:
        return "score(m2) on a fresh copy = %r, but = %r on a tree object previously scored with m1" % (fresh, again)
    return None


def replay(ctx, rec):
    if "fitch-step" in str(rec.get("obligation", "")):
        from contracts import C16fitch
        return C16fitch.replay(ctx, rec)
    r = native_history_dependence()
    print(r or "score is independent of earlier scoring calls on the witness")
    return r is None
