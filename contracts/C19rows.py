"""C19 -- row-set algebra of the sequence-merging methods (T1 part, dictionaries as maps + allocation).

A matrix is the dictionary taxon -> sequence object; a sequence is modelled by the length of its value list.
For every pair of distinct matrices over one namespace object, with `other` = other_matrix:

  add_sequences      rows' = rows + other's;  a row that was there keeps its very sequence object;
                     a new row gets a NEW sequence object (no sharing with `other`) of the same length
  replace_sequences  rows' = rows;            shared rows get a new object of other's length; the rest untouched
  update_sequences   rows' = rows + other's;  every row of `other` gets a new object of other's length; the rest untouched
  extend_sequences   rows' = rows (+ other's new ones iff is_add_new_sequences); a shared row keeps its object, which
                     grows by other's length; rows not in `other` untouched
  extend_matrix      rows' = rows + other's;  shared rows grow in place, new rows get new objects
  all five           raise TaxonNamespaceIdentityError exactly when the two matrices refer to different namespace
                     objects (and then change nothing); `other` keeps its rows, its sequence objects and their lengths

  remove_sequences / discard_sequences(taxa)   rows' = rows minus the taxa named; every remaining row keeps its very sequence object and length
                     (remove_sequences may raise KeyError instead; discard_sequences never does)
  keep_sequences(taxa)                          rows' = rows that are named; the same
  (`taxa` is any iterable: a holder object whose iteration is the ghost list g_items -- ASSUMED: iterating it twice yields the same
  elements; `set(taxa)` is a set S with S[at(g_items, j)] for every position and a witness position for every member)

`self.__class__.character_sequence_type` is read as "some CharacterDataSequence class" (an AST obligation checks that every
matrix class assigns a subclass of CharacterDataSequence to it); its constructor and `extend` are under contract too."""
import ast

from dpvc import frontend
from dpvc.symexec import Contract, Loop, SV
from dpvc.symexec3 import Executor3
from dpvc.verify import Suite, verify_contract
from dpvc import replay as dreplay

CM = "dendropy.datamodel.charmatrixmodel"

SCHEMA = {
    "CharacterMatrix._taxon_sequence_map": "map:ref:ref of=CharacterDataSequence",
    "CharacterMatrix._taxon_namespace": "ref:TaxonNamespace",
    "CharacterDataSequence._character_values": "lenlist",
    "*.automigrate_taxon_namespace_on_assignment": "opt bool",
}

M = "self._taxon_sequence_map"
O = "other_matrix._taxon_sequence_map"


def L(x):
    return "len(%s._character_values)" % x


def has(m, t):
    return "has(%s, %s)" % (m, t)


def get(m, t):
    return "get(%s, %s)" % (m, t)


def notnone(x):
    return "not isnone(%s)" % x


SEEN_O = "(%s and seen(t))" % has(O, "t")
PH, PG = "pre(%s)" % has(M, "t"), "pre(%s)" % get(M, "t")

# the argument keeps its rows, its sequence objects and their lengths
C_O = ("forall_ref('Taxon', lambda t: {ho} == pre({ho}) and implies({ho}, {go} == pre({go}) and {lo} == pre({lo}) and not isnone({go})))").format(
    ho=has(O, "t"), go=get(O, "t"), lo=L(get(O, "t")))
LEN_NONNEG = "forall_ref('CharacterDataSequence', lambda s: %s >= 0)" % L("s")
# a row the loop has created: a new object -- not one of self's old sequences, not one of the argument's -- as long as the argument's row
NEWROW = ("{nn} and {lg} == {lo} and forall_ref('Taxon', lambda u: implies(pre({hmu}), {gm} != pre({gmu})) and implies({hou}, {gm} != {gou}))").format(
    nn=notnone(get(M, "t")), gm=get(M, "t"), hmu=has(M, "u"), gmu=get(M, "u"), hou=has(O, "u"), gou=get(O, "u"), lg=L(get(M, "t")), lo=L(get(O, "t")))
# where rows are REPLACED the old sequence objects drop out of the matrix; a later allocation may then coincide with such a dead object (as in
# CPython), so for replaced rows only "not one of the argument's sequence objects" is claimed
NEWROW_R = ("{nn} and {lg} == {lo} and forall_ref('Taxon', lambda u: implies({hou}, {gm} != {gou}))").format(
    nn=notnone(get(M, "t")), gm=get(M, "t"), hou=has(O, "u"), gou=get(O, "u"), lg=L(get(M, "t")), lo=L(get(O, "t")))
KEPT = "{gm} == {pg} and {lg} == pre({lg})".format(gm=get(M, "t"), pg=PG, lg=L(get(M, "t")))
GROWN = "{gm} == {pg} and {lg} == pre({lg}) + ite({so}, {lo}, 0)".format(gm=get(M, "t"), pg=PG, lg=L(get(M, "t")), so=SEEN_O, lo=L(get(O, "t")))
ROWS_DISTINCT = ("forall_ref('Taxon', lambda t: forall_ref('Taxon', lambda u: implies({hm} and {hmu} and t != u, {gm} != {gmu})))").format(
    hm=has(M, "t"), hmu=has(M, "u"), gm=get(M, "t"), gmu=get(M, "u"))


def Q(body):
    return "forall_ref('Taxon', lambda t: %s)" % body


def E(spec):
    """a loop-invariant clause as a postcondition: the loop-entry state is the function-entry state, every row of the argument has been visited"""
    return spec.replace(SEEN_O, has(O, "t")).replace("pre(", "old(")


# two matrices do not share sequence objects, a matrix does not list one sequence object under two taxa, no row is None
SEPARATE = ("self != other_matrix and " + Q("implies(%s, %s)" % (has(M, "t"), notnone(get(M, "t")))) + " and " + Q("implies(%s, %s)" % (has(O, "t"), notnone(get(O, "t")))) +
            " and forall_ref('Taxon', lambda t: forall_ref('Taxon', lambda u: implies({hm} and {hou}, {gm} != {gou}))) and ".format(
                hm=has(M, "t"), gm=get(M, "t"), hou=has(O, "u"), gou=get(O, "u")) + ROWS_DISTINCT + " and " + LEN_NONNEG)
NO_NONE = "not has(%s, None) and not has(%s, None)" % (M, O)
SEPARATE = SEPARATE + " and " + NO_NONE
RAISES = {"TaxonNamespaceIdentityError": "other_matrix._taxon_namespace != self._taxon_namespace"}
MODS = ["self._taxon_sequence_map", "CharacterDataSequence._character_values[*]"]
ARG_KEPT = E(C_O)


def method(name, keys, clauses, extra_types=None):
    """keys: which taxa are rows (as a loop-invariant expression); clauses: {name: invariant clause about the rows}"""
    types = {"other_matrix": "ref:CharacterMatrix"}
    types.update(extra_types or {})
    invariant = " and ".join([Q("%s == (%s)" % (has(M, "t"), keys))] + list(clauses.values()) + [C_O, LEN_NONNEG, ROWS_DISTINCT, NO_NONE])
    ens = {"rows": E(Q("%s == (%s)" % (has(M, "t"), keys)))}
    for k, v in clauses.items():
        ens[k] = E(v)
    ens["argument-untouched"] = ARG_KEPT
    ens["rows-do-not-share-sequence-objects"] = ROWS_DISTINCT
    return Contract(CM + ":CharacterMatrix." + name, types=types, requires=SEPARATE, modifies=MODS, frame=False, raises=RAISES,
                    locals={"taxon": "ref:Taxon"}, loops={0: Loop(invariant=invariant)}, ensures=ens)


UNION = "%s or %s" % (PH, SEEN_O)
CONTRACTS = [
    method("add_sequences", UNION,
           {"existing-rows-keep-their-sequence-object-and-length": Q("implies(%s, %s)" % (PH, KEPT)),
            "new-rows-are-copies": Q("implies(%s and not %s, %s)" % (has(M, "t"), PH, NEWROW))}),
    method("replace_sequences", PH,
           {"rows-not-in-the-argument-untouched": Q("implies(%s and not %s, %s)" % (has(M, "t"), SEEN_O, KEPT)),
            "shared-rows-replaced-by-copies": Q("implies(%s and %s, %s)" % (has(M, "t"), SEEN_O, NEWROW_R))}),
    method("update_sequences", UNION,
           {"rows-not-in-the-argument-untouched": Q("implies(%s and not %s, %s)" % (has(M, "t"), SEEN_O, KEPT)),
            "rows-of-the-argument-are-copies": Q("implies(%s, %s)" % (SEEN_O, NEWROW_R))}),
    method("extend_matrix", UNION,
           {"existing-rows-keep-their-object-and-grow-by-the-argument's-row": Q("implies(%s, %s)" % (PH, GROWN)),
            "new-rows-are-copies": Q("implies(%s and not %s, %s)" % (has(M, "t"), PH, NEWROW))}),
    method("extend_sequences", "%s or (is_add_new_sequences and %s)" % (PH, SEEN_O),
           {"existing-rows-keep-their-object-and-grow-by-the-argument's-row": Q("implies(%s, %s)" % (PH, GROWN)),
            "new-rows-are-copies": Q("implies(%s and not %s, %s)" % (has(M, "t"), PH, NEWROW))},
           extra_types={"is_add_new_sequences": "bool"}),
]

# ---- the row-REMOVING methods: the argument is any iterable of taxa, modelled as a holder object whose iteration is the ghost list g_items
ROWS_OK = (Q("implies(%s, %s)" % (has(M, "t"), notnone(get(M, "t")))) + " and " + ROWS_DISTINCT + " and " + LEN_NONNEG + " and not has(%s, None)" % M)
ROW_KEPT = "implies({h}, {g} == pre({g}) and {l} == pre({l}))".format(h=has(M, "t"), g=get(M, "t"), l=L(get(M, "t")))


def _named(upto):
    return "exists_int(lambda j: 0 <= j and j < %s and at(taxa.g_items, j) == t)" % upto


def _rows_after(upto, keep):
    return "%s == (pre(%s) and %s%s)" % (has(M, "t"), has(M, "t"), "" if keep else "not ", _named(upto))


def _removal(name, keep=False, allowed=()):
    if keep:
        # for taxon in tuple(self._taxon_sequence_map.keys()): the rows visited so far are those that are named
        inv = Q("%s == (pre(%s) and (not seen(t) or %s))" % (has(M, "t"), has(M, "t"), _named("length(taxa.g_items)")))
    else:
        inv = Q(_rows_after("loop_index()", False))
    return Contract(CM + ":CharacterMatrix." + name, types={"taxa": "ref:TaxaArg"}, requires=ROWS_OK, modifies=["self._taxon_sequence_map"], frame=False,
                    locals={"taxon": "ref:Taxon"}, allowed_raises=allowed, loops={0: Loop(invariant=inv + " and " + Q(ROW_KEPT))},
                    ensures={"rows-are-exactly-those-%s" % ("named" if keep else "not-named"): E(Q(_rows_after("length(taxa.g_items)", keep))),
                             "remaining-rows-keep-their-sequence-object-and-length": E(Q(ROW_KEPT))})


REMOVALS = [
    _removal("discard_sequences"),
    # remove_sequences may raise KeyError (a taxon without a row, or named twice); on a normal return it has done what discard_sequences does
    _removal("remove_sequences", allowed=("KeyError",)),
    _removal("keep_sequences", keep=True),
]
SCHEMA["TaxaArg.g_items"] = "ghost reflist:Taxon"

SEQ = [
    Contract(CM + ":CharacterDataSequence.__init__",
             types={"character_values": "opt ref:CharacterDataSequence", "character_types": "opaque", "character_annotations": "opaque"},
             requires="implies(not isnone(character_values), character_values != self and %s >= 0)" % L("character_values"),
             modifies=["self._character_values"], frame=True,
             ensures={"as-long-as-the-argument": "%s == ite(isnone(character_values), 0, %s)" % (L("self"), L("character_values"))}),
    Contract(CM + ":CharacterDataSequence.extend",
             types={"character_values": "ref:CharacterDataSequence", "character_types": "opaque", "character_annotations": "opaque"},
             requires="%s >= 0 and %s >= 0" % (L("self"), L("character_values")), modifies=["self._character_values"], frame=True,
             ensures={"grows-by-the-argument's-length": "%s == old(%s) + old(%s)" % (L("self"), L("self"), L("character_values"))}),
]


class RowExecutor(Executor3):
    lenient = True
    iter_views = {"CharacterDataSequence": "_character_values", "TaxaArg": "g_items"}

    def attr_of(self, st, base, attr, lineno):
        # self.__class__.character_sequence_type: some CharacterDataSequence class (AST obligation below)
        if attr == "character_sequence_type" and not self.spec:
            return SV("class", "CharacterDataSequence")
        return Executor3.attr_of(self, st, base, attr, lineno)

    def bi_list(self, e, st):
        v = self.ev(e.args[0], st)
        if v.kind == "ref" and v.cls is not None and "CharacterDataSequence" in self._mro(v.cls):
            # list(sequence) iterates its values: a list of the same length
            key, f = self.field("CharacterDataSequence", "_character_values")
            arr, _ = self.heap_arrays(st, key, f)
            self.require_not_none(st, v, "list()", getattr(e, "lineno", None))
            import z3
            return SV("lenlist", z3.Select(arr, v.t), x=None)
        return Executor3.bi_list(self, e, st)


SUITE = Suite(SCHEMA, [CM, "dendropy.datamodel.taxonmodel"], CONTRACTS + REMOVALS + SEQ, executor_cls=RowExecutor)


def sequence_type_obligation(ctx):
    """every class of charmatrixmodel.py that assigns `character_sequence_type` assigns a (transitive) subclass of CharacterDataSequence"""
    import time
    t0 = time.time()
    mod = frontend.load_module(CM) if hasattr(frontend, "load_module") else None
    src = open(frontend.module_path(CM)).read() if hasattr(frontend, "module_path") else None
    if src is None:
        import os
        from dpvc.ctx import SRC
        src = open(os.path.join(SRC, CM.replace(".", "/") + ".py")).read()
    tree = ast.parse(src)
    bases = {}
    for n in tree.body:
        if isinstance(n, ast.ClassDef):
            bases[n.name] = [ast.unparse(b).split(".")[-1] for b in n.bases]

    def is_seq(c, seen=()):
        if c == "CharacterDataSequence":
            return True
        return any(is_seq(b, seen + (c,)) for b in bases.get(c, []) if b not in seen)

    bad, n_assign = [], 0
    for n in tree.body:
        if isinstance(n, ast.ClassDef):
            for s in n.body:
                if isinstance(s, ast.Assign) and any(isinstance(t, ast.Name) and t.id == "character_sequence_type" for t in s.targets):
                    n_assign += 1
                    v = ast.unparse(s.value).split(".")[-1]
                    if not is_seq(v):
                        bad.append("%s.character_sequence_type = %s" % (n.name, v))
    name = "charmatrixmodel.character_sequence_type[every assignment names a CharacterDataSequence subclass]"
    if n_assign == 0:
        ctx.obligation(name, "unsupported", "ast-scan", time.time() - t0, CM, detail="no assignment found")
        ctx.undecided_ob(name, "no character_sequence_type assignment found")
    elif bad:
        ctx.obligation(name, "refuted", "ast-scan", time.time() - t0, CM, detail="; ".join(bad))
        ctx.fail(name, dict(key="obligation:%s" % name, sites=bad), detail="; ".join(bad), kind="T1", no_input=True)
    else:
        ctx.obligation(name, "proved", "ast-scan", time.time() - t0, CM)


def t1(ctx):
    ctx.assume("C19/rows: a sequence is modelled by the length of its value list (cell contents, types and annotations: bounded); matrices do not share sequence "
               "objects (requires); self is not other_matrix (the self case is driven by the bounded check); "
               "`self.__class__.character_sequence_type` is some CharacterDataSequence class (AST obligation)")
    sequence_type_obligation(ctx)
    for c in SEQ + CONTRACTS:
        verify_contract(ctx, SUITE, c, sentinels=False, replay=dreplay.replay_by_search(_states))
    for c in REMOVALS:
        verify_contract(ctx, SUITE, c, sentinels=False, replay=dreplay.replay_by_search(_removal_states))


# ----------------------------------------------------------------------------- native replay: pairs of small matrices
def _states(c):
    import itertools
    import dendropy
    meth = c.name.split(".")[-1]
    if not c.name.startswith("CharacterMatrix."):
        return
    rows = ((), (0,), (0, 1), (1, 2))
    for mine, theirs, same_ns, flag in itertools.product(rows, rows, (True, False), (False, True)):
        if meth != "extend_sequences" and flag:
            continue
        ns = dendropy.TaxonNamespace(["A", "B", "C"])
        ns2 = ns if same_ns else dendropy.TaxonNamespace(["A", "B", "C"])
        a = dendropy.DnaCharacterMatrix(taxon_namespace=ns)
        b = dendropy.DnaCharacterMatrix(taxon_namespace=ns2)
        for i in mine:
            a[ns[i]] = "AC" * (i + 1)
        for i in theirs:
            b[ns2[i]] = "GTT" * (i + 1)
        seqs = list(a._taxon_sequence_map.values()) + list(b._taxon_sequence_map.values())
        uni = {"Taxon": list(ns) + ([] if same_ns else list(ns2)), "CharacterDataSequence": seqs}
        kw = dict(self=a, other_matrix=b)
        if meth == "extend_sequences":
            kw["is_add_new_sequences"] = flag
        yield kw, uni, "self rows %s, argument rows %s, %s namespace%s" % (
            [ns[i].label for i in mine], [ns2[i].label for i in theirs], "same" if same_ns else "another", ", is_add_new_sequences" if flag else "")


class TaxaArg(list):
    """the `taxa` argument as the contracts see it: an iterable whose elements are at(taxa.g_items, j)"""
    g_items = property(lambda self: list(self))


def _removal_states(c):
    import itertools
    import dendropy
    rows = ((), (0,), (0, 1), (0, 1, 2))
    named = ((), (0,), (1, 0), (2,), (0, 0), (2, 0), (0, 2, 1), (1, 1, 2))
    for mine, arg in itertools.product(rows, named):
        ns = dendropy.TaxonNamespace(["A", "B", "C"])
        a = dendropy.DnaCharacterMatrix(taxon_namespace=ns)
        for i in mine:
            a[ns[i]] = "AC" * (i + 1)
        uni = {"Taxon": list(ns), "CharacterDataSequence": list(a._taxon_sequence_map.values())}
        yield dict(self=a, taxa=TaxaArg(ns[i] for i in arg)), uni, "rows %s, taxa named %s" % ([ns[i].label for i in mine], [ns[i].label for i in arg])
