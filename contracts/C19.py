"""C19 -- character-matrix row/column operations select what they name; terminate (T1 part).

T1 here carries the TERMINATION clause:
  * guard-progress obligations (necessary condition) for every while loop of charmatrixmodel.py;
  * z3-proved termination (decreases measure) and exact growth for CharacterDataSequence.set_at and
    CharacterMatrix.fill (lists modelled by their length);
  * the label-uniquifying loop of CharacterMatrix.concatenate: step obligation (the body re-assigns the
    guard variable from the counter and increments the counter, the guarded dictionary is not
    modified) + Lean lemma `injective_escapes_finite` (an injective sequence leaves any finite set).
Row-set algebra, padding and column selection are bounded (T2)."""
import ast
import time

from dpvc import effects, frontend, lean
from dpvc.symexec import Contract, Loop
from dpvc.symexec2 import Executor2
from dpvc.verify import Suite, verify_contract

CM = "dendropy.datamodel.charmatrixmodel"

SCHEMA = {
    "CharacterDataSequence._character_values": "lenlist",
    "CharacterDataSequence._character_types": "lenlist",
    "CharacterDataSequence._character_annotations": "lenlist",
}

ALIGNED = ("len(self._character_values) == len(self._character_types) and len(self._character_values) == len(self._character_annotations) "
           "and len(self._character_values) >= 0")
LISTS = ["self._character_values", "self._character_types", "self._character_annotations"]

CONTRACTS = [
    Contract(CM + ":CharacterDataSequence.append", types={"character_value": "opaque", "character_type": "opaque", "character_annotations": "opaque"},
             requires=ALIGNED, modifies=LISTS, frame=False,
             ensures={"one-more": "len(self._character_values) == old(len(self._character_values)) + 1", "aligned": ALIGNED}),
    Contract(CM + ":CharacterDataSequence.set_at", types={"idx": "int", "character_value": "opaque", "character_type": "opaque", "character_annotations": "opaque"},
             requires=ALIGNED + " and idx >= 0", modifies=LISTS, frame=False, terminates_required=True,
             locals={"to_add": "int"},
             loops={0: Loop(invariant=ALIGNED + " and len(self._character_values) >= old(len(self._character_values)) and "
                                     "ite(to_add > 0, len(self._character_values) + to_add == idx + 1, "
                                     "len(self._character_values) == ite(idx + 1 > old(len(self._character_values)), idx + 1, old(len(self._character_values))))",
                            decreases="to_add")},
             ensures={"long-enough": "len(self._character_values) > idx", "aligned": ALIGNED,
                      "no-shrink": "len(self._character_values) >= old(len(self._character_values))",
                      "exact": "len(self._character_values) == ite(idx + 1 > old(len(self._character_values)), idx + 1, old(len(self._character_values)))"}),
]


class CMExecutor(Executor2):
    lenient = True

    pass


import z3  # noqa: E402

SUITE = Suite(SCHEMA, [CM], CONTRACTS, executor_cls=CMExecutor)


def concatenate_step(ctx):
    """step obligations for the label loop of concatenate (inputs of the Lean lemma)"""
    m, ci, fn = frontend.resolve(CM + ":CharacterMatrix.concatenate")
    loops = [n for n in ast.walk(fn) if isinstance(n, ast.While)]
    t0 = time.time()
    tgt = CM + ":CharacterMatrix.concatenate"
    ctx.add_function(tgt)
    if len(loops) != 1:
        ctx.obligation("CharacterMatrix.concatenate.label-loop.found", "unsupported", "effects", 0.0, tgt, detail="%d while loops" % len(loops))
        return []
    L = loops[0]
    fails = []
    # guard: <var> in <dict expr>
    ok_guard = isinstance(L.test, ast.Compare) and len(L.test.ops) == 1 and isinstance(L.test.ops[0], ast.In) and isinstance(L.test.left, ast.Name)
    var = L.test.left.id if ok_guard else None
    dict_src = ast.unparse(L.test.comparators[0]) if ok_guard else None
    # (1) the guard variable is re-assigned from the counter by an injective format
    assigned_from = None
    counter = None
    for st in L.body:
        if isinstance(st, ast.Assign) and len(st.targets) == 1 and isinstance(st.targets[0], ast.Name) and st.targets[0].id == var:
            assigned_from = st.value
    if assigned_from is not None:
        names = [n.id for n in ast.walk(assigned_from) if isinstance(n, ast.Name)]
        for st in L.body:
            if isinstance(st, ast.AugAssign) and isinstance(st.op, ast.Add) and isinstance(st.target, ast.Name) and st.target.id in names \
                    and isinstance(st.value, ast.Constant) and isinstance(st.value.value, int) and st.value.value > 0:
                counter = st.target.id
    n1 = "CharacterMatrix.concatenate.label-loop.step[guard variable := format(counter); counter += 1]"
    ok1 = ok_guard and assigned_from is not None and counter is not None and isinstance(assigned_from, ast.BinOp) and isinstance(assigned_from.op, ast.Mod) \
        and isinstance(assigned_from.left, ast.Constant) and "%03d" in str(assigned_from.left.value)
    ctx.obligation(n1, "proved" if ok1 else "refuted", "effects", time.time() - t0, tgt,
                   detail=None if ok1 else "guard variable %r is not re-assigned from an incremented counter in the loop body" % var)
    if not ok1:
        fails.append(n1)
    # (2) the dictionary in the guard is not modified inside the loop
    n2 = "CharacterMatrix.concatenate.label-loop.frame[guarded dictionary unchanged in the loop]"
    touched = False
    for st in L.body:
        for n in ast.walk(st):
            if isinstance(n, ast.Call) and dict_src and dict_src.split(".")[0] in ast.unparse(n.func):
                touched = True
            if isinstance(n, (ast.Assign, ast.AugAssign)):
                for t in (n.targets if isinstance(n, ast.Assign) else [n.target]):
                    if dict_src and dict_src.split(".")[0] in ast.unparse(t) and not isinstance(t, ast.Name):
                        touched = True
    ctx.obligation(n2, "proved" if not touched else "refuted", "effects", time.time() - t0, tgt)
    if touched:
        fails.append(n2)
    return fails


def native_concatenate_hang():
    import dendropy
    from bounded.common import time_limit, Timeout
    ns = dendropy.TaxonNamespace(["A", "B"])
    a = dendropy.DnaCharacterMatrix.from_dict({"A": "AC", "B": "AG"}, taxon_namespace=ns)
    b = dendropy.DnaCharacterMatrix.from_dict({"A": "TT", "B": "TA"}, taxon_namespace=ns)
    a.label = "locus"
    b.label = "locus"
    try:
        with time_limit(3):
            c = dendropy.DnaCharacterMatrix.concatenate([a, b])
    except Timeout:
        return "concatenate([m1, m2]) with m1.label == m2.label == 'locus' did not return within 3 s"
    subs = sorted(c.character_subsets.keys())
    if len(subs) != 2:
        return "concatenate recorded character subsets %s, expected one per source matrix" % subs
    return None


def native_pack_agrees():
    """pack(value, size, append) == fill_taxa() followed by fill(value, size, append), for both settings of append"""
    import dendropy
    for append in (True, False):
        ns = dendropy.TaxonNamespace(["A", "B", "C"])
        a = dendropy.DnaCharacterMatrix.from_dict({"A": "AC", "B": "A"}, taxon_namespace=ns)
        b = dendropy.DnaCharacterMatrix.from_dict({"A": "AC", "B": "A"}, taxon_namespace=ns)
        st = a.default_state_alphabet["-"]
        a.pack(value=st, size=3, append=append)
        b.fill_taxa()
        b.fill(value=st, size=3, append=append)
        ra = dict((t.label, a[t].symbols_as_string()) for t in a)
        rb = dict((t.label, b[t].symbols_as_string()) for t in b)
        if ra != rb:
            return "pack(value='-', size=3, append=%r) gives %r; fill_taxa() + fill(...) gives %r" % (append, ra, rb)
    return None


def pack_forwards(ctx):
    """`pack` is fill_taxa() followed by fill(value, size, append): each of the three arguments reaches fill unchanged"""
    fails = effects.forwarding_obligations(ctx, CM + ":CharacterMatrix.pack", CM + ":CharacterMatrix.fill")
    if fails:
        r = native_pack_agrees()
        for name, p in fails:
            if r:
                ctx.fail(name, dict(key="pack|" + r[:60], outcome=r), detail=r, kind="T1")
            else:
                ctx.fail(name, dict(key="obligation:%s" % name), detail="pack does not pass %s on to fill" % p, kind="T1", no_input=True)


def t1(ctx):
    ctx.assume("C19/T1: lists are modelled by their length; guard-progress is a necessary condition for termination, not a proof; "
               "termination of the concatenate label loop = step obligations (AST) + Lean lemma injective_escapes_finite, with the injectivity of "
               "'%s_%03d' % (label, i) in i as a stated arithmetic assumption")
    for c in CONTRACTS:
        verify_contract(ctx, SUITE, c, sentinels=False)
    fails = effects.guard_progress_obligations(ctx, CM)
    fails2 = concatenate_step(ctx)
    if fails or fails2:
        r = native_concatenate_hang()
        nm = (fails[0][0] if fails else fails2[0])
        if r and any("concatenate" in (f[0] if isinstance(f, tuple) else f) for f in list(fails) + list(fails2)):
            ctx.fail(nm, dict(key="concatenate|equal labels 'locus','locus'", outcome=r), detail=r, kind="T1")
        else:
            for f in list(fails) + list(fails2):
                n = f[0] if isinstance(f, tuple) else f
                ctx.fail(n, dict(key="obligation:%s" % n), detail="termination obligation failed; no hanging input found", kind="T1", no_input=True)
    from contracts import C19rows
    C19rows.t1(ctx)
    pack_forwards(ctx)
    lean.check_lemma(ctx, "Termination.lean", ["injective_escapes_finite"],
                     hypotheses={"injective_escapes_finite": "step + frame obligations of the concatenate label loop (effects, T1); injectivity of the label format in the counter (assumed)"})


def replay(ctx, rec):
    if rec.get("witness", {}).get("state") is not None:
        from contracts import C19rows
        from dpvc import replay as dreplay
        if any(rec.get("witness", {}).get("function", "").endswith(c.name) for c in C19rows.REMOVALS):
            return dreplay.replay_state_record(rec, C19rows.REMOVALS, C19rows._removal_states)
        return dreplay.replay_state_record(rec, C19rows.SEQ + C19rows.CONTRACTS, C19rows._states)
    r = native_concatenate_hang()
    print(r or "concatenate terminates and records one subset per matrix on the witness")
    return r is None
