#!/usr/bin/env python3
"""Self-test of the deductive (T1) part: deliberate property-breaking edits INSIDE functions that are
under contract, applied to a scratch copy of /repo/src (never to /repo), each followed by
`DPVC_REPO=<copy> ./check <P> --t1-only`.  Every edit must make a named obligation fail (exit 1 with a
VIOLATION line, or exit 2 UNDECIDED for an obligation that is discharged on the unchanged tree).
Writes /verif/selftest/t1_mutants.json.   usage: python3 tools/t1_mutants.py [Cxx ...]"""
import json
import os
import shutil
import subprocess
import sys
import tempfile
import time

HERE = os.path.dirname(os.path.dirname(os.path.abspath(__file__)))
REPO = os.environ.get("DPVC_REPO", "/repo")

TM = "dendropy/datamodel/treemodel/"
TC = "dendropy/datamodel/treecollectionmodel.py"
MUTANTS = [
    # (property, file under src/, old text, new text, what)
    ("C01", TM + "_bipartition.py", "            return (~bitmask) & fill_bitmask  # force", "            return ~bitmask  # force",
     "normalize_bitmask: complement not masked by the fill"),
    ("C01", TM + "_bipartition.py", "        cm = (~bitmask) & fill_bitmask\n        if ((cm - 1) & cm) == 0:\n            return True\n        return False",
     "        return False", "is_trivial_bitmask: complement test dropped"),
    ("C01", TM + "_tree.py", "                        leafset_bitmask |= child.edge.bipartition._leafset_bitmask",
     "                        leafset_bitmask = child.edge.bipartition._leafset_bitmask", "encode loop: internal mask is the last child's, not the union"),
    ("C01", TM + "_tree.py", "                    if taxon:\n                        leafset_bitmask = taxon_namespace.taxon_bitmask(taxon)",
     "                    if taxon:\n                        leafset_bitmask = 1", "encode loop: every leaf gets bit 0"),
    ("C01", TM + "_tree.py", "                    for child in child_nodes:\n                        leafset_bitmask |= child.edge.bipartition._leafset_bitmask",
     "                    for child in child_nodes[1:]:\n                        leafset_bitmask |= child.edge.bipartition._leafset_bitmask", "encode loop: first child skipped"),
    ("C01", TM + "_tree.py", "                edge.bipartition = _bipartition.Bipartition(\n                    compile_bipartition=False, is_mutable=True\n                )\n                edge.bipartition._leafset_bitmask = leafset_bitmask",
     "                edge.bipartition = self.seed_node.edge.bipartition\n                edge.bipartition._leafset_bitmask = leafset_bitmask",
     "encode loop: all edges share one Bipartition object"),
    ("C03", TM + "_node.py", "            node._parent_node = None\n            node.edge.tail_node = None\n            index = children.index(node)",
     "            node.edge.tail_node = None\n            index = children.index(node)", "remove_child: parent pointer of the removed node kept"),
    ("C03", TM + "_edge.py", "        old_tail_node.edge.length, old_head_node.edge.length = (\n            old_head_node.edge.length,\n            old_tail_node.edge_length,\n        )",
     "        pass", "Edge.invert: lengths not exchanged"),
    ("C03", TM + "_node.py", "        self.clear_child_nodes()\n        # Go through add to ensure book-keeping", "        # Go through add to ensure book-keeping",
     "set_child_nodes: the old children are kept"),
    ("C03", TM + "_node.py", "        node = self.__class__(**kwargs)\n        return self.add_child(node=node)", "        node = self.__class__(**kwargs)\n        node._parent_node = self\n        return node",
     "new_child: the new node gets a parent but is not listed as a child"),
    ("C03", TM + "_node.py", "        node = self.__class__(**kwargs)\n        return self.insert_child(index=index, node=node)",
     "        node = self.__class__(**kwargs)\n        return self.insert_child(index=index + 1, node=node)", "insert_new_child: off by one"),
    ("C04", "dendropy/calculate/treecompare.py", "    false_positives = comparison_bipartitions.difference(ref_bipartitions)",
     "    false_positives = ref_bipartitions.difference(comparison_bipartitions)", "fp computed as fn"),
    ("C05", TC, "                self._split_freqs[split] = float(self.split_counts[split]) / normalization_weight",
     "                self._split_freqs[split] = float(self.split_counts[split]) / self.total_trees_counted", "calc_freqs: weights ignored"),
    ("C05", TC, "        return self._get_split_frequencies().get(split_bitmask, 0.0)", "        return self._get_split_frequencies().get(split_bitmask, 1.0)",
     "__getitem__: 1.0 for a split in no tree"),
    ("C05", TC, "        self.split_counts[split] += count", "        self.split_counts[split] = count", "add_split_count: = for +="),
    ("C05", TC, "        if self._split_freqs is None or self._trees_counted_for_freqs != self.total_trees_counted:", "        if self._split_freqs is None:",
     "_get_split_frequencies: staleness test dropped"),
    ("C05", TC, "            self.split_counts[split] += split_dist.split_counts[split]", "            self.split_counts[split] = split_dist.split_counts[split]",
     "SplitDistribution.update: = for +="),
    ("C05", TC, "            self.split_counts[split] += weight_to_use", "            self.split_counts[split] += 1.0", "count_splits_on_tree: tree weight ignored"),
    ("C05", TC, "        if tree.weight is not None and self.use_tree_weights:", "        if tree.weight is not None:", "count_splits_on_tree: use_tree_weights ignored"),
    ("C05", TC, "            except (ValueError, TypeError):\n                pass\n        return self._split_node_age_summaries",
     "            except (ValueError, TypeError):\n                pass\n        self._trees_counted_for_summaries = self.total_trees_counted\n        return self._split_node_age_summaries",
     "calc_split_node_age_summaries marks the SHARED staleness counter current (the other table is then served stale)"),
    ("C05", TC, "        if self._split_node_age_summaries is None \\\n                or self._trees_counted_for_summaries != self.total_trees_counted:\n            self.calc_split_node_age_summaries()",
     "        if self._split_node_age_summaries is None:\n            self.calc_split_node_age_summaries()", "node-age summaries: staleness test dropped"),
    ("C06", TC, "        self._tree_weights.extend(other._tree_weights)\n        self._split_distribution.update(other._split_distribution)",
     "        self._split_distribution.update(other._split_distribution)", "TreeArray.update: one parallel list not extended"),
    ("C06", TC, "        self._tree_weights.extend(other._tree_weights)\n        self._split_distribution.update(other._split_distribution)",
     "        self._tree_weights.extend(other._tree_weights)", "TreeArray.update: summaries not merged"),
    ("C06", TC, "        ta += self\n        ta += other\n        return ta", "        ta += self\n        return ta", "TreeArray.__add__: the second operand is not merged"),
    ("C06", TC, "        ta += self\n        ta += other\n        return ta", "        self += other\n        return self", "TreeArray.__add__: the first operand is extended and returned"),
    ("C06", TC, "        self._tree_split_bitmasks.extend(other._tree_split_bitmasks)", "        self._tree_split_bitmasks = other._tree_split_bitmasks if not self._tree_split_bitmasks else self._tree_split_bitmasks + other._tree_split_bitmasks",
     "TreeArray.update: an empty master adopts the operand's list object"),
    ("C06", "dendropy/application/sumtrees.py", "            tree_source = self.work_queue.get()\n            if tree_source is None:\n                break",
     "            try:\n                tree_source = self.work_queue.get_nowait()\n            except queue.Empty:\n                break\n            if tree_source is None:\n                break",
     "SumTrees worker: polls the work queue and takes 'empty' for 'no work left'"),
    ("C07", TM + "_edge.py", "        old_tail_node.edge.length, old_head_node.edge.length = (\n            old_head_node.edge.length,\n            old_tail_node.edge_length,\n        )",
     "        pass", "Edge.invert: lengths not exchanged"),
    ("C08", TM + "_tree.py", "        to_prune = [t for t in self.taxon_namespace if t not in taxa]", "        to_prune = [t for t in self.taxon_namespace if t in taxa]",
     "retain_taxa: complement inverted"),
    ("C10", "dendropy/datamodel/taxonmodel.py", "        self._taxon_accession_index_map[taxon] = self._current_accession_count\n        self._current_accession_count += 1",
     "        self._taxon_accession_index_map[taxon] = self._current_accession_count", "add_taxon: counter not advanced (index shared by the next taxon)"),
    ("C11", "dendropy/datamodel/charmatrixmodel.py", "                else:\n                    # taxon to use is given by mapping\n                    self.taxon_namespace.add_taxon(t)\n                if t in self._taxon_sequence_map:",
     "                if t in self._taxon_sequence_map:", "CharacterMatrix.reconstruct_taxon_namespace: a taxon named by the caller's memo is not added to the namespace"),
    ("C11", "dendropy/datamodel/charmatrixmodel.py", "        if taxon not in self.taxon_namespace:\n            raise ValueError(\"Taxon {} is not in object taxon namespace\".format(repr(taxon)))",
     "        pass", "CharacterMatrix.new_sequence: foreign taxon accepted"),
    ("C11", "dendropy/datamodel/charmatrixmodel.py", "            if taxon not in self.taxon_namespace:\n                self.taxon_namespace.add_taxon(taxon)",
     "            if taxon in self.taxon_namespace:\n                self.taxon_namespace.add_taxon(taxon)", "CharacterMatrix.update_taxon_namespace: test inverted"),
    ("C11", TC, "                tree._taxon_namespace = self.taxon_namespace\n                tree.update_taxon_namespace()",
     "                tree._taxon_namespace = self.taxon_namespace", "TreeList import, strategy 'add': taxa not added"),
    ("C11", TC, "        self._import_tree_to_taxon_namespace(\n                tree=tree,\n                taxon_import_strategy=taxon_import_strategy,\n                **kwargs)\n        self._trees.insert(index, tree)",
     "        self._trees.insert(index, tree)", "TreeList.insert: tree not imported"),
    ("C11", TM + "_tree.py", "                else:\n                    # taxon to use is given by mapping\n                    self.taxon_namespace.add_taxon(t)\n                node.taxon = t",
     "                node.taxon = t", "Tree.reconstruct_taxon_namespace: memo taxon not added"),
    ("C11", TM + "_tree.py", "            if nd.taxon is not None:\n                self.taxon_namespace.add_taxon(nd.taxon)\n        return self.taxon_namespace",
     "            if nd.taxon is not None and nd.is_leaf():\n                self.taxon_namespace.add_taxon(nd.taxon)\n        return self.taxon_namespace",
     "Tree.update_taxon_namespace: internal-node taxa skipped"),
    ("C14", TM + "_tree.py", "        if (\n            start_node.edge.bipartition.leafset_bitmask & leafset_bitmask\n        ) != leafset_bitmask:\n            return None",
     "        if not (start_node.edge.bipartition.leafset_bitmask & leafset_bitmask):\n            return None", "mrca: None only when no taxon at all is on the tree"),
    ("C14", TM + "_tree.py", "                        #   required taxa as descendants, so we return the last_match\n                        return last_match",
     "                        #   required taxa as descendants, so we return the last_match\n                        return curr_node", "mrca: partial overlap returns the child"),
    ("C14", TM + "_tree.py", "                            while curr_node.num_child_nodes() == 1:\n                                curr_node, = curr_node.child_nodes()\n                            return curr_node",
     "                            return curr_node", "mrca: unifurcations not stepped down"),
    ("C14", TM + "_tree.py", "                        last_match = curr_node\n                        nd_source = iter(curr_node.child_nodes())",
     "                        nd_source = iter(curr_node.child_nodes())", "mrca: last_match not advanced on descent"),
    ("C17", TM + "_tree.py", "                        if d > ultrametricity_precision:", "                        if d >= ultrametricity_precision:",
     "calc_node_ages: a difference equal to the precision is rejected"),
    ("C17", TM + "_tree.py", "            if len(child_nodes) == 0:\n                node.age = 0.0", "            if len(child_nodes) == 0:\n                node.age = 1.0",
     "calc_node_ages: leaves get age 1.0"),
    ("C17", TM + "_tree.py", "                    for nnd in child_nodes[1:]:", "                    for nnd in child_nodes[2:]:", "calc_node_ages: second child not compared"),
    ("C17", TM + "_tree.py", "                        age_to_set = first_child.age + first_child.edge.length\n                    elif first_child.edge.length is None:",
     "                        age_to_set = first_child.age - first_child.edge.length\n                    elif first_child.edge.length is None:", "calc_node_ages: length subtracted"),
    ("C16", "dendropy/model/parsimony.py", "                    score += wt\n", "                    score = wt\n", "fitch step: score overwritten instead of accumulated"),
    ("C16", "dendropy/model/parsimony.py", "                    result.append(left_ss.union(left_ss, right_ss))", "                    result.append(left_ss.union(left_ss))", "fitch step: union drops the right set"),
    ("C16", "dendropy/model/parsimony.py", "                        wt = weights[n]", "                        wt = weights[n - 1]", "fitch step: weight of the previous character"),
    ("C16", "dendropy/model/parsimony.py", "                inter = left_ss.intersection(right_ss)\n                if inter:\n                    result.append(inter)",
     "                inter = left_ss.intersection(right_ss)\n                if inter:\n                    result.append(left_ss)", "fitch step: left set kept when the sets meet"),
    ("C16", "dendropy/model/parsimony.py", "                        score_by_character_list[n] += wt", "                        score_by_character_list[n] += 1", "fitch step: per-character score ignores the weight"),
    ("C16", "dendropy/model/parsimony.py", "                        wt = 1\n", "                        wt = 1\n                        continue\n", "fitch step: unsupported statement (must be undecided, not a violation)"),
    ("C04", "dendropy/calculate/treecompare.py", "                           dist_fn=df,\n                           edge_weight_attr=edge_weight_attr,\n                           value_type=value_type,\n                           is_bipartitions_updated=is_bipartitions_updated)",
     "                           dist_fn=df,\n                           edge_weight_attr=edge_weight_attr,\n                           value_type=value_type,\n                           is_bipartitions_updated=not is_bipartitions_updated)",
     "euclidean_distance: the caller's flag negated (round 5's seed)"),
    ("C05", "dendropy/datamodel/treecollectionmodel.py", "                is_bipartitions_updated=is_bipartitions_updated,\n                default_edge_length_value=self.default_edge_length_value)",
     "                is_bipartitions_updated=True,\n                default_edge_length_value=self.default_edge_length_value)", "add_tree: count_splits_on_tree told the encoding is current whatever the caller said"),
    ("C05", "dendropy/datamodel/treecollectionmodel.py", "                use_tree_weights=kwargs_dict.pop(\"use_tree_weights\", True),\n", "",
     "TreeList._get_tree_array: use_tree_weights no longer handed to the array (round 6's seed)"),
    ("C05", "dendropy/datamodel/treecollectionmodel.py", "            use_tree_weights=use_tree_weights,\n            ultrametricity_precision=ultrametricity_precision,\n            is_force_max_age=is_force_max_age,\n            taxon_label_age_map=taxon_label_age_map,\n            )\n        ta.add_trees(",
     "            ultrametricity_precision=ultrametricity_precision,\n            is_force_max_age=is_force_max_age,\n            taxon_label_age_map=taxon_label_age_map,\n            )\n        ta.add_trees(",
     "TreeArray.from_tree_list: use_tree_weights not handed to the constructor (round 6's seed)"),
    ("C06", "dendropy/datamodel/treecollectionmodel.py", "                is_force_max_age=self._split_distribution.is_force_max_age,\n                taxon_label_age_map=self.taxon_label_age_map,\n                )\n        ta.default_edge_length_value",
     "                )\n        ta.default_edge_length_value", "__add__: the sum is built without the operands' age settings (the repaired defect)"),
    ("C10", "dendropy/datamodel/taxonmodel.py", "        taxon = self._lookup_label(label=label,\n                is_case_sensitive=is_case_sensitive,\n                first_match_only=True,\n                error_if_not_found=False,\n                )\n        if taxon is not None:\n            return taxon\n        if not self.is_mutable:",
     "        taxon = self._lookup_label(label=label,\n                first_match_only=True,\n                error_if_not_found=False,\n                )\n        if taxon is not None:\n            return taxon\n        if not self.is_mutable:",
     "require_taxon: the call's case flag dropped (round 4's seed)"),
    ("C14", "dendropy/calculate/phylogeneticdistance.py", "            return self.path_edge_count(taxon1, taxon2, is_normalize_by_tree_size=is_normalize_by_tree_size)",
     "            return self.path_edge_count(taxon1, taxon2)", "distance(): the edge-count branch drops is_normalize_by_tree_size"),
    ("C14", "dendropy/calculate/phylogeneticdistance.py", "        return sum(self.distances(is_weighted_edge_distances=is_weighted_edge_distances,is_normalize_by_tree_size=is_normalize_by_tree_size))",
     "        return sum(self.distances(is_weighted_edge_distances=True,is_normalize_by_tree_size=is_normalize_by_tree_size))", "sum_of_distances: always weighted"),
    ("C14", "dendropy/calculate/treemeasure.py", "is_bipartitions_updated=is_bipartitions_updated", "is_bipartitions_updated=True", "patristic_distance: mrca told the encoding is current"),
    ("C11", "dendropy/datamodel/charmatrixmodel.py", "                taxon = char_matrix.taxon_namespace.require_taxon(key,\n                        is_case_sensitive=case_sensitive_taxon_labels)",
     "                taxon = char_matrix.taxon_namespace.require_taxon(label=key)", "from_dict: the case flag is not handed to require_taxon"),
    ("C16", "dendropy/model/parsimony.py", "        set_node_state_sets(nd, result)\n", "        set_node_state_sets(nd, left_ssl)\n", "fitch glue: the left child's list is stored for the node"),
    ("C16", "dendropy/model/parsimony.py", "        left_c, right_c = c[:2]\n", "        right_c, left_c = c[-2:]\n", "fitch glue: the last two children instead of the first two (harmless on bifurcating trees: AST obligation only)"),
    ("C16", "dendropy/model/parsimony.py", "        set_node_state_sets(nd, result)\n", "        set_node_state_sets(nd, result)\n        score += 0 if remaining is not None else 1\n", "fitch glue: score touched outside the step"),
    ("C17", "dendropy/model/coalescent.py", "            tree, ultrametricity_precision=ultrametricity_precision\n        ),\n        haploid_pop_size,", "            tree\n        ),\n        haploid_pop_size,",
     "log_probability_of_coalescent_tree: precision dropped (the repaired defect)"),
    ("C17", "dendropy/model/multispeciescoalescent.py", "        self._species_tree.calc_node_ages(ultrametricity_precision=self.ultrametricity_precision)",
     "        self._species_tree.calc_node_ages()", "MultispeciesCoalescent: species tree checked with the default precision"),
    ("C17", "dendropy/datamodel/treecollectionmodel.py", "        self.ultrametricity_precision = ultrametricity_precision\n", "        self.ultrametricity_precision = constants.DEFAULT_ULTRAMETRICITY_PRECISION\n",
     "SplitDistribution.__init__: given precision not kept"),
    ("C19", "dendropy/datamodel/charmatrixmodel.py", "            if taxon not in self._taxon_sequence_map:\n                self._taxon_sequence_map[taxon] = self.__class__.character_sequence_type(other_matrix._taxon_sequence_map[taxon])\n\n    def replace_sequences",
     "            self._taxon_sequence_map[taxon] = self.__class__.character_sequence_type(other_matrix._taxon_sequence_map[taxon])\n\n    def replace_sequences",
     "add_sequences: existing rows overwritten"),
    ("C19", "dendropy/datamodel/charmatrixmodel.py", "            else:\n                self._taxon_sequence_map[taxon]= self.__class__.character_sequence_type(other_matrix._taxon_sequence_map[taxon])",
     "            else:\n                self._taxon_sequence_map[taxon]= other_matrix._taxon_sequence_map[taxon]", "extend_matrix: new rows alias the argument's sequence objects"),
    ("C19", "dendropy/datamodel/charmatrixmodel.py", "                if not is_add_new_sequences:\n                    continue", "                if is_add_new_sequences:\n                    continue",
     "extend_sequences: flag inverted"),
    ("C19", "dendropy/datamodel/charmatrixmodel.py", "            self.append(None)\n            to_add -= 1", "            self.append(None)", "set_at: loop counter not decremented"),
    ("C11", "dendropy/datamodel/taxonmodel.py", "        self._taxa.clear()\n        self._accession_index_taxon_map.clear()",
     "        self._accession_index_taxon_map.clear()", "clear: the member list keeps taxa that are no longer keys of the accession map"),
    ("C11", "dendropy/datamodel/taxonmodel.py", "        taxon = Taxon(label=label)\n        self.add_taxon(taxon)\n        return taxon",
     "        taxon = Taxon(label=label)\n        return taxon", "new_taxon: the new taxon is returned without being added"),
    ("C11", "dendropy/datamodel/taxonmodel.py", "        if taxon is not None:\n            return taxon\n        if not self.is_mutable:\n            raise error.ImmutableTaxonNamespaceError(\"Taxon '{}' not in TaxonNamespace, and",
     "        if taxon is not None:\n            return Taxon(label=label)\n        if not self.is_mutable:\n            raise error.ImmutableTaxonNamespaceError(\"Taxon '{}' not in TaxonNamespace, and",
     "require_taxon: a known label yields a fresh non-member"),
    ("C12", "dendropy/datamodel/taxonmodel.py", "            for taxon in self._taxa:\n                memo[id(taxon)] = taxon\n        return memo",
     "            for taxon in self._taxa[1:]:\n                memo[id(taxon)] = taxon\n        return memo", "populate_memo: the first taxon is not entered (it would be copied)"),
    ("C02", TM + "_tree.py", "        tree_list.write_to_stream(stream, schema, **kwargs)", "        tree_list.write_to_stream(stream, schema)", "Tree.write: writer options dropped (TreeList.write keeps them)"),
    ("C02", TM + "_tree.py", "        tree_list = TreeList(taxon_namespace=self.taxon_namespace)\n        tree_list.append(self, taxon_import_strategy=\"add\")",
     "        tree_list = TreeList()\n        tree_list.append(self)", "Tree.write: the tree is migrated to a new namespace by being written"),
    ("C02", TC, "        writer = dataio.get_writer(schema, **kwargs)\n        writer.write_tree_list(self, stream)",
     "        writer = dataio.get_writer(schema, **kwargs)\n        writer.write_tree_list(self[:1] if kwargs.get(\"suppress_rooting\") else self, stream)",
     "TreeList.write: under one option only the first tree is written"),
    ("C02", "dendropy/datamodel/basemodel.py", "        with open(os.path.expandvars(os.path.expanduser(dest)), \"w\") as f:", "        with open(os.path.expandvars(os.path.expanduser(dest)), \"a\") as f:",
     "write_to_path: appends to what the file held"),
    ("C09", "dendropy/datamodel/basemodel.py", "        return s.getvalue()\n", "        return s.getvalue().rstrip()\n", "as_string: the buffer is trimmed before it is returned"),
    ("C09", "dendropy/datamodel/basemodel.py", "        self._format_and_write_to_stream(stream=s, schema=schema, **kwargs)\n        return s.getvalue()",
     "        self._format_and_write_to_stream(stream=s, schema=schema)\n        return s.getvalue()", "as_string: writer options dropped"),
    ("C09", "dendropy/datamodel/basemodel.py", "        with open(os.path.expandvars(os.path.expanduser(dest)), \"w\") as f:", "        with open(os.path.expandvars(os.path.expanduser(dest)), \"a\") as f:",
     "write_to_path: appends to what the file held"),
    ("C09", "dendropy/datamodel/charmatrixmodel.py", "        kwargs[\"data_type\"] = cls.data_type\n", "        kwargs.setdefault(\"data_type\", cls.data_type)\n",
     "CharacterMatrix.get: a data_type given by the caller overrides the class's"),
    ("C09", "dendropy/datamodel/charmatrixmodel.py", "        char_matrix = char_matrices[matrix_offset]", "        char_matrix = char_matrices[-1]", "CharacterMatrix.get: the last matrix, not the one asked for"),
    ("C09", "dendropy/datamodel/charmatrixmodel.py", "        writer = dataio.get_writer(schema, **kwargs)\n        writer.write_char_matrices([self],",
     "        kwargs.pop(\"wrap\", None)\n        writer = dataio.get_writer(schema, **kwargs)\n        writer.write_char_matrices([self],", "CharacterMatrix writer glue: one writer option swallowed"),
    ("C09", "dendropy/datamodel/datasetmodel.py", "        writer.write_dataset(self, stream, exclude_trees, exclude_chars)", "        writer.write_dataset(self, stream, exclude_chars, exclude_trees)",
     "DataSet writer glue: the two exclusion flags exchanged"),
    ("C12", "dendropy/datamodel/taxonmodel.py", "            memo[id(self)] = self\n            for taxon in self._taxa:\n                memo[id(taxon)] = taxon",
     "            for taxon in self._taxa:\n                memo[id(taxon)] = taxon", "populate_memo: the namespace itself is not entered"),
    ("C12", "dendropy/datamodel/basemodel.py", "            return self.taxon_namespace_scoped_copy(memo=None)", "            return copy.deepcopy(self)",
     "clone(1) makes a deep copy"),
    ("C12", TM + "_tree.py", "        self.taxon_namespace.populate_memo_for_taxon_namespace_scoped_copy(memo)\n        return self.__deepcopy__(memo=memo)",
     "        self.taxon_namespace.populate_memo_for_taxon_namespace_scoped_copy(memo)\n        return self.__deepcopy__(memo={})", "Tree scoped copy: the filled memo is not the one used"),
    ("C13", "dendropy/datamodel/basemodel.py", "        ssrc = StringIO(src, newline=None)\n        return cls._parse_and_create_from_stream(stream=ssrc,",
     "        ssrc = StringIO(src)\n        return cls._parse_and_create_from_stream(stream=ssrc,", "get_from_string: the string is wrapped without universal newlines"),
    ("C13", "dendropy/datamodel/basemodel.py", "        with open(src, *open_args) as fsrc:\n            return self._parse_and_add_from_stream(stream=fsrc, schema=schema, **kwargs)",
     "        with open(src, *open_args) as fsrc:\n            return self._parse_and_add_from_stream(stream=fsrc, schema=schema)", "read_from_path: reader options dropped"),
    ("C13", TM + "_tree.py", "        if tree_offset is None:\n            tree_offset = 0\n        tree_lists = reader.read_tree_lists(",
     "        if not tree_offset:\n            tree_offset = -1 if tree_offset is None and collection_offset else 0\n        tree_lists = reader.read_tree_lists(",
     "Tree.get: without a tree offset but with a later collection, the last tree of it"),
    ("C13", TM + "_tree.py", "        tree_list = tree_lists[collection_offset]\n        if not tree_list:", "        tree_list = tree_lists[collection_offset - 1]\n        if not tree_list:",
     "Tree.get: collection offset off by one"),
    ("C13", TC, "        kwargs[\"tree_list\"] = self\n        cur_size = len(self._trees)", "        kwargs[\"tree_list\"] = self\n        kwargs.pop(\"rooting\", None)\n        cur_size = len(self._trees)",
     "TreeList.read: one reader option swallowed on the incremental route only"),
    ("C13", TC, "        new_size = len(self._trees)\n        return new_size - cur_size", "        new_size = len(self._trees)\n        return new_size", "TreeList.read returns the size, not the number read"),
    ("C13", TC, "                for tree in target_tree_list[tree_offset:]:\n                    tree_list._trees.append(tree)",
     "                for tree in target_tree_list[tree_offset:tree_offset + 1]:\n                    tree_list._trees.append(tree)", "TreeList.get with a tree offset: only that one tree"),
    ("C13", TC, "        if collection_offset is None and tree_offset is not None:\n            collection_offset = 0", "        if collection_offset is None and tree_offset:\n            collection_offset = 0",
     "TreeList.get(tree_offset=0) without a collection offset: every collection is read"),
    ("C13", TC, "            target_tree_list = tree_lists[collection_offset]\n            tree_list.copy_annotations_from(target_tree_list)",
     "            target_tree_list = tree_lists[-1] if collection_offset + 1 == len(tree_lists) - 1 else tree_lists[collection_offset]\n            tree_list.copy_annotations_from(target_tree_list)",
     "TreeList.get: the last-but-one collection is answered with the last"),
    ("C13", "dendropy/datamodel/datasetmodel.py", "        exclude_trees = kwargs.pop(\"exclude_trees\", False)\n        exclude_chars = kwargs.pop(\"exclude_chars\", False)",
     "        exclude_trees = kwargs.pop(\"exclude_trees\", False)\n        exclude_chars = kwargs.pop(\"exclude_chars\", exclude_trees)", "DataSet.get(exclude_trees=True) also drops the matrices"),
    ("C13", "dendropy/datamodel/datasetmodel.py", "        return (n_tns2-n_tns,\n                n_tree_lists2-n_tree_lists,", "        return (n_tns2,\n                n_tree_lists2-n_tree_lists,",
     "DataSet.read reports the number of namespaces held, not read"),
    ("C13", "dendropy/datamodel/datasetmodel.py", "        if self.attached_taxon_namespace is not None and taxon_namespace is None:\n            taxon_namespace = self.attached_taxon_namespace",
     "        if self.attached_taxon_namespace is not None and taxon_namespace is None and not exclude_chars:\n            taxon_namespace = self.attached_taxon_namespace",
     "DataSet.read with exclude_chars ignores the attached namespace"),
    ("C19", "dendropy/datamodel/charmatrixmodel.py", "        self.fill(value=value, size=size, append=append)", "        self.fill(value=value, size=size)",
     "pack: `append` not passed on to fill"),
    ("C19", "dendropy/datamodel/charmatrixmodel.py", "            if taxon not in to_keep:\n                del self._taxon_sequence_map[taxon]",
     "            if taxon in to_keep:\n                del self._taxon_sequence_map[taxon]", "keep_sequences: membership test inverted"),
    ("C19", "dendropy/datamodel/charmatrixmodel.py", "        for taxon in taxa:\n            try:\n                del self._taxon_sequence_map[taxon]\n            except KeyError:\n                pass",
     "        try:\n            for taxon in taxa:\n                del self._taxon_sequence_map[taxon]\n        except KeyError:\n            pass",
     "discard_sequences: the first taxon without a row ends the loop"),
    ("C19", "dendropy/datamodel/charmatrixmodel.py", "        for taxon in taxa:\n            del self._taxon_sequence_map[taxon]\n",
     "        for taxon in taxa:\n            del self._taxon_sequence_map[taxon]\n            break\n", "remove_sequences: only the first taxon named is removed"),
    ("C20", "dendropy/dataio/nexusreader.py",
     "            else:\n                token = self._nexus_tokenizer.require_next_token_ucase()\n\n    def _parse_dimensions_statement",
     "            else:\n                token = self._nexus_tokenizer.next_token_ucase()\n\n    def _parse_dimensions_statement",
     "_parse_format_statement: the fall-through branch no longer requires a token (hangs at end of input)"),
    ("C20", "dendropy/dataio/nexusreader.py",
     "            elif token == 'BEGIN':\n                raise self._nexus_error(\"'BEGIN' found without completion of previous block\",\n                        NexusReader.IncompleteBlockError)\n            token = self._nexus_tokenizer.require_next_token_ucase()\n\n    def _parse_matrix_statement",
     "            elif token == 'BEGIN':\n                raise self._nexus_error(\"'BEGIN' found without completion of previous block\",\n                        NexusReader.IncompleteBlockError)\n            token = self._nexus_tokenizer.next_token_ucase()\n\n    def _parse_matrix_statement",
     "_parse_dimensions_statement: loop step no longer requires a token"),
    ("C20", "dendropy/dataio/nexusyielder.py", "        if token is None or token.upper() != \"#NEXUS\":", "        if token.upper() != \"#NEXUS\":",
     "NEXUS tree iterator: the first token of an empty source is used unchecked"),
    # --- the tokenizer at character level (contracts/C20chars.py)
    ("C20", "dendropy/dataio/tokenizer.py", "                dest.append(self._cur_char)\n            self._get_next_char()\n        if self.capture_comments:",
     "                dest.append(self._cur_char)\n        if self.capture_comments:", "_handle_comment: the loop body no longer reads a character"),
    ("C20", "dendropy/dataio/tokenizer.py", "                    self._handle_comment()\n                    if self._cur_char == \"\":\n                        break", "                    pass",
     "__next__: a comment inside an unquoted token is not consumed"),
    ("C20", "dendropy/dataio/tokenizer.py", "        while self._cur_char != \"\" and self._cur_char in self.uncaptured_delimiters:\n            self._get_next_char()",
     "        while self._cur_char != \"\" and self._cur_char in self.uncaptured_delimiters:\n            pass", "_skip_to_significant_char: the loop does not read"),
    # --- the NEWICK recursive descent (contracts/C20newick.py)
    ("C20", "dendropy/dataio/newickreader.py",
     "                        ## node_created = True # do not flag node as created to allow for an extra node to be created in the event of (..,)\n                    nexus_tokenizer.require_next_token()\n",
     "                        ## node_created = True # do not flag node as created to allow for an extra node to be created in the event of (..,)\n",
     "node description: the `,` after a child is no longer stepped over (the for-count loop spins)"),
    ("C20", "dendropy/dataio/newickreader.py",
     "                    # end of child nodes\n                    self._parenthesis_nesting_level -= 1\n",
     "                    # end of child nodes\n",
     "node description: closing parenthesis not counted"),
    ("C20", "dendropy/dataio/newickreader.py",
     "                self._tree_statement_complete = True\n                nexus_tokenizer.next_token()\n                break",
     "                self._tree_statement_complete = True\n                break",
     "node description: the `;` that completes the statement is not consumed (tree_iter would return the same tree for ever)"),
    ("C20", "dendropy/dataio/newickreader.py",
     "        while (current_token == \";\" or current_token is None) and not nexus_tokenizer.is_eof():\n            # (an empty or exhausted source is not an error: no (more) trees)\n            current_token = nexus_tokenizer.next_token()",
     "        while (current_token == \";\" or current_token is None) and not nexus_tokenizer.is_eof():\n            # (an empty or exhausted source is not an error: no (more) trees)\n            current_token = nexus_tokenizer.current_token",
     "tree statement: the skip loop over `;` no longer advances"),
    ("C20", "dendropy/dataio/newickreader.py",
     "            # self._parenthesis_nesting_level += 1 # handled by calling code\n            nexus_tokenizer.require_next_token()\n",
     "            # self._parenthesis_nesting_level += 1 # handled by calling code\n",
     "node description: the opening parenthesis is not stepped over (the description recurses on the same token for ever)"),
]


def run(props):
    out = []
    tmp = tempfile.mkdtemp(prefix="t1mut-")
    try:
        shutil.copytree(os.path.join(REPO, "src"), os.path.join(tmp, "src"))
        for prop, rel, old, new, what in MUTANTS:
            if props and prop not in props:
                continue
            path = os.path.join(tmp, "src", rel)
            orig = open(path).read()
            if old is None:
                # C20: the first require_next_token_ucase after `def _parse_format_statement`
                i = orig.index("def _parse_format_statement")
                j = orig.index("require_next_token_ucase", i)
                mutated = orig[:j] + "next_token_ucase" + orig[j + len("require_next_token_ucase"):]
            else:
                if orig.count(old) < 1:
                    out.append(dict(property=prop, what=what, status="pattern-not-found"))
                    print("%s  %-70s pattern not found" % (prop, what))
                    continue
                mutated = orig.replace(old, new, 1)
            open(path, "w").write(mutated)
            t0 = time.time()
            env = dict(os.environ, DPVC_REPO=tmp)
            r = subprocess.run(["./check", prop, "--t1-only"], cwd=HERE, env=env, capture_output=True, text=True)
            open(path, "w").write(orig)
            lines = r.stdout.splitlines()
            failed = [l.strip()[8:].split(" :: ")[0] for l in lines if l.strip().startswith("failed: ")]
            undec = [l.split("obligation=", 1)[1].split(" ")[0] for l in lines if l.startswith("UNDECIDED")]
            native = sum(1 for l in lines if l.strip().startswith("failed: ") and "no native replay" not in l and "no failing input" not in l)
            rec = dict(property=prop, file=rel, what=what, exit=r.returncode, failing_obligations=sorted(set(failed))[:6], undecided=sorted(set(undec))[:6],
                       with_native_witness=native > 0, wall_s=round(time.time() - t0, 1), detected=r.returncode in (1, 2))
            out.append(rec)
            print("%s  %-70s exit=%d %s" % (prop, what[:70], r.returncode, (rec["failing_obligations"] or rec["undecided"])[:2]))
    finally:
        shutil.rmtree(tmp, ignore_errors=True)
    d = os.path.join(HERE, "selftest")
    os.makedirs(d, exist_ok=True)
    if props and os.path.exists(os.path.join(d, "t1_mutants.json")):
        # a run restricted to some properties replaces their records only; the others are kept as last recorded
        kept = [m for m in json.load(open(os.path.join(d, "t1_mutants.json"))).get("mutants", []) if m.get("property") not in props]
        out = sorted(kept + out, key=lambda m: m.get("property", ""))
    json.dump(dict(repo_head=subprocess.run(["git", "-C", REPO, "rev-parse", "HEAD"], capture_output=True, text=True).stdout.strip(), mutants=out),
              open(os.path.join(d, "t1_mutants.json"), "w"), indent=1)
    bad = [m for m in out if not m.get("detected")]
    print("%d mutants, %d not detected" % (len(out), len(bad)))
    return 1 if bad else 0


if __name__ == "__main__":
    sys.exit(run(set(sys.argv[1:])))
