#!/usr/bin/env python3
"""Run the repository's pinned suite (guard off) and compare with /root/.vp/BASELINE.json stable_pass."""
import json, os, subprocess, sys, tempfile, xml.etree.ElementTree as ET
base = json.load(open("/root/.vp/BASELINE.json"))
stable = set(base["stable_pass"])
out = tempfile.mktemp(suffix=".xml")
env = dict(os.environ); env.pop("DENDROPY_VERIF", None)
n = os.environ.get("BASELINE_JOBS", "8")
cmd = ["/venv/bin/python", "-m", "pytest", "-q", "-p", "no:cacheprovider", "--timeout=900", "--continue-on-collection-errors", "-n", n, "--junitxml=" + out]
subprocess.run(cmd, cwd="/repo", env=env, stdout=subprocess.DEVNULL, stderr=subprocess.DEVNULL)
passed = set()
for tc in ET.parse(out).getroot().iter("testcase"):
    if not list(tc):
        passed.add("%s::%s" % (tc.get("classname"), tc.get("name")))
os.remove(out)
missing = sorted(stable - passed)
print("stable_pass: %d, passed now: %d, stable tests not passing: %d" % (len(stable), len(passed), len(missing)))
for m in missing[:40]:
    print("  NOT PASSING:", m)
sys.exit(1 if missing else 0)
