#!/usr/bin/env python3
"""Confirm a seeded property-breaking change and run our check against it.
usage: seed_eval.py C16 1 [--skip-suite]
Works in the scratch worktree /tmp/mut/<P> (never in /repo): applies OUT/change<i>.diff, runs the demo
(must fail), the repository's stable suite (must still pass), and `./check <P>` with DPVC_REPO pointing
at the worktree; then reverts the worktree and stores everything under /verif/seeded/<P>-<i>/."""
import json, os, shutil, subprocess, sys, time, xml.etree.ElementTree as ET, tempfile

P, I = sys.argv[1], sys.argv[2]
skip_suite = "--skip-suite" in sys.argv
tier = "quick"
WT = os.path.join(os.environ.get("SEED_ROOT", "/tmp/mut"), P)
OUT = os.path.join(WT, "OUT")
diff = os.path.join(OUT, "change%s.diff" % I)
demo = os.path.join(OUT, "demo%s.py" % I)
notes = os.path.join(OUT, "notes%s.md" % I)

def sh(cmd, cwd=None, env=None, timeout=3600):
    r = subprocess.run(cmd, shell=True, cwd=cwd, env=env, capture_output=True, text=True, timeout=timeout)
    return r.returncode, (r.stdout + r.stderr)

def demo_run():
    env = dict(os.environ); env["PYTHONPATH"] = WT + "/src"
    return sh("/venv/bin/python %s" % demo, cwd=OUT, env=env, timeout=600)

def suite():
    base = json.load(open("/root/.vp/BASELINE.json")); stable = set(base["stable_pass"])
    out = tempfile.mktemp(suffix=".xml")
    env = dict(os.environ); env.pop("DENDROPY_VERIF", None); env.pop("PYTHONPATH", None)
    sh("/venv/bin/python -m pytest -q -p no:cacheprovider --timeout=900 --continue-on-collection-errors -n 5 --junitxml=%s" % out, cwd=WT, env=env)
    passed = set()
    for tc in ET.parse(out).getroot().iter("testcase"):
        if not list(tc):
            passed.add("%s::%s" % (tc.get("classname"), tc.get("name")))
    os.remove(out)
    return sorted(stable - passed)

meta = dict(property=P, change=int(I), worktree=WT, ran=[])
sh("git checkout -q -- .", cwd=WT)
head = sh("git -C /repo rev-parse HEAD")[1].strip()
sh("git checkout -q --detach %s" % head, cwd=WT)   # evaluate against the current (repaired) tree
meta["base_commit"] = head
rc0, o0 = demo_run()
meta["demo_on_unchanged"] = dict(exit=rc0, tail=o0[-300:])
rc, o = sh("git apply %s" % diff, cwd=WT)
if rc != 0:
    print("patch does not apply:", o); sys.exit(2)
try:
    rc1, o1 = demo_run()
    meta["demo_with_change"] = dict(exit=rc1, tail=o1[-600:])
    if not skip_suite:
        missing = suite()
        meta["stable_suite_not_passing_with_change"] = missing
    t0 = time.time()
    env = dict(os.environ); env["DPVC_REPO"] = WT
    rcq, oq = sh("./check %s --tier %s" % (P, tier), cwd="/verif", env=env, timeout=7200)
    meta["check"] = dict(cmd="DPVC_REPO=%s ./check %s --tier %s" % (WT, P, tier), exit=rcq, wall_s=round(time.time() - t0, 1),
                         violation_lines=[l for l in oq.splitlines() if l.startswith("VIOLATION")][:6],
                         failed=[l.strip() for l in oq.splitlines() if l.strip().startswith("failed:")][:6],
                         summary=[l for l in oq.splitlines() if l.startswith(P + " tier=")][-1:],
                         failing_monitors=[l.strip() for l in oq.splitlines() if " x " in l and l.startswith("   ")][:15])
finally:
    sh("git checkout -q -- .", cwd=WT)
valid = meta["demo_on_unchanged"]["exit"] == 0 and meta["demo_with_change"]["exit"] != 0 and not meta.get("stable_suite_not_passing_with_change")
meta["valid_seed"] = bool(valid)
meta["detected"] = meta["check"]["exit"] == 1
meta["needs_to_manifest"] = open(notes).read()[:1500] if os.path.exists(notes) else ""
d = "/verif/seeded/%s-%s" % (P, I)
os.makedirs(d, exist_ok=True)
shutil.copy(diff, os.path.join(d, "patch.diff"))
shutil.copy(demo, os.path.join(d, "demo.py"))
json.dump(meta, open(os.path.join(d, "meta.json"), "w"), indent=1)
print("%s-%s valid=%s detected=%s check_exit=%s wall=%ss" % (P, I, valid, meta["detected"], meta["check"]["exit"], meta["check"]["wall_s"]))
for l in meta["check"]["failed"][:3]:
    print("   ", l[:230])
