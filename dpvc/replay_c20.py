"""Native replay for C20 reader obligations: a failed progress / None-safety
obligation of reader function F is replayed by searching, over truncations and
token-level edits of a small corpus of valid documents, for an input on which
the REAL reader hangs inside F or leaves F with an exception outside the
DataParseError family."""
import io
import os
import signal
import sys
import traceback

CORPUS = [
    "#NEXUS\nBEGIN TAXA;\n  TITLE tx;\n  DIMENSIONS NTAX=3;\n  TAXLABELS A B C;\nEND;\n"
    "BEGIN CHARACTERS;\n  TITLE ch;\n  LINK TAXA = tx;\n  DIMENSIONS NCHAR=4;\n  FORMAT DATATYPE=DNA MISSING=? GAP=- ;\n  MATRIX\n A ACGT\n B AC-T\n C A?GT\n ;\nEND;\n"
    "BEGIN TREES;\n  TITLE tr;\n  LINK TAXA = tx;\n  TRANSLATE 1 A, 2 B, 3 C;\n  TREE t1 = [&R] ((1:1,2:1):1,3:2);\nEND;\n"
    "BEGIN SETS;\n  TITLE st;\n  LINK CHARACTERS = ch;\n  CHARSET c1 = 1-2;\n  CHARSET c2 = 3 4;\nEND;\n",
    "#NEXUS\nBEGIN DATA;\n DIMENSIONS NTAX=2 NCHAR=3;\n FORMAT DATATYPE=STANDARD SYMBOLS=\"01\" INTERLEAVE;\n MATRIX\n A 01\n B 10\n A 1\n B 0\n ;\nEND;\n",
    "#NEXUS\nBEGIN DATA;\n DIMENSIONS NTAX=2 NCHAR=2;\n FORMAT DATATYPE=CONTINUOUS;\n MATRIX\n A 0.1 2.5\n B 1 2\n ;\nEND;\nBEGIN FOO;\n bar baz;\nEND;\n",
    "#NEXUS\nBEGIN TREES;\n TREE a = (A,B,(C,D));\n TREE b = (A,(B,C),D);\nEND;\n",
    "#NEXUS\nBEGIN DATA;\n DIMENSIONS NTAX=2 NCHAR=3;\n FORMAT DATATYPE=DNA EQUATE=\"X=A\" MATCHCHAR=. ;\n MATRIX\n A A{CG}T\n B .(AC).\n ;\nEND;\n",
]

NEWICK_CORPUS = ["((A:1,B:2)x:0.5,(C:1,D:1):1)r:0;\n(A,(B,(C,D)));\n", "[&R] ((A,B),,(C,));[c] (A:1e-2,'b c':2)[&x=1]:3;", "A;(B);((C));;;(A,B)"]

TOKENS = [";", "BEGIN", "END", "TITLE", "LINK", "TAXA", "=", "FOO", ",", "(", ")", "'", "[", "1", "\"", "{", "-"]


def _candidates():
    seen = set()
    for doc in CORPUS:
        # every truncation at a token boundary (and a few mid-token)
        for i in range(len(doc) + 1):
            if i == len(doc) or doc[i] in " \n;=,()" or i % 7 == 0:
                t = doc[:i]
                if t not in seen:
                    seen.add(t)
                    yield ("truncate@%d" % i, t)
        # token-level edits: delete / replace / insert one token
        import re
        spans = [(m.start(), m.end()) for m in re.finditer(r"[^\s;=,()]+|[;=,()]", doc)]
        for (a, b) in spans:
            t = doc[:a] + doc[b:]
            if t not in seen:
                seen.add(t)
                yield ("delete@%d" % a, t)
            for tok in TOKENS:
                t = doc[:a] + tok + doc[b:]
                if t not in seen:
                    seen.add(t)
                    yield ("replace@%d:%s" % (a, tok), t)
                t = doc[:a] + tok + " " + doc[a:]
                if t not in seen:
                    seen.add(t)
                    yield ("insert@%d:%s" % (a, tok), t)
    for t in ["", " ", "#NEXUS", "#NEXUS\n", "x", "#NEXUS BEGIN", "#NEXUS\nBEGIN TAXA", "#NEXUS\nBEGIN TREES;\nTREE", "#NEXUS\nBEGIN TAXA;\nTAXLABELS"]:
        if t not in seen:
            seen.add(t)
            yield ("literal", t)
    # the NEXUS one-tree-at-a-time iterator: degenerate sources and every truncation of the trees-only document
    for t in ["", " ", "[c]", "#NEXUS", "#NEXUS\n", "x", "(A,B);"] + [CORPUS[3][:i] for i in range(len(CORPUS[3]) + 1)]:
        yield ("nexus-yield|literal", t)
    # NEWICK sources, through the reader, the reader without a required final semicolon, and the one-tree-at-a-time iterator
    nseen = set()
    for doc in NEWICK_CORPUS:
        texts = [("truncate@%d" % i, doc[:i]) for i in range(len(doc) + 1)]
        for i in range(len(doc)):
            texts.append(("delete@%d" % i, doc[:i] + doc[i + 1:]))
            for tok in ("(", ")", ",", ":", ";", "[", "'"):
                texts.append(("insert@%d:%s" % (i, tok), doc[:i] + tok + doc[i:]))
        for how, t in texts:
            if t in nseen:
                continue
            nseen.add(t)
            for route in ("newick", "newick-nosemi", "newick-yield"):
                yield ("%s|%s" % (route, how), t)


class _Hang(Exception):
    pass


def _read(text, route):
    import dendropy
    if route == "nexus":
        dendropy.DataSet.get(data=text, schema="nexus")
    elif route == "newick":
        dendropy.TreeList.get(data=text, schema="newick")
    elif route == "newick-nosemi":
        dendropy.TreeList.get(data=text, schema="newick", terminating_semicolon_required=False)
    elif route == "nexus-yield":
        for t in dendropy.Tree.yield_from_files(files=[io.StringIO(text)], schema="nexus"):
            pass
    elif route == "newick-yield":
        for t in dendropy.Tree.yield_from_files(files=[io.StringIO(text)], schema="newick"):
            pass
    else:
        raise ValueError(route)


def run_reader(text, limit=2.0, route="nexus"):
    """returns (kind, detail, frames): kind in ok | parse-error | hang | internal-error"""
    import dendropy
    from dendropy.utility import error as dperr

    def handler(signum, frame):
        raise _Hang()

    old = signal.signal(signal.SIGALRM, handler)
    signal.setitimer(signal.ITIMER_REAL, limit)
    try:
        try:
            _read(text, route)
            return "ok", None, []
        finally:
            signal.setitimer(signal.ITIMER_REAL, 0)
    except _Hang:
        tb = traceback.extract_tb(sys.exc_info()[2])
        return "hang", "no result after %.1fs" % limit, [[f.name, f.lineno] for f in tb]
    except dperr.DataParseError as e:
        return "parse-error", type(e).__name__, []
    except ValueError as e:
        tb = traceback.extract_tb(sys.exc_info()[2])
        # the documented value error for a source with no data
        if "No data" in str(e) or "no data" in str(e):
            return "parse-error", "ValueError(no data)", []
        return "internal-error", "%s: %s" % (type(e).__name__, e), [[f.name, f.lineno] for f in tb]
    except RecursionError as e:
        return "internal-error", "RecursionError", [["?", 0]]
    except Exception as e:
        tb = traceback.extract_tb(sys.exc_info()[2])
        return "internal-error", "%s: %s" % (type(e).__name__, e), [[f.name, f.lineno] for f in tb]
    finally:
        signal.signal(signal.SIGALRM, old)


_CACHE = {}


def _work(item):
    how, text = item
    route = how.split("|")[0] if "|" in how else "nexus"
    kind, detail, frames = run_reader(text, 1.5, route)
    if kind in ("hang", "internal-error"):
        return [how, text, kind, detail, frames]
    return None


def failing_inputs():
    """all corpus candidates on which the real NEXUS reader misbehaves: list of (how, text, kind, detail, frames)"""
    if "fi" in _CACHE:
        return _CACHE["fi"]
    from bounded.common import pmap
    cands = list(_candidates())

    # in blocks: a change that makes most inputs hang would otherwise cost the guard time once per candidate; 64 failing inputs are
    # more than enough to find one inside the function whose obligation failed (shortest candidates first within a block)
    res, done = [], 0
    for i in range(0, len(cands), 768):
        blk = cands[i:i + 768]
        res.extend(r for r in pmap(_work, blk, chunksize=16) if r)
        done += len(blk)
        if len(res) >= 64:
            break
    _CACHE["fi"] = res
    _CACHE["n"] = done
    return res


def replay_reader(ctx, suite, c, ob, witness, bv_widths):
    fname = c.name.split(".")[-1]
    want_hang = ob.kind == "termination" or "progress" in ob.name
    hits = []
    for how, text, kind, detail, frames in failing_inputs():
        names = [f[0] for f in frames]
        if fname not in names:
            continue
        if want_hang and kind != "hang":
            continue
        if not want_hang and kind != "internal-error":
            continue
        # the innermost reader frame must be this function (or the tokenizer below it)
        inner = [f for f in frames if f[0].startswith("_parse") or f[0].startswith("_read") or f[0].startswith("_process") or f[0].startswith("_consume")
                 or f[0] in ("skip_to_semicolon", "tree_iter", "_yield_items_from_stream", "_yield_from_trees_block",
                             "__next__", "_handle_comment", "_skip_to_significant_char", "next_token", "require_next_token")]
        if inner and inner[-1][0] != fname:
            continue
        if not want_hang and ob.lineno and inner and inner[-1][1] != ob.lineno:
            continue
        hits.append((len(text), how, text, kind, detail))
    ctx.note("C20 replay corpus: %d candidate texts" % _CACHE.get("n", 0))
    if hits:
        hits.sort()
        _, how, text, kind, detail = hits[0]
        ctx.obligation(ob.name, "refuted", "z3+native-replay", ob.time_s, c.target, detail="%s on %r" % (kind, text[-60:]))
        route = how.split("|")[0] if "|" in how else "nexus"
        ctx.fail(ob.name, dict(key="%s|%s|%s" % (route, kind, text), text=text, route=route, found_by=how, outcome=kind, detail=detail, function=c.target),
                 detail="real %s reader: %s (%s) in %s on input ending %r" % (route, kind, detail, fname, text[-50:]), kind="T1")
        return True
    st = ob.status
    ctx.obligation(ob.name, st, "z3", ob.time_s, c.target, detail=ob.detail or "no native witness in the replay corpus")
    if st == "refuted":
        ctx.fail(ob.name, dict(key="obligation:%s" % ob.name, solver_output="sat (lenient abstraction)", model=str(witness)),
                 detail="obligation refuted under the lenient abstraction; no failing input found in the replay corpus", kind="T1", no_input=True)
    else:
        ctx.undecided_ob(ob.name, ob.detail)
    return True


def replay_record(ctx, rec):
    w = rec.get("witness", {})
    text = w.get("text")
    if text is None:
        print("no input recorded for this obligation (no-failing-input-found)")
        return True
    kind, detail, frames = run_reader(text, 3.0, w.get("route", "nexus"))
    print("%s input %r -> %s %s" % (w.get("route", "nexus"), text[-80:], kind, detail or ""))
    return kind in ("ok", "parse-error")
