"""AST front end: re-reads the real source files under /repo/src on every run,
finds the FunctionDef a contract is anchored to, resolves `X = property(g, s)`
assignments, and reports exactly what the extraction drops."""
import ast
import os

from .ctx import SRC

_CACHE = {}


class SourceModule(object):
    def __init__(self, modname):
        self.modname = modname
        rel = modname.replace(".", os.sep)
        p = os.path.join(SRC, rel + ".py")
        if not os.path.exists(p):
            p = os.path.join(SRC, rel, "__init__.py")
        self.path = p
        with open(p, encoding="utf8") as f:
            self.text = f.read()
        self.tree = ast.parse(self.text, p)
        self.classes = {}
        self.functions = {}
        self.imports = {}  # local name -> dotted module / object
        for node in self.tree.body:
            if isinstance(node, ast.ClassDef):
                self.classes[node.name] = ClassInfo(self, node)
            elif isinstance(node, ast.FunctionDef):
                self.functions[node.name] = node
            elif isinstance(node, ast.Import):
                for a in node.names:
                    self.imports[a.asname or a.name.split(".")[0]] = a.name
            elif isinstance(node, ast.ImportFrom):
                for a in node.names:
                    self.imports[a.asname or a.name] = (node.module or "") + "." + a.name


class ClassInfo(object):
    def __init__(self, mod, node):
        self.mod = mod
        self.node = node
        self.name = node.name
        self.methods = {}
        self.properties = {}  # name -> (getter name or None, setter name or None)
        self.static = set()
        self.classm = set()
        self.bases = [ast.unparse(b) for b in node.bases]
        for st in node.body:
            if isinstance(st, ast.FunctionDef):
                self.methods[st.name] = st
                for d in st.decorator_list:
                    dn = ast.unparse(d)
                    if dn == "staticmethod":
                        self.static.add(st.name)
                    elif dn == "classmethod":
                        self.classm.add(st.name)
                    elif dn == "property":
                        self.properties[st.name] = (st.name, None)
            elif isinstance(st, ast.Assign) and isinstance(st.value, ast.Call) and ast.unparse(st.value.func) == "property":
                args = [ast.unparse(a) for a in st.value.args]
                g = args[0] if len(args) > 0 and args[0] != "None" else None
                s = args[1] if len(args) > 1 and args[1] != "None" else None
                for t in st.targets:
                    if isinstance(t, ast.Name):
                        self.properties[t.id] = (g, s)


def module(modname):
    if modname not in _CACHE:
        _CACHE[modname] = SourceModule(modname)
    return _CACHE[modname]


def reset():
    _CACHE.clear()


def resolve(target):
    """'pkg.mod:Class.method' or 'pkg.mod:function' -> (SourceModule, ClassInfo|None, FunctionDef)"""
    modname, _, qual = target.partition(":")
    m = module(modname)
    parts = qual.split(".")
    if len(parts) == 1:
        if parts[0] not in m.functions:
            raise KeyError("function %s not found in %s" % (parts[0], m.path))
        return m, None, m.functions[parts[0]]
    cls = m.classes.get(parts[0])
    if cls is None or parts[1] not in cls.methods:
        raise KeyError("%s not found in %s" % (qual, m.path))
    return m, cls, cls.methods[parts[1]]


def strip_docstring(fn):
    body = list(fn.body)
    dropped = []
    if body and isinstance(body[0], ast.Expr) and isinstance(getattr(body[0], "value", None), ast.Constant) and isinstance(body[0].value.value, str):
        dropped.append("docstring@%d" % body[0].lineno)
        body = body[1:]
    return body, dropped


NOOP_CALL_PREFIXES = ("deprecate.", "warnings.warn", "_LOG.", "logging.")


def is_dropped_stmt(st):
    """Statements the extraction drops (listed in evidence): deprecation / warning / logger calls."""
    if isinstance(st, ast.Expr) and isinstance(st.value, ast.Call):
        fn = ast.unparse(st.value.func)
        return fn.startswith(NOOP_CALL_PREFIXES)
    return False


def loops_in(fn):
    """While/For statements of a function in source order (the loop ordinal of sidecar contracts)."""
    out = []

    class V(ast.NodeVisitor):
        def visit_FunctionDef(self, node):
            if node is fn:
                self.generic_visit(node)

        def visit_Lambda(self, node):
            pass

        def visit_While(self, node):
            out.append(node)
            self.generic_visit(node)

        def visit_For(self, node):
            out.append(node)
            self.generic_visit(node)

    V().visit(fn)
    return out


def source_segment(mod, node):
    return ast.get_source_segment(mod.text, node)
