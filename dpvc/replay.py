"""Native replay of counterexamples: the verifier's model (or a bit-vector /
small-scope re-search of the same obligation) is turned into real Python values,
the REAL function is called, and the contract's clauses are evaluated natively
(spec built-ins implemented over Python ints)."""
import ast
import importlib
import itertools

import z3

from . import frontend
from .symexec import Unsupported, parse_type
from .theories import BVBits


# ----------------------------------------------------------------------------- concrete spec built-ins
def _low(x):
    if x == 0:
        return None
    k = 0
    while not (x >> k) & 1:
        k += 1
    return k


class _Spec(dict):
    pass


def _card_le1(x):
    # sets of naturals: x >= 0 finite; negative = infinite set
    return x >= 0 and (x & (x - 1)) == 0


class _Absent(object):
    """value of get(d, k) for a key outside d: equal only to itself"""

    def __repr__(self):
        return "<absent>"


_ABSENT = _Absent()

CONC = {
    "subset": lambda a, b: (a & b) == a,
    "disjoint": lambda a, b: (a & b) == 0,
    "inter": lambda a, b: a & b,
    "union": lambda a, b: a | b,
    "diff": lambda a, b: a & ~b,
    "empty": lambda a: a == 0,
    "card_le1": _card_le1,
    "low": _low,
    "lowbit": lambda a: (1 << _low(a)) if a != 0 else 0,
    "singleton": lambda k: 1 << k,
    "bit": lambda a, k: bool((a >> k) & 1),
    "wf": lambda a: True,
    "implies": lambda a, b: (not a) or bool(b),
    "iff": lambda a, b: bool(a) == bool(b),
    "ite": lambda c, a, b: a if c else b,
    "isnone": lambda a: a is None,
    "truthy": lambda a: bool(a),
    "eq": lambda a, b: a == b,
    "has": lambda d, k: k in d,
    "get": lambda d, k: (dict.__getitem__(d, k) if k in d else _ABSENT),  # never inserts (defaultdict)
    "len": len,
    "True": True, "False": False, "None": None,
}


def _forall_int(f, lo=-2, hi=12):
    return all(f(i) for i in range(lo, hi))


class _LazyImplies(ast.NodeTransformer):
    """implies(a, b) / ite(c, a, b) must not evaluate the guarded operand eagerly"""

    def visit_Call(self, node):
        self.generic_visit(node)
        if isinstance(node.func, ast.Name) and node.func.id == "implies" and len(node.args) == 2:
            return ast.BoolOp(op=ast.Or(), values=[ast.UnaryOp(op=ast.Not(), operand=node.args[0]), node.args[1]])
        if isinstance(node.func, ast.Name) and node.func.id == "ite" and len(node.args) == 3:
            return ast.IfExp(test=node.args[0], body=node.args[1], orelse=node.args[2])
        return node


_REL = ("list_same", "list_minus", "list_plus", "list_insert", "order_kept")


class _OldRewriter(ast.NodeTransformer):
    """old(e) reads the PRE-STATE heap: inside old(...) every attribute load `x.a` becomes
    __oget(x, 'a'), which looks `a` up in the snapshot taken of x before the call (containers
    copied), while object identities stay those of the real objects.
    List relations name a list by an expression whose owner is evaluated in the pre-state:
        list_minus(OWNER.attr, x)  ->  __list_minus(getattr(old(OWNER), 'attr'), old(OWNER.attr), x)"""

    def __init__(self):
        self.in_old = 0

    def visit_Call(self, node):
        if isinstance(node.func, ast.Name) and node.func.id == "old" and len(node.args) == 1:
            self.in_old += 1
            inner = self.visit(node.args[0])
            self.in_old -= 1
            return inner
        if isinstance(node.func, ast.Name) and node.func.id in _REL and not self.in_old:
            L = node.args[0]
            cur, oldv = self._cur_and_old(L)
            rest = [self.visit(a) for a in node.args[1:]]
            return ast.Call(func=ast.Name(id="__" + node.func.id, ctx=ast.Load()), args=[cur, oldv] + rest, keywords=[])
        if isinstance(node.func, ast.Name) and node.func.id in ("lists_frame",) and not self.in_old:
            owners = []
            for a in node.args[1:]:
                if isinstance(a, ast.Attribute):
                    self.in_old += 1
                    owners.append(self.visit(a.value))
                    self.in_old -= 1
            attr = node.args[1].attr if len(node.args) > 1 and isinstance(node.args[1], ast.Attribute) else "_child_nodes"
            return ast.Call(func=ast.Name(id="__lists_frame", ctx=ast.Load()),
                            args=[node.args[0], ast.Constant(value=attr), ast.List(elts=owners, ctx=ast.Load())], keywords=[])
        if isinstance(node.func, ast.Name) and node.func.id == "pos_frame":
            return ast.Constant(value=True)
        self.generic_visit(node)
        return node

    def _cur_and_old(self, L):
        if not isinstance(L, ast.Attribute):
            raise ValueError("list relation on a non-field list")
        self.in_old += 1
        owner_old = self.visit(L.value)
        self.in_old -= 1
        import copy as _c
        cur = ast.Call(func=ast.Name(id="__cget", ctx=ast.Load()), args=[owner_old, ast.Constant(value=L.attr)], keywords=[])
        self.in_old += 1
        owner_old2 = self.visit(_c.deepcopy(L.value))
        self.in_old -= 1
        oldv = ast.Call(func=ast.Name(id="__oget", ctx=ast.Load()), args=[owner_old2, ast.Constant(value=L.attr)], keywords=[])
        return cur, oldv

    def visit_Attribute(self, node):
        self.generic_visit(node)
        if self.in_old and isinstance(node.ctx, ast.Load):
            return ast.Call(func=ast.Name(id="__oget", ctx=ast.Load()), args=[node.value, ast.Constant(value=node.attr)], keywords=[])
        return node


def compile_spec(text, obj_names=None):
    tree = ast.parse(text.strip(), mode="eval")
    tree = _OldRewriter().visit(tree)
    tree = _LazyImplies().visit(tree)
    ast.fix_missing_locations(tree)
    return compile(tree, "<spec>", "eval"), []


def real_function(target):
    modname, _, qual = target.partition(":")
    mod = importlib.import_module(modname)
    obj = mod
    for p in qual.split("."):
        obj = getattr(obj, p)
    return obj


class _Snap(object):
    pass


def _is_model_obj(v):
    return getattr(v, "__dict__", None) is not None and type(v).__module__.startswith("dendropy")


def take_snapshots(roots, cap=5000):
    """pre-state snapshots (attribute dict with containers copied) of every dendropy object reachable
    from the roots through attributes and containers"""
    snaps = {}
    todo = list(roots)
    while todo and len(snaps) < cap:
        o = todo.pop()
        if not _is_model_obj(o) or id(o) in snaps:
            continue
        sn = _Snap()
        snaps[id(o)] = (o, sn)
        for k, v in list(o.__dict__.items()):
            if isinstance(v, (dict, list, set)):
                cv = dict(v) if isinstance(v, dict) else (list(v) if isinstance(v, list) else set(v))
                it = list(v.keys()) + list(v.values()) if isinstance(v, dict) else list(v)
                todo.extend(x for x in it if _is_model_obj(x))
            else:
                cv = v
                if _is_model_obj(v):
                    todo.append(v)
            sn.__dict__[k] = cv
    return snaps


def _native_env(snaps, universe):
    def oget(obj, attr):
        if obj is None:
            raise AttributeError("None.%s" % attr)
        e = snaps.get(id(obj))
        if e is not None and attr in e[1].__dict__:
            return e[1].__dict__[attr]
        return getattr(obj, attr)

    def cget(obj, attr):
        return getattr(obj, attr)

    def ids(L):
        return [id(x) for x in L]

    def list_same(cur, old):
        return ids(cur) == ids(old)

    def list_minus(cur, old, x):
        o = list(old)
        k = [i for i, e in enumerate(o) if e is x]
        if not k:
            return False
        del o[k[0]]
        return ids(cur) == ids(o)

    def list_plus(cur, old, x):
        return ids(cur) == ids(list(old) + [x])

    def list_insert(cur, old, i, x):
        o = list(old)
        o.insert(i, x)
        return ids(cur) == ids(o)

    def order_kept(cur, old, x):
        c = [id(e) for e in cur if e is not x]
        o = [id(e) for e in old if e is not x]
        common = set(c) & set(o)
        return [e for e in c if e in common] == [e for e in o if e in common]

    def lists_frame(cls, attr, owners):
        for n in universe.get(cls, []):
            if any(n is o for o in owners):
                continue
            e = snaps.get(id(n))
            if e is None:
                continue
            if ids(getattr(n, attr)) != ids(e[1].__dict__.get(attr, [])):
                return False
        return True

    return {
        "__oget": oget, "__cget": cget, "__list_same": list_same, "__list_minus": list_minus, "__list_plus": list_plus,
        "__list_insert": list_insert, "__order_kept": order_kept, "__lists_frame": lists_frame,
        "isin": lambda x, L: any(e is x for e in L),
        "at": lambda L, k: (L[k] if 0 <= k < len(L) else _NOTHING),
        "length": lambda L: len(L),
        "listinv": lambda L: all(e is not None for e in L) and len(set(id(e) for e in L)) == len(L),
        "same_list": lambda a, b: ids(a) == ids(b),
    }


_NOTHING = _Snap()


def _g(env):
    """spec expressions are evaluated with env as GLOBALS (names inside forall-lambdas resolve there)"""
    g = dict(env)
    g["__builtins__"] = {}
    return g


NATIVE_CALL_LIMIT = 10


def native_check(c, kwargs, extra_env=None, universe=None):
    """call the real function on kwargs; returns (failed clause names, outcome description).
    The precondition is checked first: inputs outside it return None.
    Object arguments are snapshotted so that old(...) reads the pre-state; `universe`
    (class name -> list of objects) gives forall_ref its finite range."""
    env = dict(CONC)
    env.update(kwargs)
    if extra_env:
        env.update(extra_env)
    uni = universe or {}
    env["forall_ref"] = lambda cls, f: all(f(x) for x in uni.get(cls, []))
    env["forall_int"] = _forall_int
    env["exists_int"] = lambda f: any(f(i) for i in range(-2, 12))
    roots = [v for v in kwargs.values() if _is_model_obj(v)]
    for lst in uni.values():
        roots.extend(lst)
    snaps = take_snapshots(roots)
    env.update(_native_env(snaps, uni))
    on = None
    try:
        pre_code, _ = compile_spec(c.requires, on)
        if not eval(pre_code, _g(env)):
            return None, "outside requires"
    except Exception as e:
        return None, "requires not evaluable natively: %r" % (e,)
    specs = []
    for nm, ens in c.ensures_items():
        code, olds = compile_spec(ens, on)
        oldvals = {}
        for i, oc in enumerate(olds):
            oldvals["__old%d" % i] = eval(oc, _g(env))
        specs.append((nm, code, oldvals))
    raise_conds = {}
    for exc, cond in c.raises.items():
        code, _ = compile_spec(cond, on)
        raise_conds[exc] = bool(eval(code, _g(env)))
    fn = real_function(c.target)
    failed = []
    try:
        # the real function runs under a CPU-time guard: a change that makes it loop must not hang the checker
        from bounded.common import time_limit, Timeout
        try:
            with time_limit(NATIVE_CALL_LIMIT):
                result = fn(**kwargs)
        except Timeout:
            return ["does not return (no result within %d s of CPU time)" % NATIVE_CALL_LIMIT], "did not return"
        raised = None
    except Exception as e:  # noqa
        raised = e
        result = None
    if raised is not None:
        en = type(raised).__name__
        if isinstance(raised, AttributeError) and "has no attribute" in str(raised) and any(
                getattr(v, "__dict__", None) is not None and type(v).__module__.startswith("dendropy") for v in kwargs.values()):
            # the harness built the receiver with __new__ and only the modelled attributes: an
            # attribute outside the model is missing -- not a replay of the obligation
            return None, "not replayable natively (object outside the modelled attributes: %s)" % raised
        if not raise_conds.get(en, False) and en not in c.allowed_raises and "*" not in c.allowed_raises:
            failed.append("raised %s: %s" % (en, raised))
        return failed, "raised %r" % (raised,)
    for exc, must in raise_conds.items():
        if must:
            failed.append("did not raise %s" % exc)
    for nm, code, oldvals in specs:
        e2 = dict(env)
        e2.update(oldvals)
        e2["result"] = result
        try:
            ok = eval(code, _g(e2))
        except AttributeError as e:
            if ".g_" in str(e) or "'g_" in str(e):
                # a clause about GHOST state (no such attribute on the real objects): it cannot be judged natively and is left out --
                # it must not be mistaken for a clause that fails
                continue
            ok = False
            nm = "%s (spec evaluation raised %r)" % (nm, e)
        except Exception as e:
            ok = False
            nm = "%s (spec evaluation raised %r)" % (nm, e)
        if not ok:
            failed.append(nm)
    return failed, "returned %r" % (result,)


def _scalar_only(c):
    for p, ty in c.types.items():
        if p == "return":
            continue
        f = parse_type(ty)
        if f.kind not in ("int", "bool", "bits", "real"):
            return False
    return True


def _small_values(f):
    if f.kind == "bits":
        vals = list(range(0, 16)) + [-1, -2, -8, 23, 32, 255]
    elif f.kind == "int":
        vals = list(range(-2, 6))
    elif f.kind == "bool":
        vals = [False, True]
    elif f.kind == "real":
        vals = [0.0, 0.5, 1.0, 2.0, -1.0]
    else:
        vals = [None]
    if f.opt:
        vals = [None] + vals
    return vals


def replay_scalar(ctx, suite, c, ob, witness, bv_widths):
    """replay for functions over scalar arguments (theory A).  Returns True if handled."""
    from .verify import gen_obligations, solve, model_inputs

    if not _scalar_only(c):
        return False
    tried = []

    def attempt(kwargs, how):
        failed, outcome = native_check(c, kwargs)
        tried.append((how, kwargs, failed))
        if failed:
            ctx.obligation(ob.name, "refuted", "z3+native-replay", ob.time_s, c.target, detail="%s -> %s" % (kwargs, outcome))
            ctx.fail(ob.name, dict(key="%s(%s)" % (c.name, ", ".join("%s=%r" % kv for kv in sorted(kwargs.items()))),
                                    function=c.target, kwargs=kwargs, failed_clauses=failed, outcome=outcome, found_by=how),
                     detail="%s(%s) %s; failed: %s" % (c.name, kwargs, outcome, failed), kind="T1")
            return True
        return False

    if witness is not None and all(v is not None or parse_type(c.types[p]).opt for p, v in witness.items()):
        if attempt(witness, "z3 model"):
            return True
    # same obligation over bit-vectors of small widths (any finite counterexample fits some width)
    for w in bv_widths:
        try:
            ex2, inputs2, obs2 = gen_obligations(suite, c, bits=BVBits(w))
        except Unsupported:
            break
        for o2 in obs2:
            if o2.name != ob.name:
                continue
            if solve(ex2, o2, 5000) == "refuted":
                kw = model_inputs(ex2, inputs2, o2.model)
                if attempt(kw, "bit-vector width %d model" % w):
                    return True
    # small-scope native enumeration with the contract as oracle
    m, ci, fn = frontend.resolve(c.target)
    params = [p for p in c.types if p != "return"]
    spaces = [_small_values(parse_type(c.types[p])) for p in params]
    total = 1
    for s in spaces:
        total *= len(s)
    if total <= 400000:
        for combo in itertools.product(*spaces):
            kw = dict(zip(params, combo))
            failed, outcome = native_check(c, kw)
            if failed:
                return attempt(kw, "small-scope enumeration")
    # no native witness
    status = ob.status
    ctx.obligation(ob.name, status, "z3", ob.time_s, c.target, detail="no native counterexample among %d tries" % len(tried))
    if status == "refuted":
        ctx.fail(ob.name, dict(key="obligation:%s" % ob.name, model=witness, solver_output="sat", tried=len(tried)),
                 detail="obligation refuted by z3 (model %s) but no failing native input found" % (witness,), kind="T1", no_input=True)
    else:
        ctx.undecided_ob(ob.name, ob.detail)
    return True


# ----------------------------------------------------------------------------- receivers and other object arguments
def _class_object(suite, cls):
    for mn in suite.class_sources:
        mod = importlib.import_module(mn)
        if hasattr(mod, cls):
            return getattr(mod, cls)
    raise KeyError(cls)


def _fields_of(ex, cls):
    out = []
    mro = ex._mro(cls)
    for key, f in ex.schema.items():
        c, _, attr = key.partition(".")
        if c in mro and not f.ghost:
            out.append((key, attr, f))
    return out


def build_inputs(suite, ex, inputs, model):
    """turn a model into real call arguments: scalars as Python values, object arguments as
    real instances (created with __new__, attributes set from the model's initial heap)."""
    from .verify import model_inputs

    kw = model_inputs(ex, inputs, model)
    objs = {}
    desc = {}
    for p, (f, v) in inputs.items():
        if f.kind != "ref":
            continue
        rv = model.eval(v.t, model_completion=True)
        if f.opt and z3.is_true(model.eval(v.t == z3.Const("None", v.t.sort()), model_completion=True)):
            kw[p] = None
            continue
        k = str(rv)
        if k not in objs:
            C = _class_object(suite, f.cls)
            o = C.__new__(C)
            d = {}
            for key, attr, fld in _fields_of(ex, f.cls):
                arr, na = ex.heap_arrays(ex.entry_state, key, fld)  # initial-heap constants H0_<key>
                if na is not None and z3.is_true(model.eval(z3.Select(na, v.t), model_completion=True)):
                    val = None
                else:
                    t = z3.Select(arr, v.t)
                    if fld.kind == "bits":
                        val = ex.bits.to_py(model, t)
                    elif fld.kind == "int":
                        val = model.eval(t, model_completion=True).as_long()
                    elif fld.kind == "bool":
                        val = z3.is_true(model.eval(t, model_completion=True))
                    elif fld.kind == "real":
                        val = float(model.eval(t, model_completion=True).as_fraction())
                    elif fld.kind == "str":
                        val = _str_of(ex, model.eval(t, model_completion=True).as_long())
                    else:
                        continue
                setattr(o, attr, val)
                d[attr] = val
            objs[k] = o
            desc[p] = d
        else:
            desc[p] = "same object as an earlier argument"
        kw[p] = objs[k]
    return kw, desc


def _str_of(ex, k):
    for lit, i in ex.str_ids.items():
        if i == k:
            return lit
    return "tok%d" % k


def replay_generic(ctx, suite, c, ob, witness, bv_widths):
    """replay for functions whose arguments are scalars and schema objects."""
    from .verify import gen_obligations, solve

    has_obj = False
    m, ci, fn = frontend.resolve(c.target)
    for w in bv_widths:
        try:
            ex2, inputs2, obs2 = gen_obligations(suite, c, bits=BVBits(w))
        except Unsupported:
            return False
        for o2 in obs2:
            if o2.name != ob.name:
                continue
            # several models: block the previous one on the scalar inputs
            s = z3.Solver()
            s.set("timeout", 5000)
            for a in ex2.all_axioms():
                s.add(a)
            s.add(*o2.pc)
            s.add(z3.Not(o2.goal))
            for attempt in range(4):
                if s.check() != z3.sat:
                    break
                model = s.model()
                try:
                    kw, desc = build_inputs(suite, ex2, inputs2, model)
                except Exception as e:  # model not buildable
                    ctx.note("replay: could not build inputs for %s: %r" % (ob.name, e))
                    break
                show = dict((k, (desc[k] if k in desc else v)) for k, v in kw.items())
                failed, outcome = native_check(c, kw)
                if failed:
                    ctx.obligation(ob.name, "refuted", "z3+native-replay", ob.time_s, c.target, detail="%s -> %s" % (show, outcome))
                    ctx.fail(ob.name, dict(key="%s(%s)" % (c.name, sorted(show.items())), function=c.target, inputs=show,
                                            failed_clauses=failed, outcome=outcome, found_by="bit-vector width %d model" % w),
                             detail="%s(%s) %s; failed: %s" % (c.name, show, outcome, failed), kind="T1")
                    return True
                # block this model's scalar/attribute values and retry
                blk = []
                for d in model.decls():
                    if d.arity() == 0 and not z3.is_array(model[d]):
                        blk.append(d() != model[d])
                if not blk:
                    break
                s.add(z3.Or(*blk))
    status = ob.status
    ctx.obligation(ob.name, status, "z3", ob.time_s, c.target, detail=ob.detail or "no native counterexample found")
    if status == "refuted":
        ctx.fail(ob.name, dict(key="obligation:%s" % ob.name, model=witness, solver_output="sat"),
                 detail="obligation refuted by z3 but no failing native input found", kind="T1", no_input=True)
    else:
        ctx.undecided_ob(ob.name, ob.detail)
    return True


def replay_any(ctx, suite, c, ob, witness, bv_widths):
    if _scalar_only(c) and not _has_self(c):
        return replay_scalar(ctx, suite, c, ob, witness, bv_widths)
    return replay_generic(ctx, suite, c, ob, witness, bv_widths)


def _has_self(c):
    m, ci, fn = frontend.resolve(c.target)
    return ci is not None and fn.name not in ci.static


def replay_by_search(states):
    """replay hook factory: `states(c)` yields (kwargs, universe, description) of REAL objects in
    reachable states; the real method is called under the natively evaluated contract."""

    def hook(ctx, suite, c, ob, witness, bv_widths):
        label = None
        if ".ensures[" in ob.name:
            label = ob.name.split(".ensures[", 1)[1].split("]", 1)[0]
        first_any = None
        n = 0
        n_uneval = 0
        why_uneval = None
        for kw, uni, desc in states(c):
            n += 1
            failed, outcome = native_check(c, kw, universe=uni)
            if failed is None and "not evaluable" in str(outcome):
                n_uneval += 1
                why_uneval = outcome
            if not failed:
                continue
            hit = (label is None) or any(f == label or f.startswith(label + " ") for f in failed)
            if hit or first_any is None:
                rec = (desc, failed, outcome)
                if hit:
                    first_any = rec
                    break
                first_any = rec
        if first_any is not None:
            desc, failed, outcome = first_any
            ctx.obligation(ob.name, "refuted", "z3+native-replay", ob.time_s, c.target, detail="%s -> %s" % (desc, outcome))
            ctx.fail(ob.name, dict(key="%s|%s" % (c.name, desc), function=c.target, state=desc, failed_clauses=failed, outcome=outcome,
                                    found_by="native small-scope search over %d reachable states" % n),
                     detail="%s on %s: %s; failed clauses: %s" % (c.name, desc, outcome, failed), kind="T1")
            return True
        if n and n_uneval == n:
            ctx.checker_failure("native contract monitor could not evaluate the requires of %s on any state: %s" % (c.name, why_uneval))
        st = ob.status
        ctx.obligation(ob.name, st, "z3", ob.time_s, c.target, detail=(ob.detail or "") + " no native witness among %d states" % n)
        if st == "refuted":
            ctx.fail(ob.name, dict(key="obligation:%s" % ob.name, solver_output="sat", model=str(witness)),
                     detail="obligation refuted by z3; no failing input among %d reachable states" % n, kind="T1", no_input=True)
        else:
            ctx.undecided_ob(ob.name, ob.detail)
        return True

    return hook


def validate_contracts_natively(ctx, contracts, states, scope, rule, limit=None):
    """Bounded stand-in for the same contracts: every contract is installed as a run-time monitor
    (natively evaluated requires/ensures/raises) around the REAL function over a set of reachable
    states.  Counted as bounded evaluations, never as proof."""
    ctx.scope(scope, rule=rule, exhaustive=limit is None)
    for c in contracts:
        if c.assumed:
            continue
        n = 0
        uneval = 0
        for kw, uni, desc in states(c):
            n += 1
            if limit is not None and n > limit:
                break
            failed, outcome = native_check(c, kw, universe=uni)
            if failed is None:
                if "not evaluable" in str(outcome):
                    uneval += 1
                continue
            ctx.case(scope, desc, nontrivial=True, sample=desc)
            if failed:
                ctx.fail("%s.monitor[%s]" % (c.name, failed[0][:60]), dict(key="%s|%s" % (c.name, desc), function=c.target, state=desc,
                                                                             failed_clauses=failed, outcome=outcome),
                         detail="%s: %s; failed clauses %s" % (desc, outcome, failed), kind="T1")
        if n and uneval == n:
            ctx.checker_failure("native monitor of %s could not evaluate its requires on any state" % c.name)


def replay_state_record(rec, contracts, states):
    """re-run a witness found by replay_by_search: the state is regenerated by its description and the real function is called under
    the natively evaluated contract again.  True when the property holds on this input now."""
    w = rec.get("witness", {})
    fn, st = w.get("function"), w.get("state")
    cs = [c for c in contracts if c.target == fn] or [c for c in contracts if rec.get("obligation", "").startswith(c.name + ".")]
    if not cs or st is None:
        print("no state recorded for this obligation (solver output only): %s" % (w.get("solver_output") or w.get("model") or ""))
        return True
    for c in cs:
        for kw, uni, desc in states(c):
            if desc == st:
                failed, outcome = native_check(c, kw, universe=uni)
                print("%s on %s: %s; failed clauses: %s" % (c.name, desc, outcome, failed))
                return not failed
    print("state %r is not generated any more" % st)
    return True
