"""Native replay of counterexamples: the verifier's model (or a bit-vector /
small-scope re-search of the same obligation) is turned into real Python values,
the REAL function is called, and the contract's clauses are evaluated natively
(spec built-ins implemented over Python ints)."""
import ast
import importlib
import itertools

import z3

from . import frontend
from .symexec import Unsupported, parse_type
from .theories import BVBits


# ----------------------------------------------------------------------------- concrete spec built-ins
def _low(x):
    if x == 0:
        return None
    k = 0
    while not (x >> k) & 1:
        k += 1
    return k


class _Spec(dict):
    pass


def _card_le1(x):
    # sets of naturals: x >= 0 finite; negative = infinite set
    return x >= 0 and (x & (x - 1)) == 0


CONC = {
    "subset": lambda a, b: (a & b) == a,
    "disjoint": lambda a, b: (a & b) == 0,
    "inter": lambda a, b: a & b,
    "union": lambda a, b: a | b,
    "diff": lambda a, b: a & ~b,
    "empty": lambda a: a == 0,
    "card_le1": _card_le1,
    "low": _low,
    "lowbit": lambda a: (1 << _low(a)) if a != 0 else 0,
    "singleton": lambda k: 1 << k,
    "bit": lambda a, k: bool((a >> k) & 1),
    "wf": lambda a: True,
    "implies": lambda a, b: (not a) or bool(b),
    "iff": lambda a, b: bool(a) == bool(b),
    "ite": lambda c, a, b: a if c else b,
    "isnone": lambda a: a is None,
    "truthy": lambda a: bool(a),
    "eq": lambda a, b: a == b,
    "has": lambda d, k: k in d,
    "get": lambda d, k: d[k],
    "len": len,
    "True": True, "False": False, "None": None,
}


def _forall_int(f, lo=-2, hi=12):
    return all(f(i) for i in range(lo, hi))


class _LazyImplies(ast.NodeTransformer):
    """implies(a, b) / ite(c, a, b) must not evaluate the guarded operand eagerly"""

    def visit_Call(self, node):
        self.generic_visit(node)
        if isinstance(node.func, ast.Name) and node.func.id == "implies" and len(node.args) == 2:
            return ast.BoolOp(op=ast.Or(), values=[ast.UnaryOp(op=ast.Not(), operand=node.args[0]), node.args[1]])
        if isinstance(node.func, ast.Name) and node.func.id == "ite" and len(node.args) == 3:
            return ast.IfExp(test=node.args[0], body=node.args[1], orelse=node.args[2])
        return node


class _OldCollector(ast.NodeTransformer):
    """scalar mode: old(e) is pre-evaluated before the call (olds list).
    object mode (obj_names given): old(e) becomes (lambda self=__snap_self, ...: e)() so that it
    reads the pre-state snapshots while variables bound by enclosing forall-lambdas stay visible."""

    def __init__(self, obj_names=None):
        self.olds = []
        self.obj_names = obj_names

    def visit_Call(self, node):
        if isinstance(node.func, ast.Name) and node.func.id == "old" and len(node.args) == 1:
            if self.obj_names is not None:
                inner = self.generic_visit(node.args[0]) if False else node.args[0]
                args = ast.arguments(posonlyargs=[], args=[ast.arg(arg=n) for n in self.obj_names], kwonlyargs=[], kw_defaults=[],
                                     defaults=[ast.Name(id="__snap_%s" % n, ctx=ast.Load()) for n in self.obj_names])
                return ast.Call(func=ast.Lambda(args=args, body=inner), args=[], keywords=[])
            self.olds.append(node.args[0])
            return ast.Name(id="__old%d" % (len(self.olds) - 1), ctx=ast.Load())
        self.generic_visit(node)
        return node


def compile_spec(text, obj_names=None):
    tree = ast.parse(text.strip(), mode="eval")
    oc = _OldCollector(obj_names)
    tree = oc.visit(tree)
    tree = _LazyImplies().visit(tree)
    ast.fix_missing_locations(tree)
    olds = []
    for o in oc.olds:
        e = ast.Expression(body=_LazyImplies().visit(o))
        ast.fix_missing_locations(e)
        olds.append(compile(e, "<old>", "eval"))
    return compile(tree, "<spec>", "eval"), olds


def real_function(target):
    modname, _, qual = target.partition(":")
    mod = importlib.import_module(modname)
    obj = mod
    for p in qual.split("."):
        obj = getattr(obj, p)
    return obj


def _snapshot(o):
    """pre-state snapshot of an object argument: shallow copy with its containers copied"""
    import copy
    try:
        sn = copy.copy(o) if not hasattr(o, "__deepcopy__") else object.__new__(type(o))
    except Exception:
        sn = object.__new__(type(o))
    d = getattr(o, "__dict__", None)
    if d is not None:
        for k, v in d.items():
            if isinstance(v, (dict, list, set)):
                v = type(v)(v) if type(v) in (dict, list, set) else copy.copy(v)
            try:
                object.__setattr__(sn, k, v)
            except Exception:
                pass
    return sn


def _g(env):
    """spec expressions are evaluated with env as GLOBALS (names inside forall-lambdas resolve there)"""
    g = dict(env)
    g["__builtins__"] = {}
    return g


def native_check(c, kwargs, extra_env=None, universe=None):
    """call the real function on kwargs; returns (failed clause names, outcome description).
    The precondition is checked first: inputs outside it return None.
    Object arguments are snapshotted so that old(...) reads the pre-state; `universe`
    (class name -> list of objects) gives forall_ref its finite range."""
    env = dict(CONC)
    env.update(kwargs)
    if extra_env:
        env.update(extra_env)
    uni = universe or {}
    env["forall_ref"] = lambda cls, f: all(f(x) for x in uni.get(cls, []))
    env["forall_int"] = _forall_int
    # only state-holding arguments are snapshotted (the receiver, objects named in `modifies`, and
    # arguments of the receiver's class); other objects (dictionary keys such as taxa) keep their identity
    holders = set(loc.split(".")[0] for loc in c.modifies if "." in loc and not loc.endswith("[*]"))
    holders.add("self")
    selfv = kwargs.get("self")
    obj_names = [k for k, v in kwargs.items() if getattr(v, "__dict__", None) is not None and type(v).__module__.startswith("dendropy")
                 and (k in holders or (selfv is not None and type(v) is type(selfv)))]
    for n in obj_names:
        env["__snap_%s" % n] = _snapshot(kwargs[n])
    on = obj_names if obj_names else None
    try:
        pre_code, _ = compile_spec(c.requires, on)
        if not eval(pre_code, _g(env)):
            return None, "outside requires"
    except Exception as e:
        return None, "requires not evaluable natively: %r" % (e,)
    specs = []
    for nm, ens in c.ensures_items():
        code, olds = compile_spec(ens, on)
        oldvals = {}
        for i, oc in enumerate(olds):
            oldvals["__old%d" % i] = eval(oc, _g(env))
        specs.append((nm, code, oldvals))
    raise_conds = {}
    for exc, cond in c.raises.items():
        code, _ = compile_spec(cond, on)
        raise_conds[exc] = bool(eval(code, _g(env)))
    fn = real_function(c.target)
    failed = []
    try:
        result = fn(**kwargs)
        raised = None
    except Exception as e:  # noqa
        raised = e
        result = None
    if raised is not None:
        en = type(raised).__name__
        if isinstance(raised, AttributeError) and "has no attribute" in str(raised) and any(
                getattr(v, "__dict__", None) is not None and type(v).__module__.startswith("dendropy") for v in kwargs.values()):
            # the harness built the receiver with __new__ and only the modelled attributes: an
            # attribute outside the model is missing -- not a replay of the obligation
            return None, "not replayable natively (object outside the modelled attributes: %s)" % raised
        if not raise_conds.get(en, False) and en not in c.allowed_raises and "*" not in c.allowed_raises:
            failed.append("raised %s: %s" % (en, raised))
        return failed, "raised %r" % (raised,)
    for exc, must in raise_conds.items():
        if must:
            failed.append("did not raise %s" % exc)
    for nm, code, oldvals in specs:
        e2 = dict(env)
        e2.update(oldvals)
        e2["result"] = result
        try:
            ok = eval(code, _g(e2))
        except Exception as e:
            ok = False
            nm = "%s (spec evaluation raised %r)" % (nm, e)
        if not ok:
            failed.append(nm)
    return failed, "returned %r" % (result,)


def _scalar_only(c):
    for p, ty in c.types.items():
        if p == "return":
            continue
        f = parse_type(ty)
        if f.kind not in ("int", "bool", "bits", "real"):
            return False
    return True


def _small_values(f):
    if f.kind == "bits":
        vals = list(range(0, 16)) + [-1, -2, -8, 23, 32, 255]
    elif f.kind == "int":
        vals = list(range(-2, 6))
    elif f.kind == "bool":
        vals = [False, True]
    elif f.kind == "real":
        vals = [0.0, 0.5, 1.0, 2.0, -1.0]
    else:
        vals = [None]
    if f.opt:
        vals = [None] + vals
    return vals


def replay_scalar(ctx, suite, c, ob, witness, bv_widths):
    """replay for functions over scalar arguments (theory A).  Returns True if handled."""
    from .verify import gen_obligations, solve, model_inputs

    if not _scalar_only(c):
        return False
    tried = []

    def attempt(kwargs, how):
        failed, outcome = native_check(c, kwargs)
        tried.append((how, kwargs, failed))
        if failed:
            ctx.obligation(ob.name, "refuted", "z3+native-replay", ob.time_s, c.target, detail="%s -> %s" % (kwargs, outcome))
            ctx.fail(ob.name, dict(key="%s(%s)" % (c.name, ", ".join("%s=%r" % kv for kv in sorted(kwargs.items()))),
                                    function=c.target, kwargs=kwargs, failed_clauses=failed, outcome=outcome, found_by=how),
                     detail="%s(%s) %s; failed: %s" % (c.name, kwargs, outcome, failed), kind="T1")
            return True
        return False

    if witness is not None and all(v is not None or parse_type(c.types[p]).opt for p, v in witness.items()):
        if attempt(witness, "z3 model"):
            return True
    # same obligation over bit-vectors of small widths (any finite counterexample fits some width)
    for w in bv_widths:
        try:
            ex2, inputs2, obs2 = gen_obligations(suite, c, bits=BVBits(w))
        except Unsupported:
            break
        for o2 in obs2:
            if o2.name != ob.name:
                continue
            if solve(ex2, o2, 5000) == "refuted":
                kw = model_inputs(ex2, inputs2, o2.model)
                if attempt(kw, "bit-vector width %d model" % w):
                    return True
    # small-scope native enumeration with the contract as oracle
    m, ci, fn = frontend.resolve(c.target)
    params = [p for p in c.types if p != "return"]
    spaces = [_small_values(parse_type(c.types[p])) for p in params]
    total = 1
    for s in spaces:
        total *= len(s)
    if total <= 400000:
        for combo in itertools.product(*spaces):
            kw = dict(zip(params, combo))
            failed, outcome = native_check(c, kw)
            if failed:
                return attempt(kw, "small-scope enumeration")
    # no native witness
    status = ob.status
    ctx.obligation(ob.name, status, "z3", ob.time_s, c.target, detail="no native counterexample among %d tries" % len(tried))
    if status == "refuted":
        ctx.fail(ob.name, dict(key="obligation:%s" % ob.name, model=witness, solver_output="sat", tried=len(tried)),
                 detail="obligation refuted by z3 (model %s) but no failing native input found" % (witness,), kind="T1", no_input=True)
    else:
        ctx.undecided_ob(ob.name, ob.detail)
    return True


# ----------------------------------------------------------------------------- receivers and other object arguments
def _class_object(suite, cls):
    for mn in suite.class_sources:
        mod = importlib.import_module(mn)
        if hasattr(mod, cls):
            return getattr(mod, cls)
    raise KeyError(cls)


def _fields_of(ex, cls):
    out = []
    mro = ex._mro(cls)
    for key, f in ex.schema.items():
        c, _, attr = key.partition(".")
        if c in mro and not f.ghost:
            out.append((key, attr, f))
    return out


def build_inputs(suite, ex, inputs, model):
    """turn a model into real call arguments: scalars as Python values, object arguments as
    real instances (created with __new__, attributes set from the model's initial heap)."""
    from .verify import model_inputs

    kw = model_inputs(ex, inputs, model)
    objs = {}
    desc = {}
    for p, (f, v) in inputs.items():
        if f.kind != "ref":
            continue
        rv = model.eval(v.t, model_completion=True)
        if f.opt and z3.is_true(model.eval(v.t == z3.Const("None", v.t.sort()), model_completion=True)):
            kw[p] = None
            continue
        k = str(rv)
        if k not in objs:
            C = _class_object(suite, f.cls)
            o = C.__new__(C)
            d = {}
            for key, attr, fld in _fields_of(ex, f.cls):
                arr, na = ex.heap_arrays(ex.entry_state, key, fld)  # initial-heap constants H0_<key>
                if na is not None and z3.is_true(model.eval(z3.Select(na, v.t), model_completion=True)):
                    val = None
                else:
                    t = z3.Select(arr, v.t)
                    if fld.kind == "bits":
                        val = ex.bits.to_py(model, t)
                    elif fld.kind == "int":
                        val = model.eval(t, model_completion=True).as_long()
                    elif fld.kind == "bool":
                        val = z3.is_true(model.eval(t, model_completion=True))
                    elif fld.kind == "real":
                        val = float(model.eval(t, model_completion=True).as_fraction())
                    elif fld.kind == "str":
                        val = _str_of(ex, model.eval(t, model_completion=True).as_long())
                    else:
                        continue
                setattr(o, attr, val)
                d[attr] = val
            objs[k] = o
            desc[p] = d
        else:
            desc[p] = "same object as an earlier argument"
        kw[p] = objs[k]
    return kw, desc


def _str_of(ex, k):
    for lit, i in ex.str_ids.items():
        if i == k:
            return lit
    return "tok%d" % k


def replay_generic(ctx, suite, c, ob, witness, bv_widths):
    """replay for functions whose arguments are scalars and schema objects."""
    from .verify import gen_obligations, solve

    has_obj = False
    m, ci, fn = frontend.resolve(c.target)
    for w in bv_widths:
        try:
            ex2, inputs2, obs2 = gen_obligations(suite, c, bits=BVBits(w))
        except Unsupported:
            return False
        for o2 in obs2:
            if o2.name != ob.name:
                continue
            # several models: block the previous one on the scalar inputs
            s = z3.Solver()
            s.set("timeout", 5000)
            for a in ex2.all_axioms():
                s.add(a)
            s.add(*o2.pc)
            s.add(z3.Not(o2.goal))
            for attempt in range(4):
                if s.check() != z3.sat:
                    break
                model = s.model()
                try:
                    kw, desc = build_inputs(suite, ex2, inputs2, model)
                except Exception as e:  # model not buildable
                    ctx.note("replay: could not build inputs for %s: %r" % (ob.name, e))
                    break
                show = dict((k, (desc[k] if k in desc else v)) for k, v in kw.items())
                failed, outcome = native_check(c, kw)
                if failed:
                    ctx.obligation(ob.name, "refuted", "z3+native-replay", ob.time_s, c.target, detail="%s -> %s" % (show, outcome))
                    ctx.fail(ob.name, dict(key="%s(%s)" % (c.name, sorted(show.items())), function=c.target, inputs=show,
                                            failed_clauses=failed, outcome=outcome, found_by="bit-vector width %d model" % w),
                             detail="%s(%s) %s; failed: %s" % (c.name, show, outcome, failed), kind="T1")
                    return True
                # block this model's scalar/attribute values and retry
                blk = []
                for d in model.decls():
                    if d.arity() == 0 and not z3.is_array(model[d]):
                        blk.append(d() != model[d])
                if not blk:
                    break
                s.add(z3.Or(*blk))
    status = ob.status
    ctx.obligation(ob.name, status, "z3", ob.time_s, c.target, detail=ob.detail or "no native counterexample found")
    if status == "refuted":
        ctx.fail(ob.name, dict(key="obligation:%s" % ob.name, model=witness, solver_output="sat"),
                 detail="obligation refuted by z3 but no failing native input found", kind="T1", no_input=True)
    else:
        ctx.undecided_ob(ob.name, ob.detail)
    return True


def replay_any(ctx, suite, c, ob, witness, bv_widths):
    if _scalar_only(c) and not _has_self(c):
        return replay_scalar(ctx, suite, c, ob, witness, bv_widths)
    return replay_generic(ctx, suite, c, ob, witness, bv_widths)


def _has_self(c):
    m, ci, fn = frontend.resolve(c.target)
    return ci is not None and fn.name not in ci.static


def replay_by_search(states):
    """replay hook factory: `states(c)` yields (kwargs, universe, description) of REAL objects in
    reachable states; the real method is called under the natively evaluated contract."""

    def hook(ctx, suite, c, ob, witness, bv_widths):
        label = None
        if ".ensures[" in ob.name:
            label = ob.name.split(".ensures[", 1)[1].split("]", 1)[0]
        first_any = None
        n = 0
        for kw, uni, desc in states(c):
            n += 1
            failed, outcome = native_check(c, kw, universe=uni)
            if not failed:
                continue
            hit = (label is None) or any(f == label or f.startswith(label + " ") for f in failed)
            if hit or first_any is None:
                rec = (desc, failed, outcome)
                if hit:
                    first_any = rec
                    break
                first_any = rec
        if first_any is not None:
            desc, failed, outcome = first_any
            ctx.obligation(ob.name, "refuted", "z3+native-replay", ob.time_s, c.target, detail="%s -> %s" % (desc, outcome))
            ctx.fail(ob.name, dict(key="%s|%s" % (c.name, desc), function=c.target, state=desc, failed_clauses=failed, outcome=outcome,
                                    found_by="native small-scope search over %d reachable states" % n),
                     detail="%s on %s: %s; failed clauses: %s" % (c.name, desc, outcome, failed), kind="T1")
            return True
        st = ob.status
        ctx.obligation(ob.name, st, "z3", ob.time_s, c.target, detail=(ob.detail or "") + " no native witness among %d states" % n)
        if st == "refuted":
            ctx.fail(ob.name, dict(key="obligation:%s" % ob.name, solver_output="sat", model=str(witness)),
                     detail="obligation refuted by z3; no failing input among %d reachable states" % n, kind="T1", no_input=True)
        else:
            ctx.undecided_ob(ob.name, ob.detail)
        return True

    return hook
