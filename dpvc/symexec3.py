"""Theory B (DESIGN.md 2.3): heap lists of object references with a ghost position map.

A field of kind `reflist:<Class>` (Node._child_nodes) is a Python list of object
references modelled EXACTLY: per owner a length and an element array,
    heap[key] = (elems: Ref -> Array(Int, Ref),  length: Ref -> Int)
plus the ghost field `<Class>.g_pos: Ref -> Int` ("index of this object in the
list that contains it").  The per-list invariant

    LISTINV(n):  forall k. 0 <= k < len(n) ==> elems(n)[k] != None and g_pos[elems(n)[k]] == k

makes membership, index and remove quantifier-free:
    x in L(n)     <=>  0 <= g_pos[x] < len(n) and elems(n)[g_pos[x]] == x
Every list operation that relies on it first emits the obligation LISTINV(n)
(named `list-invariant`), so a state in which one object sits in two lists at
different positions (transient states of Edge.invert) is not silently mis-read:
the obligation is simply not provable and the function is reported undecided.

List values reached through `obj.field` or a local alias of it have REFERENCE
semantics (reads see the current heap).  Rebinding the field (`x._child_nodes =
[]`) invalidates outstanding aliases (use after that is outside the subset).
`list(L)` / `x.child_nodes()` copies are immutable value lists."""
import ast

import z3

from .symexec import Executor, SV, State, Ob, Exit, Unsupported, DeadPath, NoneV, Loop, Contract, parse_type, Field, sort_of
from .symexec2 import Executor2
from .theories import Ref, NONE, I, B

IA = z3.ArraySort(I, Ref)


class Executor3(Executor2):
    pos_field = "g_pos"

    # ------------------------------------------------------------------ plumbing
    def _field_sort(self, f):
        if f.kind.startswith("reflist"):
            return IA
        return Executor2._field_sort(self, f)

    def heap_arrays(self, st, key, f):
        if f.kind.startswith("reflist") and key not in st.heap:
            nm = key.replace(".", "_").replace("*", "any")
            arr = z3.Const("H0_%s" % nm, z3.ArraySort(Ref, IA))
            ln = z3.Const("H0len_%s" % nm, z3.ArraySort(Ref, I))
            st.heap[key] = (arr, ln)
            if self.old_state is not None and key not in self.old_state.heap:
                self.old_state.heap[key] = (arr, ln)
            return st.heap[key]
        return Executor2.heap_arrays(self, st, key, f)

    def get_attr(self, st, obj, attr, lineno=None):
        if obj.kind == "ref":
            try:
                key, f = self.field(obj.cls, attr)
            except Unsupported:
                key, f = None, None
            if f is not None and f.kind.startswith("reflist"):
                self.require_not_none(st, obj, "attr .%s" % attr, lineno)
                self.heap_arrays(st, key, f)
                return SV("reflist", None, cls=f.kind.split(":")[1] if ":" in f.kind else None, x=("heap", obj, attr, key, st.heap_epoch.get(key, 0) if hasattr(st, "heap_epoch") else 0))
        return Executor2.get_attr(self, st, obj, attr, lineno)

    def _rl(self, st, lv):
        """(elems array, length term, owner term, key) of a list value at the current heap"""
        if lv.x[0] == "heap":
            _, obj, attr, key, epoch = lv.x
            f = self.schema[key]
            arr, ln = self.heap_arrays(st, key, f)
            return z3.Select(arr, obj.t), z3.Select(ln, obj.t), obj.t, key
        el, n = lv.x[1], lv.x[2]  # value list
        return el, n, None, None

    def _pos_arr(self, st, cls):
        key, f = self.field(cls, self.pos_field)
        arr, _ = self.heap_arrays(st, key, f)
        return key, arr

    def _own_arr(self, st, cls):
        key, f = self.field(cls, "g_owner")
        arr, _ = self.heap_arrays(st, key, f)
        return key, arr

    def _owner_of(self, lv):
        """owner term of a list value (None for a detached value list)"""
        if lv.x[0] == "heap":
            return lv.x[1].t
        return lv.x[3] if len(lv.x) > 3 else None

    def _set_list(self, st, lv, el, n, pos=None, own=None):
        if lv.x[0] != "heap":
            raise Unsupported("mutation of a list copy")
        _, obj, attr, key, epoch = lv.x
        f = self.schema[key]
        arr, ln = self.heap_arrays(st, key, f)
        st.heap[key] = (z3.Store(arr, obj.t, el), z3.Store(ln, obj.t, n))
        if pos is not None:
            pk, _ = self._pos_arr(st, lv.cls)
            st.heap[pk] = (pos, None)
        if own is not None:
            ok, _ = self._own_arr(st, lv.cls)
            st.heap[ok] = (own, None)

    def _define(self, name, lam):
        if self.extra_axioms_list is None:
            self.extra_axioms_list = []
        self.fresh_n += 1
        d = z3.Const("%s!%d" % (name, self.fresh_n), lam.sort())
        # definitional axiom in quantified form (forall i. d[i] == body): array lambdas make z3 give
        # up with "incomplete (theory array)" on some of these VCs
        v = z3.Const("v!def%d" % self.fresh_n, lam.sort().domain())
        self.extra_axioms_list.append(z3.ForAll([v], z3.Select(d, v) == z3.Select(lam, v), patterns=[z3.Select(d, v)]))
        return d

    extra_axioms_list = None

    def all_axioms(self):
        return Executor2.all_axioms(self) + list(self.extra_axioms_list or [])

    # ------------------------------------------------------------------ the list invariant
    def listinv(self, st, lv):
        el, n, owner, key = self._rl(st, lv)
        _, pos = self._pos_arr(st, lv.cls)
        _, own = self._own_arr(st, lv.cls)
        ow = self._owner_of(lv)
        k = z3.Int("k!li%d" % self._nf())
        conj = [z3.Select(el, k) != NONE, z3.Select(pos, z3.Select(el, k)) == k]
        if ow is not None:
            conj.append(z3.Select(own, z3.Select(el, k)) == ow)
        body = z3.Implies(z3.And(0 <= k, k < n), z3.And(*conj))
        return z3.And(n >= 0, z3.ForAll([k], body))

    def need_listinv(self, st, lv, ln, what):
        if self.spec:
            return
        self.oblige(st, self.listinv(st, lv), "list-invariant[%s]" % what, ln, kind="list-inv")
        st.assume(self.listinv(st, lv))

    def member(self, st, lv, x):
        el, n, owner, key = self._rl(st, lv)
        _, pos = self._pos_arr(st, lv.cls)
        _, own = self._own_arr(st, lv.cls)
        ow = self._owner_of(lv)
        p = z3.Select(pos, x)
        conj = [x != NONE, 0 <= p, p < n, z3.Select(el, p) == x]
        if ow is not None:
            conj.insert(1, z3.Select(own, x) == ow)
        return z3.And(*conj)

    # ------------------------------------------------------------------ expression hooks
    def truthy(self, v):
        if v.kind == "reflist":
            raise Unsupported("truthiness of a list outside a state (use len)")
        return Executor2.truthy(self, v)

    def truthy_in(self, st, v):
        if v.kind == "reflist":
            el, n, _, _ = self._rl(st, v)
            return n > 0
        return self.truthy(v)

    def ev_UnaryOp(self, e, st):
        if isinstance(e.op, ast.Not):
            v = self.ev(e.operand, st)
            if v.kind == "reflist":
                return SV("bool", z3.Not(self.truthy_in(st, v)))
            return SV("bool", z3.Not(self.truthy(v)))
        return Executor2.ev_UnaryOp(self, e, st)

    def st_If(self, s, st):
        # lists need the state for their truthiness
        cv = self.ev(s.test, st)
        if cv.kind == "reflist":
            c = self.truthy_in(st, cv)
            s1 = st.copy()
            s1.assume(c)
            s2 = st.copy()
            s2.assume(z3.Not(c))
            n1, x1 = self.exec_block(s.body, [s1])
            n2, x2 = self.exec_block(s.orelse, [s2])
            return n1 + n2, x1 + x2
        return self._st_If_value(s, st, cv)

    def _st_If_value(self, s, st, cv):
        c = z3.simplify(self.truthy(cv))
        if z3.is_true(c):
            return self.exec_block(s.body, [st])
        if z3.is_false(c):
            return self.exec_block(s.orelse, [st])
        k = self.known_by_path(st, c)
        if k is True:
            return self.exec_block(s.body, [st])
        if k is False:
            return self.exec_block(s.orelse, [st])
        s1 = st.copy()
        s1.assume(c)
        s2 = st.copy()
        s2.assume(z3.Not(c))
        n1, x1 = self.exec_block(s.body, [s1]) if self.feasible(s1) else ([], [])
        n2, x2 = self.exec_block(s.orelse, [s2]) if self.feasible(s2) else ([], [])
        exits = x1 + x2
        if len(n1) == 1 and len(n2) == 1:
            m = self.merge_states(c, n1[0], n2[0], st)
            if m is not None:
                return [m], exits
        return n1 + n2, exits

    def merge_sv(self, c, a, b):
        if a.kind == "listiter" or b.kind == "listiter":
            if a is b:
                return a
            if a.kind == b.kind:
                # two iterator states: position and list merged pointwise
                ela, na, _ = a.x
                elb, nb, _ = b.x
                return SV("listiter", z3.If(c, a.t, b.t), cls=a.cls, x=(ela if ela.eq(elb) else z3.If(c, ela, elb), na if na.eq(nb) else z3.If(c, na, nb), None))
            return None
        if a.kind == "reflist" or b.kind == "reflist":
            if a is b or (a.kind == b.kind and a.x[0] == "heap" and b.x[0] == "heap" and a.x[1].t.eq(b.x[1].t) and a.x[3] == b.x[3]):
                return a
            return None
        return Executor2.merge_sv(self, c, a, b)

    def contains(self, st, container, item, ln):
        if container.kind == "reflist":
            if item.kind == "none":
                return z3.BoolVal(False)
            if item.kind != "ref":
                raise Unsupported("membership of %s in a reference list" % item.kind)
            self.need_listinv(st, container, ln, "in")
            return self.member(st, container, item.t)
        return Executor2.contains(self, st, container, item, ln)

    # ---- set(<iterable>) where the iterable is a reference list (or an object whose iteration the suite names as one):
    # a set of references S with  S[at(L, j)] for every 0 <= j < len(L)  and, for every member r, a witness position idx(r)
    def bi_set(self, e, st):
        if len(e.args) != 1 or e.keywords:
            if self.lenient:
                return self.opaque()
            raise Unsupported("set() with %d arguments" % len(e.args))
        v = self.ev(e.args[0], st)
        lv = None
        if v.kind == "reflist":
            lv = v
        elif v.kind == "ref" and v.cls is not None:
            for cname in self._mro(v.cls):
                view = self.iter_views.get(cname)
                if view is not None:
                    it = ast.copy_location(ast.Attribute(value=e.args[0], attr=view, ctx=ast.Load()), e)
                    ast.fix_missing_locations(it)
                    lv = self.ev(it, st)
                    break
        if lv is None or lv.kind != "reflist":
            if self.lenient:
                return self.opaque()
            raise Unsupported("set() of %s" % v.kind)
        el, n, _, _ = self._rl(st, lv)
        k = self._nf()
        S = z3.Const("set!%d" % k, z3.ArraySort(Ref, z3.BoolSort()))
        idx = z3.Function("setidx!%d" % k, Ref, z3.IntSort())
        j = z3.Const("sj!%d" % k, z3.IntSort())
        r = z3.Const("sr!%d" % k, Ref)
        st.assume(z3.ForAll([j], z3.Implies(z3.And(0 <= j, j < n), z3.Select(S, z3.Select(el, j)))))
        st.assume(z3.ForAll([r], z3.Implies(z3.Select(S, r), z3.And(0 <= idx(r), idx(r) < n, z3.Select(el, idx(r)) == r))))
        return SV("set:ref", S, cls=lv.cls)

    def bi_tuple(self, e, st):
        if len(e.args) == 1 and not e.keywords:
            probe = st.copy()
            try:
                v = self.ev(e.args[0], probe)
            except Unsupported:
                v = None
            if v is not None and (v.kind.startswith("keysnap:") or (v.kind.startswith("map:") and isinstance(v.x, tuple))):
                return self.bi_list(e, st)   # tuple(d.keys()): the keys d has NOW
        b = getattr(Executor2, "bi_tuple", None)
        if b is not None:
            return b(self, e, st)
        if self.lenient:
            return self.opaque()
        raise Unsupported("tuple() at line %s" % getattr(e, "lineno", "?"))

    # ---- iterators over reference lists: iter(L) is (a snapshot of L, a position); next(it) rebinds the NAME holding it
    def bi_iter(self, e, st):
        v = self.ev(e.args[0], st)
        if v.kind != "reflist":
            raise Unsupported("iter() of %s" % v.kind)
        el, n, _, _ = self._rl(st, v)
        return SV("listiter", z3.IntVal(0), cls=v.cls, x=(el, n, self._owner_of(v)))

    def bi_next(self, e, st):
        if len(e.args) != 1 or not isinstance(e.args[0], ast.Name):
            raise Unsupported("next() of anything but a local name")
        nm = e.args[0].id
        it = st.env.get(nm)
        if it is None or it.kind != "listiter":
            raise Unsupported("next() of %s" % (it.kind if it is not None else "an unbound name"))
        el, n, ow = it.x
        ln = getattr(e, "lineno", None)
        more = it.t < n
        x = st.copy()
        x.assume(z3.And(*self.guard, z3.Not(more)) if self.guard else z3.Not(more))
        self.pending_raises.append(Exit("raise", x, exc="StopIteration", lineno=ln))
        st.assume(z3.Implies(z3.And(*self.guard), more) if self.guard else more)
        st.env[nm] = SV("listiter", it.t + 1, cls=it.cls, x=it.x)
        return SV("ref", z3.Select(el, it.t), cls=it.cls)

    def sp_iter_list(self, e, st):
        it = self.ev(e.args[0], st)
        if it.kind != "listiter":
            raise Unsupported("iter_list() of %s" % it.kind)
        return SV("reflist", None, cls=it.cls, x=("value", it.x[0], it.x[1], it.x[2]))

    def sp_iter_pos(self, e, st):
        it = self.ev(e.args[0], st)
        if it.kind != "listiter":
            raise Unsupported("iter_pos() of %s" % it.kind)
        return SV("int", it.t)

    def fresh_listiter(self, st, nm, old):
        k = self._nf()
        el = z3.Const("it_el_%s!%d" % (nm, k), IA)
        n = z3.Int("it_n_%s!%d" % (nm, k))
        pos = z3.Int("it_pos_%s!%d" % (nm, k))
        st.assume(z3.And(n >= 0, pos >= 0, pos <= n))
        return SV("listiter", pos, cls=old.cls, x=(el, n, None))

    def bi_len(self, e, st):
        v = self.ev(e.args[0], st)
        if v.kind == "reflist":
            el, n, _, _ = self._rl(st, v)
            return SV("int", n)
        return Executor2.bi_len(self, e, st)

    def bi_list(self, e, st):
        v = self.ev(e.args[0], st)
        if v.kind == "reflist":
            el, n, _, _ = self._rl(st, v)
            return SV("reflist", None, cls=v.cls, x=("value", el, n, self._owner_of(v)))
        return Executor2.bi_list(self, e, st)

    def ev_List(self, e, st):
        if not e.elts:
            return SV("emptylist", None)
        return Executor2.ev_List(self, e, st)

    def attr_of(self, st, base, attr, lineno):
        if base.kind == "reflist":
            return SV("func", "reflist." + attr, x=base)
        return Executor2.attr_of(self, st, base, attr, lineno)

    def call(self, st, f, args, kw, ln):
        if f.kind == "func" and isinstance(f.t, str) and f.t.startswith("reflist."):
            return self.reflist_method(st, f.x, f.t[8:], args, ln)
        return Executor2.call(self, st, f, args, kw, ln)

    def subscript_other(self, e, st, base):
        if base.kind == "reflist" and isinstance(e.slice, ast.Slice):
            # L[k:] for a literal k >= 0: a new list value holding the elements from position k on
            sl = e.slice
            if sl.upper is not None or sl.step is not None or sl.lower is None:
                raise Unsupported("list slice other than L[k:] at line %s" % getattr(e, "lineno", "?"))
            lo = self._as_pyint(self.ev(sl.lower, st))
            if lo is None or lo < 0:
                raise Unsupported("list slice with a non-literal or negative start")
            el, n, _, _ = self._rl(st, base)
            self.fresh_n += 1
            el2 = z3.Const("slice!%d" % self.fresh_n, el.sort())
            j = z3.Int("slk!%d" % self.fresh_n)
            st.assume(z3.ForAll([j], z3.Select(el2, j) == z3.Select(el, j + lo)))
            return SV("reflist", None, cls=base.cls, x=("value", el2, z3.If(n >= lo, n - lo, z3.IntVal(0)), self._owner_of(base)))
        if base.kind == "reflist":
            ln = getattr(e, "lineno", None)
            idx = self.ev(e.slice, st)
            if idx.kind != "int":
                raise Unsupported("list subscript of kind %s" % idx.kind)
            el, n, _, _ = self._rl(st, base)
            i = z3.If(idx.t < 0, idx.t + n, idx.t)
            inb = z3.And(0 <= i, i < n)
            if not self.spec:
                x = st.copy()
                x.assume(z3.And(*self.guard, z3.Not(inb)) if self.guard else z3.Not(inb))
                self.pending_raises.append(Exit("raise", x, exc="IndexError", lineno=ln))
                st.assume(z3.Implies(z3.And(*self.guard), inb) if self.guard else inb)
            return SV("ref", z3.Select(el, i), cls=base.cls)
        return Executor2.subscript_other(self, e, st, base)

    def assign_subscript(self, st, target, v, ln):
        base = self.as_container(st, self.ev(target.value, st), ln)
        if base.kind == "reflist":
            idx = self.ev(target.slice, st)
            el, n, _, _ = self._rl(st, base)
            i = z3.If(idx.t < 0, idx.t + n, idx.t)
            inb = z3.And(0 <= i, i < n)
            x = st.copy()
            x.assume(z3.Not(inb))
            self.pending_raises.append(Exit("raise", x, exc="IndexError", lineno=ln))
            st.assume(inb)
            if v.kind == "none":
                v = SV("ref", NONE, cls=base.cls)
            pk, pos = self._pos_arr(st, base.cls)
            ok_, own = self._own_arr(st, base.cls)
            ow = self._owner_of(base)
            olde = z3.Select(el, i)
            own2 = z3.Store(z3.Store(own, olde, NONE), v.t, ow)
            self._set_list(st, base, z3.Store(el, i, v.t), n, z3.Store(pos, v.t, i), own2)
            return
        return Executor2.assign_subscript(self, st, target, v, ln)

    def assign(self, st, target, v, ln):
        if isinstance(target, (ast.Tuple, ast.List)) and v.kind == "reflist" and not self.spec:
            # a, b = L: ValueError unless len(L) is exactly the number of targets
            el, n, _, _ = self._rl(st, v)
            k = len(target.elts)
            x = st.copy()
            x.assume(n != k)
            self.pending_raises.append(Exit("raise", x, exc="ValueError", lineno=ln))
            st.assume(n == k)
            for i, t in enumerate(target.elts):
                self.assign(st, t, SV("ref", z3.Select(el, i), cls=v.cls), ln)
            return
        if isinstance(target, ast.Subscript):
            base = self.ev(target.value, st)
            if base.kind == "reflist":
                return self.assign_subscript(st, target, v, ln)
        if isinstance(target, ast.Attribute) and v.kind in ("emptylist", "reflist"):
            obj = self.ev(target.value, st)
            if obj.kind == "ref":
                try:
                    key, f = self.field(obj.cls, target.attr)
                except Unsupported:
                    key, f = None, None
                if f is not None and f.kind.startswith("reflist"):
                    self.require_not_none(st, obj, "store .%s" % target.attr, ln)
                    arr, lna = self.heap_arrays(st, key, f)
                    if v.kind == "emptylist":
                        st.heap[key] = (arr, z3.Store(lna, obj.t, z3.IntVal(0)))
                    else:
                        raise Unsupported("assignment of an existing list object to a list field (aliasing)")
                    # outstanding aliases of this field are no longer tracked
                    for nm, sv in list(st.env.items()):
                        if sv.kind == "reflist" and sv.x[0] == "heap" and sv.x[3] == key:
                            st.env[nm] = SV("stale-alias", None)
                    return
        return Executor2.assign(self, st, target, v, ln)

    def ev_Name(self, e, st):
        v = Executor2.ev_Name(self, e, st)
        if v.kind == "stale-alias":
            raise Unsupported("use of a list alias after its field was rebound (line %s)" % getattr(e, "lineno", "?"))
        return v

    # ------------------------------------------------------------------ list methods
    def reflist_method(self, st, lv, name, args, ln):
        el, n, owner, key = self._rl(st, lv)
        pk, pos = self._pos_arr(st, lv.cls)
        ok_, own = self._own_arr(st, lv.cls)
        ow = self._owner_of(lv)
        i = z3.Int("i!rl%d" % self._nf())
        y = z3.Const("y!rl%d" % self._nf(), Ref)

        def arg_ref(a):
            if a.kind == "none":
                return NONE
            if a.kind != "ref":
                raise Unsupported("list element of kind %s" % a.kind)
            return a.t

        if name == "index":
            x = arg_ref(args[0])
            self.need_listinv(st, lv, ln, "index")
            isin = self.member(st, lv, x)
            xs = st.copy()
            xs.assume(z3.Not(isin))
            self.pending_raises.append(Exit("raise", xs, exc="ValueError", lineno=ln))
            st.assume(isin)
            return SV("int", z3.Select(pos, x))
        if lv.x[0] != "heap":
            raise Unsupported("mutation of a list copy (%s)" % name)
        # y sits in THIS list (ghost owner), so its slot moves with the list
        in_this = z3.Select(own, y) == ow
        if name == "append":
            x = arg_ref(args[0])
            self._set_list(st, lv, z3.Store(el, n, x), n + 1, z3.Store(pos, x, n), z3.Store(own, x, ow))
            return NoneV()
        if name == "remove":
            x = arg_ref(args[0])
            self.need_listinv(st, lv, ln, "remove")
            isin = self.member(st, lv, x)
            xs = st.copy()
            xs.assume(z3.Not(isin))
            self.pending_raises.append(Exit("raise", xs, exc="ValueError", lineno=ln))
            st.assume(isin)
            k = z3.Select(pos, x)
            el2 = self._define("rm_el", z3.Lambda([i], z3.If(i < k, z3.Select(el, i), z3.Select(el, i + 1))))
            pos2 = self._define("rm_pos", z3.Lambda([y], z3.If(y == x, z3.IntVal(-1),
                                                               z3.If(z3.And(in_this, z3.Select(pos, y) > k), z3.Select(pos, y) - 1, z3.Select(pos, y)))))
            self._set_list(st, lv, el2, n - 1, pos2, z3.Store(own, x, NONE))
            return NoneV()
        if name == "insert":
            idx = args[0]
            x = arg_ref(args[1])
            if idx.kind != "int":
                raise Unsupported("insert index of kind %s" % idx.kind)
            self.need_listinv(st, lv, ln, "insert")
            j = z3.If(idx.t < 0, z3.If(idx.t + n < 0, z3.IntVal(0), idx.t + n), z3.If(idx.t > n, n, idx.t))
            el2 = self._define("ins_el", z3.Lambda([i], z3.If(i < j, z3.Select(el, i), z3.If(i == j, x, z3.Select(el, i - 1)))))
            pos2 = self._define("ins_pos", z3.Lambda([y], z3.If(y == x, j, z3.If(z3.And(in_this, z3.Select(pos, y) >= j), z3.Select(pos, y) + 1, z3.Select(pos, y)))))
            self._set_list(st, lv, el2, n + 1, pos2, z3.Store(own, x, ow))
            return NoneV()
        if name == "clear":
            self._set_list(st, lv, el, z3.IntVal(0))
            return NoneV()
        if name == "reverse":
            self.need_listinv(st, lv, ln, "reverse")
            el2 = self._define("rev_el", z3.Lambda([i], z3.Select(el, n - 1 - i)))
            pos2 = self._define("rev_pos", z3.Lambda([y], z3.If(z3.And(in_this, 0 <= z3.Select(pos, y), z3.Select(pos, y) < n), n - 1 - z3.Select(pos, y), z3.Select(pos, y))))
            self._set_list(st, lv, el2, n, pos2)
            return NoneV()
        raise Unsupported("list method %s on a reference list" % name)

    # ------------------------------------------------------------------ spec access
    def sp_at(self, e, st):
        """at(L, k): element k of a reference list (no bounds obligation)"""
        lv, k = self._sargs(e, st)
        el, n, _, _ = self._rl(st, lv)
        return SV("ref", z3.Select(el, k.t), cls=lv.cls)

    def sp_length(self, e, st):
        (lv,) = self._sargs(e, st)
        el, n, _, _ = self._rl(st, lv)
        return SV("int", n)

    def sp_isin(self, e, st):
        """isin(x, L): x occurs in L, read through the ghost position (meaningful under listinv(L))"""
        x, lv = self._sargs(e, st)
        if x.kind == "none":
            return SV("bool", z3.BoolVal(False))
        return SV("bool", self.member(st, lv, x.t))

    def sp_listinv(self, e, st):
        (lv,) = self._sargs(e, st)
        return SV("bool", self.listinv(st, lv))

    def sp_same_list(self, e, st):
        """same_list(L, old(L)): equal length and equal elements on [0, len)"""
        a, b = self._sargs(e, st)
        # `b` comes from old(): it was evaluated against the old state
        ela, na, _, _ = self._rl(st, a)
        elb, nb, _, _ = self._rl(st, b)
        k = z3.Int("k!sl%d" % self._nf())
        return SV("bool", z3.And(na == nb, z3.ForAll([k], z3.Implies(z3.And(0 <= k, k < na), z3.Select(ela, k) == z3.Select(elb, k)))))

    # ---- list relations between the pre-state and the current state.  The list is named by an
    # expression whose OWNER is evaluated in the pre-state (e.g. old parent's child list).
    def _both(self, e_arg, st):
        if self.old_state is None:
            raise Unsupported("list relation outside a postcondition")
        lv = self.ev(e_arg, self.old_state)
        if lv.kind != "reflist" or lv.x[0] != "heap":
            raise Unsupported("list relation on a non-field list")
        el0, n0, owner, key = self._rl(self.old_state, lv)
        el1, n1, _, _ = self._rl(st, lv)
        _, pos0 = self._pos_arr(self.old_state, lv.cls)
        _, pos1 = self._pos_arr(st, lv.cls)
        return lv, el0, n0, el1, n1, pos0, pos1

    def _mem(self, state, lv, y):
        """pos/owner-based membership of y in the list named by lv, read in `state`"""
        return self.member(state, lv, y)

    def sp_list_same(self, e, st):
        lv, el0, n0, el1, n1, pos0, pos1 = self._both(e.args[0], st)
        k = z3.Int("k!ls%d" % self._nf())
        return SV("bool", z3.And(n1 == n0, z3.ForAll([k], z3.Implies(z3.And(0 <= k, k < n0), z3.Select(el1, k) == z3.Select(el0, k)))))

    def sp_list_plus(self, e, st):
        """list_plus(L, x): L now is old(L) with x appended"""
        lv, el0, n0, el1, n1, pos0, pos1 = self._both(e.args[0], st)
        x = self.ev(e.args[1], st)
        k = z3.Int("k!lp%d" % self._nf())
        return SV("bool", z3.And(n1 == n0 + 1, z3.Select(el1, n0) == x.t,
                                 z3.ForAll([k], z3.Implies(z3.And(0 <= k, k < n0), z3.Select(el1, k) == z3.Select(el0, k)))))

    def sp_list_minus(self, e, st):
        """list_minus(L, x): L now is old(L) with the occurrence of x (at old g_pos[x]) removed"""
        lv, el0, n0, el1, n1, pos0, pos1 = self._both(e.args[0], st)
        x = self.ev(e.args[1], st)
        p = z3.Select(pos0, x.t)
        k = z3.Int("k!lm%d" % self._nf())
        return SV("bool", z3.And(n1 == n0 - 1,
                                 z3.ForAll([k], z3.Implies(z3.And(0 <= k, k < n1), z3.Select(el1, k) == z3.If(k < p, z3.Select(el0, k), z3.Select(el0, k + 1))))))

    def sp_list_insert(self, e, st):
        """list_insert(L, i, x): L now is old(L) with x inserted before index i (0 <= i <= old length)"""
        lv, el0, n0, el1, n1, pos0, pos1 = self._both(e.args[0], st)
        i = self.ev(e.args[1], st)
        x = self.ev(e.args[2], st)
        k = z3.Int("k!lins%d" % self._nf())
        return SV("bool", z3.And(n1 == n0 + 1, z3.Select(el1, i.t) == x.t,
                                 z3.ForAll([k], z3.Implies(z3.And(0 <= k, k < n1, k != i.t),
                                                           z3.Select(el1, k) == z3.If(k < i.t, z3.Select(el0, k), z3.Select(el0, k - 1))))))

    def sp_order_kept(self, e, st):
        """order_kept(L, x): the elements other than x that are in both old(L) and L keep their relative order"""
        lv, el0, n0, el1, n1, pos0, pos1 = self._both(e.args[0], st)
        x = self.ev(e.args[1], st)
        a = z3.Const("a!ok%d" % self._nf(), Ref)
        b = z3.Const("b!ok%d" % self._nf(), Ref)
        body = z3.Implies(z3.And(a != x.t, b != x.t, self._mem(self.old_state, lv, a), self._mem(self.old_state, lv, b),
                                 self._mem(st, lv, a), self._mem(st, lv, b), z3.Select(pos0, a) < z3.Select(pos0, b)),
                          z3.Select(pos1, a) < z3.Select(pos1, b))
        return SV("bool", z3.ForAll([a, b], body))

    def sp_pos_frame(self, e, st):
        """pos_frame(L1, L2, ..., x1, x2, ...): ghost position and ghost owner are unchanged for every node
        that was NOT sitting in one of the listed lists before the call and is none of the listed nodes xi
        (the only nodes an operation may move into a list)"""
        if self.old_state is None:
            raise Unsupported("pos_frame outside a postcondition")
        y = z3.Const("y!pf%d" % self._nf(), Ref)
        conds = []
        cls = None
        for a in e.args:
            v = self.ev(a, self.old_state)
            if v.kind == "reflist":
                cls = v.cls
                ow = self._owner_of(v)
                _, own0 = self._own_arr(self.old_state, cls)
                conds.append(z3.Or(ow == NONE, z3.Select(own0, y) != ow))
            elif v.kind == "ref":
                conds.append(y != v.t)
            elif v.kind == "none":
                pass
            else:
                raise Unsupported("pos_frame argument of kind %s" % v.kind)
        _, p0 = self._pos_arr(self.old_state, cls)
        _, p1 = self._pos_arr(st, cls)
        _, o0 = self._own_arr(self.old_state, cls)
        _, o1 = self._own_arr(st, cls)
        return SV("bool", z3.ForAll([y], z3.Implies(z3.And(*conds), z3.And(z3.Select(p1, y) == z3.Select(p0, y), z3.Select(o1, y) == z3.Select(o0, y)))))

    def sp_lists_frame(self, e, st):
        """lists_frame('Class', L1, L2, ...): the child list of every object other than the owners of
        the listed lists (owners evaluated in the pre-state) is unchanged"""
        if self.old_state is None:
            raise Unsupported("lists_frame outside a postcondition")
        owners = []
        key = None
        for a in e.args[1:]:
            lv = self.ev(a, self.old_state)
            owners.append(lv.x[1].t)
            key = lv.x[3]
        if key is None:
            raise Unsupported("lists_frame needs at least one list")
        f = self.schema[key]
        arr0, ln0 = self.heap_arrays(self.old_state, key, f)
        arr1, ln1 = self.heap_arrays(st, key, f)
        r = z3.Const("r!lf%d" % self._nf(), Ref)
        k = z3.Int("k!lf%d" % self._nf())
        same = z3.And(z3.Select(ln1, r) == z3.Select(ln0, r),
                      z3.ForAll([k], z3.Implies(z3.And(0 <= k, k < z3.Select(ln0, r)), z3.Select(z3.Select(arr1, r), k) == z3.Select(z3.Select(arr0, r), k))))
        return SV("bool", z3.ForAll([r], z3.Implies(z3.And(r != NONE, *[r != o for o in owners]), same)))

    def sp_old(self, e, st):
        v = Executor2.sp_old(self, e, st)
        if v.kind == "reflist" and v.x[0] == "heap":
            # freeze to a value list of the old state
            el, n, _, _ = self._rl(self.old_state, v)
            return SV("reflist", None, cls=v.cls, x=("value", el, n, self._owner_of(v)))
        return v

    def sp_pre(self, e, st):
        v = Executor2.sp_pre(self, e, st)
        if v.kind == "reflist" and v.x[0] == "heap":
            ps = self.pre_states[-1]
            el, n, _, _ = self._rl(ps, v)
            return SV("reflist", None, cls=v.cls, x=("value", el, n, self._owner_of(v)))
        return v

    def bi_len_spec(self, e, st):
        return self.bi_len(e, st)

    # ------------------------------------------------------------------ for-loops over reference lists
    def sp_loop_index(self, e, st):
        if "$i" not in st.env:
            raise Unsupported("loop_index() outside a for-loop over a reference list")
        return st.env["$i"]

    def assume_unreferenced_other(self, st, key, f, o, r):
        if f.kind.startswith("reflist"):
            el, n = self.heap_arrays(st, key, f)
            k = z3.Int("fr!i%d" % self.fresh_n)
            st.assume(z3.ForAll([r, k], z3.Implies(z3.And(0 <= k, k < z3.Select(n, r)), z3.Select(z3.Select(el, r), k) != o)))

    def exec_loop(self, s, st):
        if isinstance(s, ast.For) and isinstance(s.iter, ast.Call) and isinstance(s.iter.func, ast.Attribute) and not s.iter.args and not s.iter.keywords:
            # `for x in obj.some_iterator()`: a traversal the suite names as a (ghost) reference list
            # (ASSUMED: what the traversal yields and in which order -- property C15)
            probe = st.copy()
            try:
                recv = self.ev(s.iter.func.value, probe)
            except Unsupported:
                recv = None
            if recv is not None and recv.kind == "ref" and recv.cls is not None:
                for cname in self._mro(recv.cls):
                    view = self.iter_views.get("%s.%s" % (cname, s.iter.func.attr))
                    if view is not None:
                        it = ast.copy_location(ast.Attribute(value=s.iter.func.value, attr=view, ctx=ast.Load()), s.iter)
                        ast.fix_missing_locations(it)
                        return self.exec_for_reflist(s, st, iter_expr=it)
        if isinstance(s, ast.For):
            probe = st.copy()
            try:
                itv = self.ev(s.iter, probe)
            except Unsupported:
                itv = None
            if itv is not None and itv.kind == "reflist":
                return self.exec_for_reflist(s, st)
            if itv is not None and itv.kind == "ref" and itv.cls is not None:
                # `for x in obj`: obj.__iter__ yields the elements of a (ghost) reference list named by the suite
                # (ASSUMED: e.g. iterating a Tree visits every node of the tree exactly once -- property C15)
                for cname in self._mro(itv.cls):
                    view = self.iter_views.get(cname)
                    if view is not None:
                        it = ast.copy_location(ast.Attribute(value=s.iter, attr=view, ctx=ast.Load()), s.iter)
                        ast.fix_missing_locations(it)
                        return self.exec_for_reflist(s, st, iter_expr=it)
        return Executor2.exec_loop(self, s, st)

    def exec_for_reflist(self, s, st, iter_expr=None):
        from . import frontend
        m, ci, fn = frontend.resolve(self.cur.target)
        loops = frontend.loops_in(fn)
        ordinal = loops.index(s)
        L = self.cur.loops.get(ordinal)
        if L is None:
            raise Unsupported("loop %d at line %d has no sidecar invariant" % (ordinal, s.lineno))
        if s.orelse:
            raise Unsupported("for-else at line %d" % s.lineno)
        if not isinstance(s.target, ast.Name):
            raise Unsupported("for target at line %d" % s.lineno)
        tag = "loop%d@L%d" % (ordinal, s.lineno)
        itv = self.ev(iter_expr if iter_expr is not None else s.iter, st)
        if itv.x[0] == "heap":
            # iterate over a snapshot; the sidecar must state (and we check at the back edge) that the
            # iterated list is not modified by the body
            el0, n0, owner, key = self._rl(st, itv)
            itv_live = itv
        else:
            el0, n0, owner, key = self._rl(st, itv)
            itv_live = None
        entry = st.copy()
        saved_i = st.env.get("$i")
        st.env["$i"] = SV("int", z3.IntVal(0))
        inv0 = self.inv_eval(L.invariant, st, entry)
        if not z3.is_true(inv0):
            self.oblige(st, inv0, "%s.invariant-established" % tag, None, kind="loop")
        # havoc
        head = st.copy()
        names, heap_keys = self.assigned_in(s.body, st)
        for nm in names:
            if nm in head.env:
                v = head.env[nm]
                ty = self.cur.locals.get(nm)
                if ty is not None:
                    f = parse_type(ty)
                    head.env[nm] = self.fresh(f.kind, nm, cls=f.cls, opt=f.opt)
                elif v.kind in ("int", "bool", "real", "bits", "str"):
                    head.env[nm] = self.fresh(v.kind, nm, opt=v.none is not None)
                elif v.kind == "ref":
                    head.env[nm] = SV("ref", z3.Const("%s!%d" % (nm, self._nf()), Ref), cls=v.cls)
                else:
                    raise Unsupported("cannot havoc %s of kind %s" % (nm, v.kind))
        for hk in heap_keys:
            f = self.schema[hk]
            arr, na = self.heap_arrays(head, hk, f)
            k = self._nf()
            nm = hk.replace(".", "_").replace("*", "any")
            head.heap[hk] = (z3.Const("lh_%s!%d" % (nm, k), arr.sort()), z3.Const("lhn_%s!%d" % (nm, k), na.sort()) if na is not None else None)
        for loc in (L.modifies or []):
            self.havoc_loc(head, loc, head.env)
        iv = z3.Int("i!for%d" % self._nf())
        head.env["$i"] = SV("int", iv)
        head.assume(z3.And(0 <= iv, iv <= n0))
        head.assume(self.inv_eval(L.invariant, head, entry))
        if itv_live is not None:
            # the live list still equals the snapshot at the head (part of what the body must preserve)
            el1, n1, _, _ = self._rl(head, itv_live)
            kq = z3.Int("k!snap%d" % self._nf())
            head.assume(z3.And(n1 == n0, z3.ForAll([kq], z3.Implies(z3.And(0 <= kq, kq < n0), z3.Select(el1, kq) == z3.Select(el0, kq)))))
        after = []
        exits_out = []
        ex_st = head.copy()
        ex_st.assume(iv == n0)
        for nm, spec in (L.after or {}).items():
            self._ob(ex_st, self.inv_eval(spec, ex_st, entry), "%s.after[%s]" % (tag, nm), "loop")
        ex_st.env.pop("$i", None)
        if saved_i is not None:
            ex_st.env["$i"] = saved_i
        after.append(ex_st)
        body_st = head.copy()
        body_st.assume(iv < n0)
        elem = SV("ref", z3.Select(el0, iv), cls=itv.cls)
        body_st.env[s.target.id] = elem
        normal, exits = self.exec_block(s.body, [body_st])
        back = list(normal)
        for x in exits:
            if x.kind == "continue":
                back.append(x.state)
            elif x.kind == "break":
                bs = x.state
                bs.env.pop("$i", None)
                after.append(bs)
            else:
                exits_out.append(x)
        for b in back:
            b.env["$i"] = SV("int", iv + 1)
            if getattr(L, "split", False):
                self.ob_invariant_preserved(L, b, entry, tag)
            else:
                inv_b = self.inv_eval(L.invariant, b, entry)
                self._ob(b, inv_b, "%s.invariant-preserved" % tag, "loop")
            if itv_live is not None:
                el1, n1, _, _ = self._rl(b, itv_live)
                kq = z3.Int("k!snap%d" % self._nf())
                self._ob(b, z3.And(n1 == n0, z3.ForAll([kq], z3.Implies(z3.And(0 <= kq, kq < n0), z3.Select(el1, kq) == z3.Select(el0, kq)))),
                         "%s.iterated-list-not-modified" % tag, "loop")
        return after, exits_out
