"""debug helper: python3-vt -m dpvc.debug C20 <contract name> <obligation substring>"""
import sys, importlib, z3
from .verify import gen_obligations, solve
def main():
    prop, cname, sub = sys.argv[1], sys.argv[2], sys.argv[3]
    mod = importlib.import_module("contracts.%s" % prop)
    if hasattr(mod, "build_suite"):
        suite, cs = mod.build_suite()
    else:
        suite, cs = mod.SUITE, mod.CONTRACTS
    c = [x for x in cs if x.name == cname][0]
    ex, inputs, obs = gen_obligations(suite, c)
    for o in obs:
        if sub in o.name:
            r = solve(ex, o, 10000)
            print(o.name, r, o.time_s)
            if len(sys.argv) > 4:
                print("PC:")
                for p in o.pc: print("   ", z3.simplify(p))
                print("GOAL:", z3.simplify(o.goal))
                if o.model is not None:
                    print("MODEL:", o.model)
main()
