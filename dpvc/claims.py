"""Claims per property (kept next to the registry so MANIFEST.json can be regenerated
with `python3-vt -m dpvc.manifest_gen`)."""
from .registry import claim  # noqa: F401

T1 = "contract-based deductive verification: VCs generated from the AST of the real /repo functions against sidecar contracts, discharged by z3"
T2 = "run-time contracts on the real functions over an exhaustive small scope (bounded stand-in, never counted as proved)"

claim("C01", "proof", T1 + " (bit masks as sets of naturals; heap theory B with object allocation for the traversal loop; Lean 4 + Mathlib for the structural induction); " + T2,
      "Proved for all integers of every width (T1): bitmask normalisation, lowest set bit, triviality / compatibility / nesting predicates, "
      "compile_{tree_leafset,leafset,split}_bitmask (split = leafset when rooted, = leafset normalised on the lowest tree bit when unrooted) with frames. "
      "Proved for all heaps (T1): at the exit of the traversal loop of Tree.encode_bipartitions every visited edge has a Bipartition object of its own whose leaf-set mask "
      "satisfies the local clade equation (leaf: its taxon's bit; internal: the union of its children's masks). Lean: those equations have exactly one solution -- "
      "mask = taxon bits of the leaves below -- so equal trees get equal encodings, and masking with the root's mask changes nothing. "
      "Bounded (T2): whole-tree exactness end to end, the iff with topology, reconstruction from any ordering.",
      "ASSUMED for the loop: postorder_edge_iter yields every edge once, children before parents (C15), tree well-formedness (C03), leaf taxa are namespace members (C11), "
      "suppress_unifurcations / collapse_basal_bifurcation re-establish that; the per-edge compile phase after the loop is joined to it only by the bounded driver; "
      "the splits-equivalence theorem is not re-proved",
      "DESIGN.md section 5 C01, section 9")
claim("C02", "proof", T1 + " (character-class theory + exhaustive code-point enumeration; forwarding obligations on the AST for the write glue); " + T2,
      "Proved (T1): for every code point, each tree writer's protect class covers every character NexusTokenizer treats specially (both regexes and the "
      "tokenizer sets extracted from the AST each run; cross-checked on all 1,114,112 code points); the writer's rooting token and the reader's "
      "rooting interpretation are inverse tables; the write side up to the writer (AST obligations): as_string / write(file=) / write(path=) hand the caller's schema and "
      "options, untouched, to one writer made for that schema; a tree list gives it itself, a tree a new list over the tree's own namespace holding exactly that tree (not a "
      "copy, not migrated), and the caller's destination; as_string returns the whole buffer, a path is opened for writing (not appending) and closed. "
      "Bounded (T2): the full write/read round trip.",
      "tokenizer/parser state machines and xml.etree are not proved; the round trip itself is bounded",
      "DESIGN.md section 5 C02")
claim("C16", "proof", "contract-based frame verification by a modular effect analysis of the real AST; region contract on the Fitch loop of fitch_down_pass "
      "(VCs generated from the real AST, z3: sets as arrays, loop invariant); Lean 4 + Mathlib theorem for optimality; " + T2,
      "Proved (T1, effects): parsimony_score reaches no read/write of the node-attribute state-set cache with the arguments it passes "
      "(purity frame: the score depends only on tree and matrix). Proved (T1, z3): the loop of fitch_down_pass that combines two children's state-set lists "
      "yields, per character, the intersection if non-empty else the union, adds exactly the weight of each character whose sets are disjoint to the score and "
      "to the per-character list (so the per-character scores add up to the total), never indexes out of range and leaves its inputs alone. Proved (Lean): "
      "that rule applied at every internal node of a fully bifurcating tree gives the minimum number of changes over all assignments of states to nodes "
      "(ambiguous cells resolved freely), independent of child order. Bounded (T2): the glue between the two (one application per internal node, children first, "
      "leaf sets from the matrix), minimality end-to-end against a brute-force minimum, rooting invariance, history independence.",
      "callees resolved by name inside dendropy.model.parsimony; Python set/list semantics of the region as stated in contracts/C16fitch.py; the glue between the "
      "region contract and the Lean theorem is not proved; characters independent, weights >= 0",
      "DESIGN.md section 5 C16")
claim("C18", "proof", "contract-based frame verification by a modular effect analysis of the real AST (no solver); " + T2,
      "Proved (T1, effects): every simulator named by the property, and transitively every callee declaring an rng parameter, draws only from "
      "its rng argument (E1 GLOBAL_RNG only as default, E2 no module-level random.*, E3 rng forwarded at every call). Bounded (T2): exact N tips, "
      "bifurcating, ultrametric, containment, run-to-run equality over seeds.",
      "callees resolved by name over the indexed dendropy modules; distributional correctness is out of scope",
      "DESIGN.md section 5 C18")
claim("C20", "proof", T1 + " (token-stream ghost state; lenient abstraction of non-token code); " + T2,
      "Proved (T1): every while loop of the NEXUS reader and NexusTokenizer.skip_to_semicolon makes progress on the measure "
      "(tokens left) + (0 if eof else 1) -- no input can hang them; the NEWICK recursive descent (NewickReader._parse_tree_statement, "
      "_parse_tree_node_description incl. its unbounded `for count in it.count()` loop, tree_iter, the one-tree-at-a-time iterators of both formats) makes "
      "progress in every loop and recurses only on a strictly smaller measure, and a statement is completed / a tree returned only after a "
      "token was consumed; one level down, the tokenizer itself (Tokenizer.__next__ with its recursive call, _skip_to_significant_char, _handle_comment, "
      "next_token, require_next_token) returns or raises on every character stream for every configuration of its delimiter sets; "
      "no method is called on a token that may be None; every raise statement of the "
      "reader modules is of the DataParseError family. Bounded (T2): every truncation and single edit of valid documents, all four formats.",
      "the FUNCTIONAL contracts of the tokenizer primitives (which token comes next; constructor, is_eof, comment pulls) are ASSUMED and validated at run time, "
      "their termination is proved; the character stream (src.read(1)) is an ASSUMED contract; "
      "non-token code is abstracted (assumed to terminate and to raise only parse errors -- four internal errors found there by the bounded part "
      "were repaired); well-founded recursion is the mathematical statement, Python's recursion limit (recorded finding) and the PHYLIP/FASTA "
      "readers are bounded only",
      "DESIGN.md section 5 C20")

claim("C03", "proof", T1 + " (theory B: exact reference lists + ghost position/owner maps); " + T2,
      "Proved (T1, all heaps satisfying the stated list invariants): exact state-transformer contracts of Node.add_child, insert_child, "
      "remove_child (plain removal), _set_parent_node, Edge._set_tail_node/_get_tail_node, clear_child_nodes; Edge.invert (tail a parentless node, as "
      "Tree.reseed_at calls it) and Edge.collapse (loop invariant: children spliced in place, siblings shifted); on top of them Node.new_child / insert_new_child (the "
      "child is a newly allocated node, listed once at the stated position, with self as parent) and Node.set_child_nodes for any iterable of nodes (exactly the nodes "
      "given are children, each once, each with self as parent), each with frames and native "
      "run-time validation on every forest with <= 4 leaves. Bounded (T2): every history of <= 3 operations from every small tree, acyclicity, "
      "reachability, leaf-taxon multisets, bipartition freshness.",
      "acyclicity/reachability are not modelled at T1; Node.__init__ is an ASSUMED allocation contract; composite operations (reseed_at, prune, suppress_unifurcations, encode) are bounded only",
      "DESIGN.md section 5 C03")
claim("C04", "proof", T1 + " (sets of split masks; default-argument and staleness obligations; Lean 4 + Mathlib metric lemmas); " + T2,
      "Proved (T1): false_positives_and_negatives returns (|S_cmp - S_ref|, |S_ref - S_cmp|) over the encodings current AFTER the re-encoding it performs "
      "(both trees unless is_bipartitions_updated; default False: never a stale encoding), refuses different namespaces; symmetric_difference = fp + fn and its aliases; "
      "Lean: RF is the cardinality of the symmetric difference, zero iff equal split sets, symmetric, triangular; wRF / Euclidean are L1 / L2 distances of the "
      "length vectors (symmetric, triangular); every distance function hands the caller's is_bipartitions_updated to the function that acts on it UNCHANGED "
      "(one AST obligation per call site: a negated, constant or dropped flag would make a distance read encodings cached before a modification). "
      "Bounded (T2): values of all four distances against the split-set definitions on all pairs/triples of small trees, "
      "definedness symmetry, edit-then-distance histories.",
      "card() of a finite set is an uninterpreted function with the Lean lemmas as its theory; the weighted distances' code (length vectors from bipartition_edge_map) is bounded only; "
      "one recorded known finding (two-leaf unrooted trees)",
      "DESIGN.md section 5 C04, section 9")
claim("C05", "proof", T1 + " (dictionaries as maps incl. collections.defaultdict, for-over-dict loops with a ghost set of visited keys, reals for floats); " + T2,
      "Proved (T1, first sentence of the property): the SplitDistribution accumulator -- add_split_count, count_splits_on_tree (every split of the tree's encoding gains the tree's "
      "weight, 1.0 when weights are absent or unused; one tree counted; no other split changes), update (pointwise sum of counts and totals), calc_normalization_weight, "
      "calc_freqs (table has exactly the counted splits, each count / total weight), _get_split_frequencies (never stale), __getitem__ (0.0 for a split in no tree); "
      "the two summary tables (edge lengths, node ages) are never served stale: their getters return a table computed from the trees counted NOW, under a cache-protocol "
      "invariant (one shared staleness counter) that counting, merging and the frequency functions preserve; on every summary route of treecollectionmodel / treesum "
      "the caller's is_bipartitions_updated reaches count_splits_on_tree unchanged (AST obligation per call site: a summary never trusts an encoding the caller did not vouch for); use_tree_weights reaches the distribution that weighs the trees from every "
      "function and class of treecollectionmodel / treesum / sumtrees that accepts it, and TreeList._get_tree_array hands every option of TreeArray.from_tree_list on under its own name. "
      "Bounded (T2): consensus all-and-only / maximal-greedy, spanning, rooting, support / length / age summaries (also after incremental filling), collapse, maximum credibility.",
      "ASSUMED contract: Tree.encode_bipartitions lists every split once (C01; fails exactly on the recorded finding C05-two-leaf-unrooted); floats are reals; with zero trees "
      "counted the table holds 1.0 (taken from the code: the fraction is undefined); the CONTENT of the summary tables is abstracted (calc_* recompute from every value list: "
      "ASSUMED, with the frame 'assigns nothing but its own table' checked on the real bodies); consensus construction (Tree.from_split_bitmasks), summarisation and scores are bounded only",
      "DESIGN.md section 5 C05, section 9")
claim("C06", "proof", T1 + " (lists modelled by their length; the summary as maps; Lean 4 + Mathlib merge lemmas); " + T2,
      "Proved (T1): TreeArray.update/extend/__iadd__ keep the four per-tree lists equally long, grow them by the stated amount, never refuse arrays compatible in the property's "
      "sense (equal settings; equal rooting or one side empty with undefined rooting), and merge the summaries componentwise (per-split counts, tree and weight totals added: "
      "SplitDistribution.update under contract) while the ARGUMENT keeps its trees and its summary; a + b is a new collection holding both operands' trees and the sum of their "
      "summaries, the operands unchanged, built under the operands' age settings (forcing option and tip ages reach every collection a collection builds: AST obligation per "
      "site); add_tree/append/insert/validate_rooting keep alignment; no two collections ever share a per-tree list object (ownership, on the AST "
      "of the whole class); the SumTrees worker/collation code never takes a polled 'empty' for 'no work left'. Lean: componentwise addition makes the merged view independent of "
      "arrival order, of the partition into sub-collections, and of empty sub-collections. Bounded (T2): every partition/arrival order/interleaving end to end, content "
      "alignment, SumTrees collation loop with fake queues, CLI smoke.",
      "list CONTENTS and the per-split edge-length / node-age lists are abstracted at T1 (bounded); TreeArray.__init__ is an ASSUMED allocation contract; OS scheduling is out of "
      "reach, multiprocessing.Queue is ASSUMED to its documented contract",
      "DESIGN.md section 5 C06, section 9")
claim("C07", "proof", T1 + " (theory B for Edge.invert; constant-propagated store closure for the rooting flag); " + T2,
      "Proved (T1): Edge.invert -- the only structural step of a re-seeding chain -- moves the head out of the tail's child list, appends the tail to the head's, leaves every other "
      "list alone and exchanges the two edge lengths (undirected adjacency and its length labelling preserved); soft operations (reseed_at, to_outgroup_position, "
      "randomly_reorient, randomly_rotate, ladderize, reorder) reach no store to the rooting flag, hard operations (reroot_at_node/edge/midpoint) store True on every normal path "
      "with no later store. Bounded (T2, deciding for the rest): leaf set, unrooted splits, total length, all path sums, midpoint equidistance incl. midpoint on a node, "
      "edge-root distances, outgroup first, over all shapes <= 5 leaves x 12 length patterns x every target.",
      "the composition of inversions inside reseed_at / the basal-bifurcation collapse / midpoint search are bounded only; floating-point rounding tolerated as the statement says",
      "DESIGN.md section 5 C07, section 9")
claim("C08", "exploration", T2 + "; wrapper contracts (argument forwarding, filter predicates, complement) by AST effect analysis + z3",
      "Bounded (deciding): every tree <= 5 leaves x every non-empty taxon subset x both flags: induced-subtree clades, merged lengths, path sums, six API variants agree, "
      "source unchanged, extraction_source, removed-node reports. T1: each extract/prune/retain wrapper forwards every shared parameter and builds the stated filter.",
      "the induced-subtree clause itself is bounded only", "DESIGN.md section 5 C08")
claim("C09", "exploration", T2 + "; a small T1 part (AST obligations, no solver) for the glue around the writers and readers",
      "Bounded (deciding): 8 data types x construction routes x dimensions x 11-15 target variants, special labels, multi-namespace data sets, random matrices. "
      "Discharged on the AST (T1, glue clause only, not what the level is claimed for): as_string / write(file=) / write(path=) hand the caller's schema and options, "
      "untouched, to one writer made for that schema, which is given exactly [self] (or the data set with the two exclusion flags) and the caller's destination; as_string "
      "returns the whole buffer; CharacterMatrix.get forces the class's own data type into the reader options, reads the caller's stream, and returns the matrix at the "
      "offset asked for (default 0) or refuses one of another data type.",
      "writers/readers and xml.etree are outside contract reach (DESIGN.md section 6); two recorded known findings; open()/StringIO and dataio.get_writer/get_reader ASSUMED as documented",
      "DESIGN.md section 5 C09")
claim("C10", "proof", T1 + " (dictionaries as maps; quantified representation invariant); " + T2,
      "Proved (T1): add_taxon, remove_taxon, clear, sort, reverse, taxon_bitmask, accession_index, all_taxa_bitmask preserve the namespace invariant NS, never change the "
      "index/bit of a remaining member, and give a new member a fresh index >= the old counter (no reuse, no sharing); every label-lookup method hands the call's "
      "is_case_sensitive to the one function that matches labels (AST obligation per call site). Bounded (T2): every history of <= 2 (thorough 3) "
      "operations over duplicate/case-variant labels, bitmask<->taxa round trips, renderings, lookups, copies.",
      "the member list is modelled by its length at T1; label lookups, textual renderings and copies are bounded only", "DESIGN.md section 5 C10")
claim("C11", "proof", T1 + " (dictionaries as maps, loops over dictionaries and over key snapshots, reference lists for the nodes a tree iterates over); " + T2,
      "Proved (T1, closure clause): CharacterMatrix.new_sequence / __setitem__ refuse a taxon outside the namespace and keep every sequence keyed by a member; "
      "CharacterMatrix.update_taxon_namespace / reconstruct_taxon_namespace / migrate_taxon_namespace establish that (also for replacements named by the caller's memo); "
      "Tree.update_taxon_namespace / reconstruct_taxon_namespace / migrate_taxon_namespace leave every node on no taxon or a member of the tree's namespace; "
      "TreeList._import_tree_to_taxon_namespace / append / insert: the tree ends up referring to the list's namespace object and closed over it, for both import strategies "
      "and whatever **kwargs carry. Bounded (T2, deciding for the rest): every history of <= 2 (thorough 3) container operations on TreeList / CharacterMatrix / DataSet / "
      "TreeArray: label<->taxon functional and injective, nothing dropped or duplicated, sources untouched, documented refusals.",
      "the callee contracts of TaxonNamespace.add_taxon / new_taxon / require_taxon / get_taxon are PROVED too (contracts/C11ns.py: same ensures texts, real bodies incl. the "
      "label look-up loops) under the representation invariant 'every listed taxon is a key of the accession map', preserved by them and by clear(); that every reachable namespace "
      "satisfies it (remove_taxon, sort, reverse, constructors, copies are not under contract) is validated natively over every sequence of <= 3 namespace operations; "
      "`for nd in tree` visits the ghost list g_nodes (every node once: C15, bounded-exhaustive there); "
      "list-wide closure of the other trees of a TreeList, label clauses, DataSet and TreeArray are bounded only",
      "DESIGN.md section 5 C11, section 9")
claim("C12", "exploration", T2 + "; a small T1 part (dispatch on the AST; the deepcopy memo of a scoped copy as a dictionary held in a parameter, z3)",
      "Bounded (deciding): every copy route x shapes <= 4 (thorough 5) x decorations: canonical-dump equality, heap separation by walking __dict__/containers, mutation battery both ways, "
      "bound annotations follow the copy. Discharged (T1, not what the level is claimed for): clone(0/1/2) dispatch to copy.copy / taxon_namespace_scoped_copy / copy.deepcopy and "
      "anything else raises TypeError; the scoped copies of Tree, TreeList and CharacterMatrix fill a fresh memo from their own namespace and copy with that memo; "
      "populate_memo_for_taxon_namespace_scoped_copy enters the namespace and EVERY taxon as standing for itself and keeps the other entries.",
      "copy.copy / copy.deepcopy are stdlib/C, ASSUMED to their documented contracts (memo semantics); id() injective on live objects", "DESIGN.md section 5 C12")
claim("C13", "exploration", T2 + "; a small T1 part (AST obligations, no solver) for the source-kind clause and the glue of four routes (whole list with offsets, single tree by offsets, incremental read, full data set)",
      "Bounded (deciding): generated corpus (<= 2 TREES blocks x <= 3 statements x TRANSLATE/comments/weights/rooting tokens) in Newick/NEXUS/NeXML, CR / CR+LF variants, "
      "character documents: every reading route against TreeList.get / DataSet.get. Discharged on the AST (T1, source-kind clause only, not what the level is claimed for): "
      "get_from_/read_from_ stream, path and string reach one stream function per class family with the same schema and keyword arguments, and a path and a string are both "
      "read through universal-newlines text streams; Tree.get makes its reader for the caller's schema and options, reads the caller's stream, takes an offset as 0 exactly when "
      "it is not given and returns tree_lists[collection_offset][tree_offset] with only the label set; TreeList.read delegates once to the whole-list route with the caller's "
      "stream, schema, offsets and options plus tree_list=self over its own namespace, refuses a foreign namespace, and returns the growth of the list; the whole-list route takes only tree_list / label / namespace keywords out of the options, selects "
      "tree_lists[collection_offset] (the first collection for a tree offset alone) and appends every tree from the offset on, in order; DataSet.get / DataSet.read make one unconditional read_dataset call with the caller's stream, exclusion flags "
      "(False by default) and namespace (the attached one when none is given; another refused), and read returns the growth of the three lists.",
      "relates whole parsers (DESIGN.md section 6); one recorded known finding; open()/StringIO line-end translation ASSUMED as documented", "DESIGN.md section 5 C13")
claim("C14", "proof", T1 + " (heap theory B, bit masks as sets, Python iterators as (list snapshot, position), the **kwargs dictionary with literal keys); " + T2,
      "Proved (T1, MRCA clause): for tree.mrca(leafset_bitmask=q, is_bipartitions_updated=True) on an encoded tree the result is None exactly when q is not contained in the "
      "seed node's mask; otherwise the returned node's mask contains q and no child of it does (the deepest node over the taxa), on each of the three ways the search loop "
      "returns (exact match after stepping down unifurcations, partial overlap, iterator exhausted); patristic_distance hands its is_bipartitions_updated to mrca unchanged, and every function of the distance matrix hands is_weighted_edge_distances / "
      "is_normalize_by_tree_size unchanged to the one it delegates to (AST, one obligation per call site). "
      "Bounded (T2, deciding for the rest): path sums, edge counts and turning nodes for "
      "every pair, mrca through taxa / labels and the distance matrix, MPD / MNTD, NJ on additive and UPGMA on ultrametric matrices, CSV round trip.",
      "ASSUMED (requires): the encoding facts -- an internal mask is the union of its children's (C01), sibling masks disjoint, no empty mask (every leaf carries a taxon), tree "
      "well-formedness (C03); 'a child of a multifurcation never carries its parent's whole mask' is derived from them by a z3 lemma obligation with one instantiation hint; "
      "the other call shapes (taxa=, taxon_labels=, start_node=) are bounded only",
      "DESIGN.md section 5 C14, section 9")
claim("C15", "exploration", T2 + " (exhaustive small scope); filter-composition lambdas proved equivalent to their definition by z3 over atoms read off the AST",
      "Bounded, exhaustive (deciding): every ordered tree with <= 9 (thorough 11) nodes x every start node x 7 filters x every iterator of Tree and Node against recursive "
      "reference definitions; apply() bracket words. T1: internal-node / internal-edge / leaf filter lambdas == (non-leaf and (seed allowed or has parent) and user filter).",
      "visit ORDER of the stack generators needs induction over recursive sequence functions (DESIGN.md section 6): bounded only", "DESIGN.md section 5 C15")
claim("C17", "proof", T1 + " (heap theory B with a traversal view, reals for floats, list slices, try/except TypeError); " + T2,
      "Proved (T1, ages and the ultrametricity verdict): at a normal return of Tree.calc_node_ages (no forcing, no caller-supplied age function) every leaf has age 0.0, every internal "
      "node has the age of its first child plus that child's edge length (a missing length counts 0), and when the check is on (precision a non-negative number) every other child "
      "gives the same age to within the precision; when UltrametricityError is raised some node's children disagree by more than the precision -- never otherwise, and no other "
      "exception escapes. Proved (T1, AST, \"the given precision\"): every function or class of the library that accepts an ultrametricity precision (parameter, "
      "constructor attribute or **kwargs key) hands an expression reading it to every precision-taking callable it calls (calc_node_ages, node_ages, internal_node_ages, "
      "the coalescent frame functions, pybus_harvey_gamma, SplitDistribution / TreeArray / ... constructors): one obligation per call site. "
      "Bounded (T2, deciding for the rest): ages equal distances to the tips, depths, set_edge_lengths_from_node_ages, num_lineages_at, forcing options, "
      "both sides of every precision natively, every statistic x normalisation against independent definitions, child-order invariance.",
      "ASSUMED: postorder_node_iter yields every node once, children before parents (C15); tree well-formedness (C03); floats are reals; forcing options, set_node_age_fn, "
      "the statistics of treemeasure are bounded only",
      "DESIGN.md section 5 C17, section 9")
claim("C19", "proof", T1 + " (dictionaries as maps with object allocation for the row algebra; loop measures over length-modelled lists, guard-progress effect scan, Lean 4 + Mathlib lemma for termination); " + T2,
      "Proved (T1, row-set algebra): for distinct matrices over one namespace object add_sequences / replace_sequences / update_sequences / extend_sequences / extend_matrix leave "
      "exactly the rows the statement names, an existing row keeps its very sequence object (growing by the argument's row length where the method extends), a new or replaced row is a "
      "NEW object of the argument's row length sharing nothing with the argument, the argument keeps its rows, objects and lengths, rows never share a sequence object, and "
      "TaxonNamespaceIdentityError is raised exactly when the namespaces are different objects; CharacterDataSequence.__init__ / extend lengths. "
      "Proved (T1, termination): set_at; every while loop of charmatrixmodel.py can change its guard or leave; the concatenate label loop (step + frame obligations, "
      "Lean lemma injective_escapes_finite). Proved (T1, removals): remove_sequences / discard_sequences leave exactly the rows not named and keep_sequences exactly the rows named "
      "(any iterable of taxa, absent and repeated taxa included), every remaining row keeps its sequence object and length; discard_sequences never raises; "
      "pack passes value, size and append on to fill. "
      "Bounded (T2): cell contents, padding (fill/pack), column selection, concatenation, the self-as-argument case, wall-clock guards.",
      "a sequence is modelled by the length of its value list; `self.__class__.character_sequence_type` is read as a CharacterDataSequence class (AST obligation over every assignment); "
      "guard-progress is a necessary condition only; injectivity of the '%s_%03d' label format in the counter is an arithmetic assumption", "DESIGN.md section 5 C19, section 9")
