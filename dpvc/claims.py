"""Claims per property (kept next to the registry so MANIFEST.json can be regenerated
with `python3-vt -m dpvc.manifest_gen`)."""
from .registry import claim  # noqa: F401

T1 = "contract-based deductive verification: VCs generated from the AST of the real /repo functions against sidecar contracts, discharged by z3"
T2 = "run-time contracts on the real functions over an exhaustive small scope (bounded stand-in, never counted as proved)"

claim("C01", "proof", T1 + "; " + T2,
      "Proved for all integers of every width (T1): bitmask normalisation, lowest set bit, triviality / compatibility / nesting predicates, "
      "compile_{tree_leafset,leafset,split}_bitmask (split = leafset when rooted, = leafset normalised on the lowest tree bit when unrooted) with frames. "
      "Bounded (T2): whole-tree exactness of encode_bipartitions, the iff with topology, reconstruction from any ordering.",
      "bit masks modelled exactly as sets of naturals (Array Int Bool); sidecar types are preconditions; the splits-equivalence theorem is not re-proved; "
      "encode loop / reconstruction are bounded only",
      "DESIGN.md section 5 C01")
claim("C02", "proof", T1 + " (character-class theory + exhaustive code-point enumeration); " + T2,
      "Proved (T1): for every code point, each tree writer's protect class covers every character NexusTokenizer treats specially (both regexes and the "
      "tokenizer sets extracted from the AST each run; cross-checked on all 1,114,112 code points); the writer's rooting token and the reader's "
      "rooting interpretation are inverse tables. Bounded (T2): the full write/read round trip.",
      "tokenizer/parser state machines and xml.etree are not proved; the round trip itself is bounded",
      "DESIGN.md section 5 C02")
claim("C16", "proof", "contract-based frame verification by a modular effect analysis of the real AST (no solver); " + T2,
      "Proved (T1, effects): parsimony_score reaches no read/write of the node-attribute state-set cache with the arguments it passes "
      "(purity frame: the score depends only on tree and matrix). Bounded (T2): minimality against a brute-force minimum, per-character sums, "
      "rooting/child-order invariance, history independence.",
      "callees resolved by name inside dendropy.model.parsimony; Fitch optimality (Hartigan) not re-proved",
      "DESIGN.md section 5 C16")
claim("C18", "proof", "contract-based frame verification by a modular effect analysis of the real AST (no solver); " + T2,
      "Proved (T1, effects): every simulator named by the property, and transitively every callee declaring an rng parameter, draws only from "
      "its rng argument (E1 GLOBAL_RNG only as default, E2 no module-level random.*, E3 rng forwarded at every call). Bounded (T2): exact N tips, "
      "bifurcating, ultrametric, containment, run-to-run equality over seeds.",
      "callees resolved by name over the indexed dendropy modules; distributional correctness is out of scope",
      "DESIGN.md section 5 C18")
claim("C20", "proof", T1 + " (token-stream ghost state; lenient abstraction of non-token code); " + T2,
      "Proved (T1): every while loop of the NEXUS reader and NexusTokenizer.skip_to_semicolon makes progress on the measure "
      "(tokens left) + (0 if eof else 1) -- no input can hang them; no method is called on a token that may be None; every raise statement of the "
      "reader modules is of the DataParseError family. Bounded (T2): every truncation and single edit of valid documents, all four formats.",
      "tokenizer primitives (next_token*, require_next_token*, is_eof) are ASSUMED contracts validated at run time; non-token code is abstracted "
      "(assumed to terminate and to raise only parse errors); Newick recursive descent, PHYLIP/FASTA readers and recursion depth are bounded only",
      "DESIGN.md section 5 C20")
