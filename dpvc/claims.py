"""Claims per property (kept next to the registry so MANIFEST.json can be regenerated)."""
from .registry import claim  # noqa: F401
