"""Claims per property (kept next to the registry so MANIFEST.json can be regenerated)."""
from .registry import claim  # noqa: F401

claim("C01", "proof",
      "contract-based deductive verification: z3 VCs from the AST of the real functions against sidecar contracts",
      "T1 (proved for all integers of every width): bitmask normalisation, lowest-bit, triviality/compatibility/nesting predicates. T2 (bounded).",
      "bit masks modelled exactly as sets of naturals; sidecar types; see evidence.assumptions",
      "DESIGN.md section 5 C01")
