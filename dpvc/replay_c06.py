"""Native replay for TreeArray contracts: real TreeArray objects are built for small
(length, rooting, settings) combinations, the real method is called, and the alignment
invariant is checked by reading the four lists and by calling a per-tree query."""
import itertools


def _mk(n, rooting, explicit, settings, ns):
    import dendropy
    kw = dict(taxon_namespace=ns, ignore_edge_lengths=settings[0], ignore_node_ages=settings[1], use_tree_weights=settings[2])
    if explicit:
        kw["is_rooted_trees"] = rooting
    ta = dendropy.TreeArray(**kw)
    for i in range(n):
        t = dendropy.Tree.get(data="%s((A:1,B:1):1,(C:1,D:1):1);" % ("[&R] " if rooting else "[&U] "), schema="newick", taxon_namespace=ns)
        ta.add_tree(t)
    return ta


def _aligned(ta):
    ls = [len(ta._tree_split_bitmasks), len(ta._tree_edge_lengths), len(ta._tree_leafset_bitmasks), len(ta._tree_weights)]
    return len(set(ls)) == 1, ls


def _compatible(a, b):
    same = (a.ignore_edge_lengths is b.ignore_edge_lengths and a.ignore_node_ages is b.ignore_node_ages and a.use_tree_weights is b.use_tree_weights)
    return same and (a._is_rooted_trees is b._is_rooted_trees or (len(b) == 0 and b._is_rooted_trees is None) or len(a) == 0)


def search(method):
    """smallest failing (self, other) configuration for update / extend / __iadd__"""
    import dendropy
    st = (True, True, True)
    for na, nb in itertools.product((0, 1, 2), (0, 1, 2)):
        for ra, rb in itertools.product((True, False), repeat=2):
            for ea, eb in itertools.product((True, False), repeat=2):
                ns = dendropy.TaxonNamespace(["A", "B", "C", "D"])
                a = _mk(na, ra, ea or na > 0, st, ns)
                b = _mk(nb, rb, eb or nb > 0, st, ns)
                if not ea and na == 0:
                    a = dendropy.TreeArray(taxon_namespace=ns, ignore_edge_lengths=True, ignore_node_ages=True, use_tree_weights=True)
                if not eb and nb == 0:
                    b = dendropy.TreeArray(taxon_namespace=ns, ignore_edge_lengths=True, ignore_node_ages=True, use_tree_weights=True)
                desc = "self: %d trees rooting=%r; other: %d trees rooting=%r" % (len(a), a._is_rooted_trees, len(b), b._is_rooted_trees)
                if method == "update":
                    if not _compatible(a, b):
                        continue
                elif not (a._is_rooted_trees is b._is_rooted_trees or (len(b) == 0 and b._is_rooted_trees is None)
                          or (len(a) == 0 and a._is_rooted_trees is None)):
                    continue
                sa, sb = a._split_distribution, b._split_distribution
                ca, cb = dict(sa.split_counts), dict(sb.split_counts)
                ta_, tb_ = (sa.total_trees_counted, sa.sum_of_tree_weights), (sb.total_trees_counted, sb.sum_of_tree_weights)
                if method == "__add__":
                    la, lb = len(a), len(b)
                    try:
                        r = a + b
                    except Exception as e:
                        return desc, "raised %s: %s" % (type(e).__name__, str(e)[:100])
                    ok, ls = _aligned(r)
                    if r is a or r is b or not ok or len(r) != la + lb:
                        return desc, "a + b: result is an operand / has parallel lists %s for %d + %d trees" % (ls, la, lb)
                    if len(a) != la or len(b) != lb or not _aligned(a)[0] or not _aligned(b)[0]:
                        return desc, "a + b changed an operand: %d -> %d and %d -> %d trees" % (la, len(a), lb, len(b))
                    if dict(a._split_distribution.split_counts) != ca or dict(b._split_distribution.split_counts) != cb:
                        return desc, "a + b changed the split counts of an operand"
                    now = dict(r._split_distribution.split_counts)
                    for k in set(ca) | set(cb) | set(now):
                        if now.get(k, 0.0) != ca.get(k, 0.0) + cb.get(k, 0.0):
                            return desc, "a + b: count of split %s is %r, the operands held %r + %r" % (bin(k), now.get(k, 0.0), ca.get(k, 0.0), cb.get(k, 0.0))
                    # the operands are still independent of the result
                    r.add_tree(__import__("dendropy").Tree.get(data="%s((A:1,B:1):1,(C:1,D:1):1);" % ("[&R] " if r._is_rooted_trees else "[&U] "), schema="newick", taxon_namespace=ns))
                    if len(a) != la or len(b) != lb or not _aligned(a)[0] or not _aligned(b)[0]:
                        return desc, "adding a tree to a + b changed an operand: %s / %s" % (_aligned(a)[1], _aligned(b)[1])
                    continue
                try:
                    if method == "update":
                        a.update(b)
                    elif method == "extend":
                        a.extend(b)
                    else:
                        a += b
                except Exception as e:
                    return desc, "raised %s: %s" % (type(e).__name__, str(e)[:100])
                ok, ls = _aligned(a)
                if not ok:
                    return desc, "parallel lists have lengths %s after %s" % (ls, method)
                if len(a) != na + nb:
                    return desc, "len is %d, expected %d" % (len(a), na + nb)
                # the summary is the componentwise sum of the two summaries
                now = dict(a._split_distribution.split_counts)
                for k in set(ca) | set(cb) | set(now):
                    if now.get(k, 0.0) != ca.get(k, 0.0) + cb.get(k, 0.0):
                        return desc, "count of split %s is %r after %s, the two collections held %r + %r" % (
                            bin(k), now.get(k, 0.0), method, ca.get(k, 0.0), cb.get(k, 0.0))
                if a._split_distribution.total_trees_counted != ta_[0] + tb_[0]:
                    return desc, "total_trees_counted is %r after %s, expected %r" % (a._split_distribution.total_trees_counted, method, ta_[0] + tb_[0])
                if a._split_distribution.sum_of_tree_weights != ta_[1] + tb_[1]:
                    return desc, "sum_of_tree_weights is %r after %s, expected %r" % (a._split_distribution.sum_of_tree_weights, method, ta_[1] + tb_[1])
                try:
                    if len(a):
                        a.calculate_log_product_of_split_supports()
                except AssertionError as e:
                    return desc, "per-tree query raised AssertionError after %s" % method
    return None


def replay_treearray(ctx, suite, c, ob, witness, bv_widths):
    method = c.name.split(".")[-1]
    if method not in ("update", "extend", "__iadd__", "__add__"):
        return False
    r = search(method)
    if r is not None:
        desc, what = r
        ctx.obligation(ob.name, "refuted", "z3+native-replay", ob.time_s, c.target, detail="%s -> %s" % (desc, what))
        ctx.fail(ob.name, dict(key="TreeArray.%s|%s" % (method, desc), method=method, configuration=desc, outcome=what),
                 detail="TreeArray.%s with %s: %s" % (method, desc, what), kind="T1")
        return True
    return False


def replay_record(ctx, rec):
    w = rec.get("witness", {})
    m = w.get("method")
    if not m:
        print("no native configuration recorded")
        return True
    r = search(m)
    print(r or "TreeArray.%s holds on every small configuration" % m)
    return r is None
