"""./check <ID> [--tier quick|thorough] [--replay FILE] [--t1-only] [--t2-only]"""
import argparse
import importlib
import json
import os
import sys
import time
import traceback

from .ctx import Ctx, CheckerFailure, HERE
from . import registry


def _load(modname):
    try:
        return importlib.import_module(modname)
    except ModuleNotFoundError as e:
        if e.name == modname:
            return None
        raise


def main(argv=None):
    ap = argparse.ArgumentParser()
    ap.add_argument("prop")
    ap.add_argument("--tier", default=os.environ.get("VERIF_TIER", "quick"), choices=["quick", "thorough"])
    ap.add_argument("--replay", default=None)
    ap.add_argument("--t1-only", action="store_true")
    ap.add_argument("--t2-only", action="store_true")
    a = ap.parse_args(argv)
    seed = int(os.environ.get("VERIF_SEED", "0") or 0)
    prop = a.prop.upper()
    if prop not in registry.PROPS:
        print("unknown property %s" % prop)
        return 3
    ctx = Ctx(prop, a.tier, seed)
    for t in registry.COMMON_TRUSTED:
        ctx.trust(t)
    t1 = None if a.t2_only else _load("contracts.%s" % prop)
    t2 = None if a.t1_only else _load("bounded.%s" % prop)
    if a.replay:
        with open(a.replay) as f:
            rec = json.load(f)
        mod = t2 if rec.get("kind") == "T2" else t1
        fn = getattr(mod, "replay", None) if mod else None
        if fn is None and t2 is not None:
            fn = getattr(t2, "replay", None)
        if fn is None:
            print("no replay function for %s" % prop)
            return 3
        ok = fn(ctx, rec)
        print("REPLAY %s: %s" % (rec.get("obligation"), "property holds on this input" if ok else "violation reproduced"))
        return 0 if ok else 1
    try:
        # the two parts are independent: a crash of one (a checker failure, exit 3 unless a native violation is found) does not
        # stop the other from looking at the code
        if t1 is not None and not a.t2_only:
            try:
                t1.t1(ctx)
            except CheckerFailure as e:
                ctx.checker_failure(str(e))
            except Exception:
                traceback.print_exc()
                ctx.checker_failure("unhandled exception in the T1 part (not a property verdict)")
        if t2 is not None and not a.t1_only:
            t2.t2(ctx)
        if (t1 is None or a.t2_only) and (t2 is None or a.t1_only):
            ctx.checker_failure("nothing to run for %s" % prop)
        # vacuity guards
        if t1 is not None and not a.t2_only and len(ctx.obligations) == 0:
            ctx.checker_failure("zero T1 obligations generated for %s" % prop)
        if t2 is not None and not a.t1_only and sum(s["evaluations"] for s in ctx.scopes.values()) == 0:
            ctx.checker_failure("zero bounded evaluations for %s" % prop)
    except CheckerFailure as e:
        ctx.checker_failure(str(e))
    except Exception:
        traceback.print_exc()
        ctx.checker_failure("unhandled exception in the checker (not a property verdict)")
    if ctx.violations:
        agg = {}
        for v in ctx.violations:
            agg[v["name"]] = agg.get(v["name"], 0) + 1
        print("failing obligations/monitors (%d distinct):" % len(agg))
        for nm, k in sorted(agg.items(), key=lambda kv: -kv[1])[:60]:
            print("   %5d x %s" % (k, nm))
    ev = ctx.write_evidence(registry.PROPS[prop]["level"])
    code = ctx.exit_code()
    cov = ev["coverage"]
    print(
        "%s tier=%s level=%s T1 %d/%d obligations discharged (%s) in %.1fs solver; T2 %d evaluations, %d distinct; "
        "known-findings=%d violations=%d undecided=%d exit=%d wall=%.1fs"
        % (prop, a.tier, ev["level"], cov["discharged"], cov["obligations"],
           ",".join("%s:%d" % kv for kv in sorted(cov["by_backend"].items())), cov["solver_time_s"],
           cov["evaluations"], cov["distinct_nontrivial"], len(set(k["id"] for k in ctx.known_hits)),
           len(ctx.violations), len(ctx.undecided), code, ev["wall_s"])
    )
    return code


if __name__ == "__main__":
    sys.exit(main())
