"""Lemma layer (DESIGN.md 2.4): Lean 4 + Mathlib files under /verif/lemmas are re-checked by
`lean` on every run.  `sorry`/`axiom` in a lemma file is a checker failure."""
import os
import re
import subprocess
import time

from .ctx import HERE

MATHLIB = "/opt/veriftools/mathlib4"


def _lean_path():
    lib = os.path.join(MATHLIB, ".lake", "build", "lib", "lean")
    paths = [lib]
    pk = os.path.join(MATHLIB, ".lake", "packages")
    if os.path.isdir(pk):
        for d in sorted(os.listdir(pk)):
            p = os.path.join(pk, d, ".lake", "build", "lib", "lean")
            if os.path.isdir(p):
                paths.append(p)
            p2 = os.path.join(pk, d, ".lake", "build", "lib")
            if os.path.isdir(p2) and not os.path.isdir(p):
                paths.append(p2)
    return ":".join(paths)


def check_lemma(ctx, filename, theorems, hypotheses=None, timeout=600):
    path = os.path.join(HERE, "lemmas", filename)
    src = open(path).read()
    code = re.sub(r"/-.*?-/", "", src, flags=re.S)
    code = re.sub(r"--.*", "", code)
    if re.search(r"\bsorry\b", code) or re.search(r"^\s*axiom\b", code, flags=re.M):
        ctx.checker_failure("lemma file %s contains sorry/axiom" % filename)
        return False
    t0 = time.time()
    env = dict(os.environ)
    env["LEAN_PATH"] = _lean_path()
    try:
        r = subprocess.run(["lean", path], capture_output=True, text=True, timeout=timeout, env=env, cwd=MATHLIB)
        out = (r.stdout + r.stderr).strip()
        ok = r.returncode == 0 and "error" not in out
    except subprocess.TimeoutExpired:
        out = "timeout after %ds" % timeout
        ok = False
    dt = time.time() - t0
    for th in theorems:
        present = re.search(r"\b(theorem|lemma)\s+%s\b" % re.escape(th), code) is not None
        name = "lemma[%s:%s]" % (filename, th)
        if ok and present:
            ctx.obligation(name, "proved", "lean4+mathlib", dt / max(1, len(theorems)), "lemmas/" + filename)
        else:
            ctx.obligation(name, "unproved", "lean4+mathlib", dt / max(1, len(theorems)), "lemmas/" + filename, detail=out[:300] if not ok else "theorem not found")
            ctx.undecided_ob(name, out[:200] if not ok else "theorem not found in file")
        ctx.lemmas.append(dict(file="lemmas/" + filename, theorem=th, checked=bool(ok and present),
                               hypotheses_established_by=(hypotheses or {}).get(th)))
    return ok
