import json, os
from .registry import PROPS
from .ctx import HERE

BASE_OFF = ("cd /repo && env -u DENDROPY_VERIF /venv/bin/python -m pytest -ra -q -p no:cacheprovider --timeout=900 "
            "--continue-on-collection-errors")

def main():
    checks, na = [], []
    for pid in sorted(PROPS):
        p = PROPS[pid]
        if not p["claimed"]:
            na.append(dict(property_id=pid, reason=p["na_reason"]))
            continue
        checks.append(dict(
            property_id=pid,
            quick_cmd="./check %s --tier quick" % pid,
            thorough_cmd="./check %s --tier thorough" % pid,
            evidence_file="/verif/evidence/%s.json" % pid,
            replay_cmd_template="./check %s --replay {path}" % pid,
            engine="dpvc",
            level_claimed=dict(category=p["level"], text=p["text"], design_ref=p.get("design_ref", "DESIGN.md section 5")),
            level_note=p["note"],
            technique=p["technique"],
        ))
    m = dict(
        version=1,
        setup_cmd="./setup.sh",
        hooks=dict(guard="DENDROPY_VERIF", enable="no source hooks: contracts are sidecars under /verif/contracts and run-time monitors are monkey-patched inside the check process; checks import /repo/src directly",
                   baseline_off_cmd=BASE_OFF, source_commits=[], add_only=True),
        engines=[dict(name="dpvc", path="/verif/dpvc", serves_properties=[c["property_id"] for c in checks],
                      kind_free_text="contract-based deductive verification: VCs generated from the AST of the real /repo source against sidecar contracts, discharged by z3/cvc5 (+ Lean lemmas); run-time contracts over exhaustive small scopes as the labelled bounded stand-in")],
        checks=checks,
        notes="See DESIGN.md. Exit codes: 0 held, 1 VIOLATION, 2 undecided, 3 checker failure.",
        not_applicable=na,
    )
    with open(os.path.join(HERE, "MANIFEST.json"), "w") as f:
        json.dump(m, f, indent=1)
    print("MANIFEST.json: %d checks, %d not_applicable" % (len(checks), len(na)))

if __name__ == "__main__":
    main()
