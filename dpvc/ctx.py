"""Run context: collects obligations (T1), bounded evaluations (T2), violations,
known findings, and writes the evidence file.  Exit codes (DESIGN.md section 4):
0 held / 1 violation / 2 undecided / 3 checker failure."""
import json
import os
import sys
import time
import hashlib
import traceback

HERE = os.path.dirname(os.path.dirname(os.path.abspath(__file__)))
REPO = os.environ.get("DPVC_REPO", "/repo")
SRC = os.path.join(REPO, "src")


class CheckerFailure(Exception):
    """The machinery itself is broken (sentinel proved, executor/CPython
    disagreement, spurious counter-model).  Exit 3, never a VIOLATION."""


def _short(x, n=400):
    s = x if isinstance(x, str) else json.dumps(x, default=repr, sort_keys=True)
    return s if len(s) <= n else s[: n - 3] + "..."


class Ctx(object):
    def __init__(self, prop, tier="quick", seed=0):
        self.prop = prop
        self.tier = tier
        self.seed = seed
        self.t0 = time.time()
        # T1
        self.obligations = []  # dict(name, function, backend, status, time_s, detail)
        self.functions_under_contract = []
        self.functions_out_of_subset = []
        self.dropped_statements = []
        self.sentinels = []  # (name, ok)
        self.crosscheck_inputs = 0
        self.assumptions = []
        self.trusted = []
        self.lemmas = []
        # T2
        self.scopes = {}  # scope name -> dict(evaluations, nontrivial:set, samples, exhaustive, rule)
        # outcomes
        self.violations = []  # dict(name, witness, replay)
        self.known_hits = []
        self.undecided = []
        self.checker_failures = []
        self.notes = []
        self._known = self._load_known()
        self._printed = set()

    # ------------------------------------------------------------------ known findings
    def _load_known(self):
        p = os.path.join(HERE, "known_findings.json")
        if not os.path.exists(p):
            return []
        with open(p) as f:
            data = json.load(f)
        return [e for e in data.get("findings", []) if e.get("property") == self.prop and e.get("status") == "known"]

    def _match_known(self, name, witness_key):
        for e in self._known:
            if e.get("check") != name:
                continue
            ws = e.get("witnesses")
            rx = e.get("key_regex")
            if ws is not None:
                if witness_key in ws:
                    return e
                continue
            if rx is not None:
                # a finding identified by the class of inputs that fail (construction route / call
                # site encoded in the canonical witness key); other witnesses of the same monitor
                # are still reported
                import re
                if re.search(rx, str(witness_key)):
                    return e
                continue
            if e.get("site"):
                return e
        return None

    # ------------------------------------------------------------------ T1
    def add_function(self, target):
        if target not in self.functions_under_contract:
            self.functions_under_contract.append(target)

    def obligation(self, name, status, backend="z3", time_s=0.0, function=None, detail=None):
        """status: proved | refuted | unproved | unsupported"""
        self.obligations.append(
            dict(name=name, status=status, backend=backend, time_s=round(time_s, 4), function=function, detail=detail)
        )

    def sentinel(self, name, ok):
        self.sentinels.append((name, bool(ok)))
        if not ok:
            self.checker_failure("sentinel %s was 'proved': the verifier would accept anything here" % name)

    def assume(self, text):
        if text not in self.assumptions:
            self.assumptions.append(text)

    def trust(self, text):
        if text not in self.trusted:
            self.trusted.append(text)

    # ------------------------------------------------------------------ T2
    def scope(self, name, rule, exhaustive=False):
        s = self.scopes.setdefault(
            name, dict(evaluations=0, nontrivial=set(), samples=[], exhaustive=exhaustive, rule=rule)
        )
        return s

    def case(self, scope, key, nontrivial=True, sample=None):
        s = self.scopes[scope]
        s["evaluations"] += 1
        if nontrivial:
            k = key if isinstance(key, str) else repr(key)
            if len(k) > 64:
                k = hashlib.sha1(k.encode("utf8", "replace")).hexdigest()
            s["nontrivial"].add(k)
        if len(s["samples"]) < 3:
            s["samples"].append(_short(sample if sample is not None else key, 300))

    # ------------------------------------------------------------------ outcomes
    def fail(self, name, witness, detail=None, kind="T2", no_input=False):
        """Report a failed obligation/monitor with its native witness.
        witness: JSON-able dict; witness['key'] is the canonical identity used
        by known_findings.json."""
        key = witness.get("key") if isinstance(witness, dict) else str(witness)
        if key is None:
            key = _short(witness, 200)
        k = self._match_known(name, key)
        if k is not None:
            tag = (name, k.get("id"))
            if tag not in self._printed:
                self._printed.add(tag)
                print("KNOWN-FINDING: property=%s %s [%s] %s" % (self.prop, k.get("id"), name, k.get("what", "")))
            self.known_hits.append(dict(name=name, id=k.get("id"), key=key))
            return False
        # a new violation: write the replay file
        d = os.path.join(HERE, "replays", self.prop)
        os.makedirs(d, exist_ok=True)
        h = hashlib.sha1((name + "|" + str(key)).encode("utf8", "replace")).hexdigest()[:10]
        safe = "".join(c if c.isalnum() or c in "._-" else "_" for c in name)[:80]
        path = os.path.join(d, "%s-%s.json" % (safe, h))
        rec = dict(property=self.prop, obligation=name, kind=kind, witness=witness, detail=detail,
                   how_to_replay="./check %s --replay %s" % (self.prop, os.path.relpath(path, HERE)))
        with open(path, "w") as f:
            json.dump(rec, f, indent=1, default=repr, sort_keys=True)
        rel = os.path.relpath(path, HERE)
        if len(self.violations) < 25:
            line = "VIOLATION property=%s replay=%s" % (self.prop, rel)
            if no_input:
                line += " no-failing-input-found"
            print(line)
            print("  failed: %s :: %s" % (name, _short(detail if detail is not None else witness, 300)))
        self.violations.append(dict(name=name, key=key, replay=rel, detail=_short(detail, 300) if detail else None, native=not no_input))
        sys.stdout.flush()
        return True

    def undecided_ob(self, name, detail=None):
        print("UNDECIDED obligation=%s %s" % (name, _short(detail, 200) if detail else ""))
        self.undecided.append(name)

    def checker_failure(self, text):
        print("CHECKER-FAILURE: %s" % text)
        self.checker_failures.append(text)

    def note(self, text):
        self.notes.append(text)

    # ------------------------------------------------------------------ evidence
    def exit_code(self):
        # a violation with a failing input replayed on the real code stands even if some other part of the checker broke
        if any(v.get("native") for v in self.violations):
            return 1
        if self.checker_failures:
            return 3
        if self.violations:
            return 1
        if self.undecided:
            return 2
        return 0

    def write_evidence(self, level_claimed):
        obs = self.obligations
        n_ob = len(obs)
        n_dis = sum(1 for o in obs if o["status"] == "proved")
        by_backend = {}
        for o in obs:
            if o["status"] == "proved":
                by_backend[o["backend"]] = by_backend.get(o["backend"], 0) + 1
        solver_time = round(sum(o["time_s"] for o in obs), 3)
        evals = sum(s["evaluations"] for s in self.scopes.values())
        distinct = sum(len(s["nontrivial"]) for s in self.scopes.values())
        samples = []
        for nm, s in self.scopes.items():
            for x in s["samples"][:2]:
                samples.append({"scope": nm, "case": x})
        for o in obs[:3]:
            samples.append({"obligation": o["name"], "status": o["status"], "backend": o["backend"]})
        level = level_claimed
        # honesty rules (DESIGN.md section 6): a proof-level claim needs every T1
        # obligation discharged and none unsupported; otherwise the run says exploration
        if level == "proof" and (n_ob == 0 or n_dis != n_ob):
            # known findings may leave refuted obligations on the unchanged tree; they
            # are not counted as discharged, so the run is reported as exploration
            level = "exploration"
        cov = dict(
            obligations=n_ob,
            discharged=n_dis,
            by_backend=by_backend,
            solver_time_s=solver_time,
            obligations_not_discharged=[
                dict(name=o["name"], status=o["status"], detail=_short(o["detail"], 200) if o["detail"] else None)
                for o in obs if o["status"] != "proved"
            ][:50],
            functions_under_contract=self.functions_under_contract,
            functions_out_of_subset=self.functions_out_of_subset,
            dropped_statements=self.dropped_statements[:200],
            sentinels_checked=len(self.sentinels),
            sentinels_ok=all(ok for _, ok in self.sentinels),
            crosscheck_inputs=self.crosscheck_inputs,
            lemmas=self.lemmas,
            checker_cmd="./check %s --tier %s" % (self.prop, self.tier),
            trusted_base=self.trusted,
            evaluations=evals,
            distinct_nontrivial=distinct,
            rule="; ".join("%s: %s" % (nm, s["rule"]) for nm, s in self.scopes.items()) or "no bounded scope in this run",
            exhaustive=bool(self.scopes) and all(s["exhaustive"] for s in self.scopes.values()),
            bounded={nm: dict(evaluations=s["evaluations"], distinct_nontrivial=len(s["nontrivial"]),
                              exhaustive=s["exhaustive"], rule=s["rule"]) for nm, s in self.scopes.items()},
            samples=samples or ["(none)"],
            known_findings_hit=sorted(set("%s:%s" % (k["id"], k["name"]) for k in self.known_hits)),
            undecided=self.undecided,
            notes=self.notes,
            obligation_names=[o["name"] for o in obs][:400],
        )
        ev = dict(
            property_id=self.prop,
            tier=self.tier,
            seed=int(self.seed),
            level=level,
            coverage=cov,
            assumptions=self.assumptions,
            wall_s=round(time.time() - self.t0, 2),
            violations=len(self.violations),
        )
        d = os.path.join(HERE, "evidence")
        os.makedirs(d, exist_ok=True)
        with open(os.path.join(d, "%s.json" % self.prop), "w") as f:
            json.dump(ev, f, indent=1, sort_keys=True, default=repr)
        return ev
