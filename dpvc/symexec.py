"""dpvc symbolic executor / VC generator over the Python AST of the real source.

Forward symbolic execution with state merging at joins; loops are cut by
sidecar invariants; calls are replaced by callee contracts (modular) or, for
property accessors and helpers named `inline`, by their real bodies.

See DESIGN.md sections 2 and 3 for the encoding and its assumptions.  Anything
outside the supported subset raises Unsupported: the function is then reported
as out of subset, never silently skipped."""
import ast
import itertools
import time

import z3

from . import frontend
from .theories import Ref, NONE, I, B, R, ArrayBits, BVBits


class Unsupported(Exception):
    pass


# ----------------------------------------------------------------------------- values
class SV(object):
    """symbolic value.  kind in: int bool real bits str ref none tuple func class module py
    `none`: z3 Bool "this value is None" for optional scalars (None => never None)."""

    __slots__ = ("kind", "t", "none", "cls", "x")

    def __init__(self, kind, t=None, none=None, cls=None, x=None):
        self.kind = kind
        self.t = t
        self.none = none
        self.cls = cls
        self.x = x

    def __repr__(self):
        return "SV(%s,%s%s%s)" % (self.kind, self.t, ",none=%s" % self.none if self.none is not None else "", ",cls=%s" % self.cls if self.cls else "")


def NoneV():
    return SV("none")


def sort_of(kind, bits):
    return {"int": I, "bool": B, "real": R, "bits": bits.sort, "str": I, "ref": Ref}[kind]


class Field(object):
    """schema entry for a heap attribute"""

    def __init__(self, kind, opt=False, cls=None, ghost=False, elem=None, default=None):
        self.kind = kind  # int bool real bits str ref | map:<k>:<v> | set:<k>
        self.default = default  # maps only: collections.defaultdict factory value ("0", "0.0"); None = plain dict
        self.opt = opt
        self.cls = cls
        self.ghost = ghost
        self.elem = elem


def parse_type(s):
    """'opt bits', 'ref:Node', 'int', 'map:ref:int', 'set:bits' ..."""
    s = s.strip()
    opt = False
    ghost = False
    if s.startswith("ghost "):
        ghost = True
        s = s[6:].strip()
    if s.startswith("opt "):
        opt = True
        s = s[4:].strip()
    cls = None
    default = None
    if " default=" in s:
        s, _, default = s.partition(" default=")
        s = s.strip()
        default = default.strip()
    if " of=" in s:
        # map:<k>:ref of=<Class>: the class of the dictionary's values
        s, _, cls = s.partition(" of=")
        s, cls = s.strip(), cls.strip()
    if s.startswith("ref:"):
        cls = s[4:]
        s = "ref"
    return Field(s, opt=opt, cls=cls, ghost=ghost, default=default)


class State(object):
    def __init__(self, ex):
        self.ex = ex
        self.env = {}
        self.heap = {}  # key -> (z3 array value, z3 array none-flag or None)
        self.pc = []
        self.dead = False

    def copy(self):
        s = State(self.ex)
        s.env = dict(self.env)
        s.heap = dict(self.heap)
        s.pc = list(self.pc)
        return s

    def assume(self, c):
        self.pc.append(c)


class Ob(object):
    def __init__(self, name, pc, goal, lineno=None, kind="post"):
        self.name = name
        self.pc = list(pc)
        self.goal = goal
        self.lineno = lineno
        self.kind = kind
        self.status = None
        self.time_s = 0.0
        self.model = None
        self.backend = "z3"
        self.detail = None


class Loop(object):
    def __init__(self, invariant="True", decreases=None, modifies=None, ghost_pre=None, variant_lower=None, after=None, split=False):
        # split: the preservation of a conjunctive invariant is discharged conjunct by conjunct (the whole invariant is assumed at the loop
        # head as always) -- same obligation, smaller queries
        self.split = split
        self.invariant = invariant
        self.decreases = decreases
        self.modifies = modifies  # extra heap locations havocked: ["Class.attr", ...]
        self.ghost_pre = ghost_pre
        # sidecar assertions at the normal exit of the loop: {name: spec}; may use pre(...) for the loop-entry state.
        # They are obligations (never assumed): what the loop as a whole has established for the code after it.
        self.after = after or {}


class Contract(object):
    def __init__(self, target, types=None, requires="True", ensures=None, raises=None, modifies=None, loops=None,
                 inline=(), assumed=False, returns=None, ghost=None, pure=False, name=None, notes=None,
                 none_safety=True, frame=True, terminates=True, exc_ensures=None, locals=None, attr_overrides=None,
                 may_raise=(), allowed_raises=(), terminates_required=False, kwargs=None, decreases=None):
        self.target = target
        # function-level measure (spec over the parameters at entry): every call made from inside the function to a function
        # carrying a measure -- in particular a recursive call -- must be made on a strictly smaller, non-negative measure
        self.decreases = decreases
        self.types = types or {}
        self.requires = requires
        self.ensures = ensures if isinstance(ensures, (list, tuple, dict)) or ensures is None else [ensures]
        self.raises = raises or {}  # exc name -> condition (spec over pre-state) under which it MUST be raised; others forbidden
        self.modifies = modifies or []
        self.loops = loops or {}
        self.inline = set(inline)
        self.assumed = assumed
        self.returns = returns
        # for a function taking **kwargs: the keyword arguments THIS contract covers, {name: type}; the contract speaks about calls
        # that pass exactly these keywords (other call shapes are outside it)
        self.kwargs = kwargs or {}
        self.ghost = ghost or {}
        self.pure = pure
        self.name = name or target.split(":")[1]
        self.notes = notes
        self.none_safety = none_safety
        self.frame = frame
        self.exc_ensures = exc_ensures
        self.locals = locals or {}
        self.attr_overrides = attr_overrides or {}
        self.may_raise = tuple(may_raise)  # exceptions the callee may raise on any call (callers get an extra exit)
        self.allowed_raises = set(allowed_raises)  # exception names this function may let escape
        self.terminates_required = terminates_required  # every while loop needs a decreases measure

    def ensures_items(self):
        e = self.ensures
        if e is None:
            return []
        if isinstance(e, dict):
            return list(e.items())
        return [("ensures%d" % i, x) for i, x in enumerate(e)]


class Exit(object):
    def __init__(self, kind, state, value=None, exc=None, lineno=None):
        self.kind = kind  # return | raise | break | continue
        self.state = state
        self.value = value
        self.exc = exc
        self.lineno = lineno


# ----------------------------------------------------------------------------- executor
class Executor(object):
    def __init__(self, schema, contracts, bits=None, classes=None, str_consts=None):
        self.schema = schema  # 'Class.attr' or '*.attr' -> Field
        self.contracts = contracts  # qualified 'Class.method' / 'module.func' -> Contract
        self.bits = bits or ArrayBits()
        self.obs = []
        self.fresh_n = 0
        self.classes = classes or {}  # class name -> ClassInfo for property resolution
        self.str_ids = {}
        self.upper = z3.Function("str_upper", I, I)
        self.lower = z3.Function("str_lower", I, I)
        self.str_axioms = []
        self.dropped = []
        self.cur = None  # contract under verification
        self.cur_name = ""
        self.spec = False
        self.guard = []  # expression-level guards (short-circuit) for obligations
        self.old_state = None
        self.result_sv = None
        self.depth = 0
        self.loop_stack = []

    # ---- helpers
    def fresh(self, kind, name="v", cls=None, opt=False):
        self.fresh_n += 1
        nm = "%s!%d" % (name, self.fresh_n)
        if kind == "tuple":
            raise Unsupported("fresh tuple")
        t = z3.Const(nm, sort_of(kind, self.bits))
        none = z3.Bool(nm + "?none") if opt and kind != "ref" else None
        return SV(kind, t, none=none, cls=cls)

    def str_const(self, s):
        if s not in self.str_ids:
            k = len(self.str_ids) + 1
            self.str_ids[s] = k
            # upper/lower of known literals
        return z3.IntVal(self.str_ids[s])

    def finalize_str_axioms(self):
        ax = []
        lits = list(self.str_ids.items())
        for s, k in lits:
            u, l = s.upper(), s.lower()
            if u in self.str_ids:
                ax.append(self.upper(z3.IntVal(k)) == self.str_ids[u])
            if l in self.str_ids:
                ax.append(self.lower(z3.IntVal(k)) == self.str_ids[l])
        return ax

    def field(self, cls, attr):
        for c in self._mro(cls):
            f = self.schema.get("%s.%s" % (c, attr))
            if f is not None:
                return "%s.%s" % (c, attr), f
        f = self.schema.get("*.%s" % attr)
        if f is not None:
            return "*.%s" % attr, f
        raise Unsupported("no schema entry for attribute %s.%s" % (cls, attr))

    def _mro(self, cls):
        out = []
        seen = set()
        todo = [cls]
        while todo:
            c = todo.pop(0)
            if c is None or c in seen:
                continue
            seen.add(c)
            out.append(c)
            ci = self.classes.get(c)
            if ci is not None:
                for b in ci.bases:
                    todo.append(b.split(".")[-1])
        return out

    def heap_arrays(self, st, key, f):
        if key not in st.heap:
            vs = self._field_sort(f)
            arr = z3.Const("H0_%s" % key.replace(".", "_").replace("*", "any"), z3.ArraySort(Ref, vs))
            na = z3.Const("H0n_%s" % key.replace(".", "_").replace("*", "any"), z3.ArraySort(Ref, B)) if (f.opt and f.kind != "ref") else None
            if f.kind.startswith("map:"):
                # second slot of a map field: its key set (domain)
                ks = f.kind.split(":")[1]
                na = z3.Const("H0dom_%s" % key.replace(".", "_").replace("*", "any"), z3.ArraySort(Ref, z3.ArraySort(sort_of(ks, self.bits), B)))
            st.heap[key] = (arr, na)
            if self.old_state is not None and key not in self.old_state.heap:
                self.old_state.heap[key] = (arr, na)
        return st.heap[key]

    def _field_sort(self, f):
        k = f.kind
        if k.startswith("map:"):
            _, ks, vs = k.split(":")
            return z3.ArraySort(sort_of(ks, self.bits), sort_of(vs, self.bits))
        if k.startswith("set:"):
            _, ks = k.split(":")
            return z3.ArraySort(sort_of(ks, self.bits), B)
        return sort_of(k, self.bits)

    def get_attr(self, st, obj, attr, lineno=None):
        if obj.kind != "ref":
            raise Unsupported("attribute %s of non-object %s" % (attr, obj.kind))
        self.require_not_none(st, obj, "attr .%s" % attr, lineno)
        key, f = self.field(obj.cls, attr)
        arr, na = self.heap_arrays(st, key, f)
        v = z3.Select(arr, obj.t)
        kind = f.kind
        if kind.startswith("map:"):
            nn = None
            if f.opt:
                # the attribute may hold None instead of a dictionary: flag kept under <key>$none
                fl, _ = self.heap_arrays(st, key + "$none", self.schema[key + "$none"])
                nn = z3.Select(fl, obj.t)
            return SV(kind, v, none=nn, cls=f.cls, x=(obj, attr, key, z3.Select(na, obj.t)))
        if kind.startswith("set:"):
            return SV(kind, v, cls=f.cls)
        if kind == "ref" and not f.opt:
            st.assume(v != NONE)  # type invariant of a non-optional reference field
        return SV(kind, v, none=(z3.Select(na, obj.t) if na is not None else None), cls=f.cls,
                  x=("nonnull" if kind == "ref" and not f.opt else None))

    def set_attr(self, st, obj, attr, val, lineno=None):
        if obj.kind != "ref":
            raise Unsupported("attribute store on %s" % obj.kind)
        self.require_not_none(st, obj, "store .%s" % attr, lineno)
        key, f = self.field(obj.cls, attr)
        arr, na = self.heap_arrays(st, key, f)
        if f.kind.startswith("map:"):
            return self.set_map_attr(st, obj, attr, key, f, val, lineno)
        val = self.coerce(val, f, "store to .%s" % attr)
        arr2 = z3.Store(arr, obj.t, val.t)
        na2 = na
        if na is not None:
            na2 = z3.Store(na, obj.t, val.none if val.none is not None else z3.BoolVal(False))
        elif val.none is not None and f.kind != "ref":
            # storing a possibly-None value into a non-optional field
            self.oblige(st, z3.Not(val.none), "type[.%s not None]" % attr, lineno, kind="type")
        st.heap[key] = (arr2, na2)

    def set_map_attr(self, st, obj, attr, key, f, val, lineno):
        """obj.attr = {} | None | <another modelled dictionary>"""
        arr, dom = self.heap_arrays(st, key, f)
        ks = f.kind.split(":")[1]
        flag = None
        if f.opt:
            flag, _ = self.heap_arrays(st, key + "$none", self.schema[key + "$none"])
        if val.kind == "none":
            if flag is None:
                self.oblige(st, z3.BoolVal(False), "type[.%s not None]" % attr, lineno, kind="type")
                return
            st.heap[key + "$none"] = (z3.Store(flag, obj.t, z3.BoolVal(True)), None)
            return
        if val.kind == "dict_lit":
            if val.t:
                raise Unsupported("non-empty dict literal stored to .%s" % attr)
            st.heap[key] = (arr, z3.Store(dom, obj.t, z3.K(sort_of(ks, self.bits), z3.BoolVal(False))))
        elif val.kind == f.kind and isinstance(val.x, tuple):
            # aliasing of two dictionaries is outside the map model (each map lives in exactly one field)
            raise Unsupported("dictionary aliasing: store of a modelled map to .%s" % attr)
        else:
            raise Unsupported("store of %s to the dictionary field .%s" % (val.kind, attr))
        if flag is not None:
            st.heap[key + "$none"] = (z3.Store(flag, obj.t, z3.BoolVal(False)), None)

    def ev_Dict(self, e, st):
        if e.keys:
            raise Unsupported("non-empty dict literal at line %s" % getattr(e, "lineno", "?"))
        return SV("dict_lit", ())

    def coerce(self, v, f, what):
        kind = f.kind
        if v.kind == "none":
            if kind == "ref":
                return SV("ref", NONE, cls=f.cls)
            if not f.opt:
                raise Unsupported("None stored into non-optional %s" % what)
            d = self.fresh(kind, "dc")
            return SV(kind, d.t, none=z3.BoolVal(True))
        if v.kind == kind:
            return v
        if kind == "bits" and v.kind == "int":
            c = self._as_pyint(v)
            if c is not None:
                return SV("bits", self.bits.const(c), none=v.none)
        if kind == "real" and v.kind == "int":
            return SV("real", z3.ToReal(v.t), none=v.none)
        if kind == "int" and v.kind == "bool":
            return SV("int", z3.If(v.t, 1, 0), none=v.none)
        raise Unsupported("cannot coerce %s to %s in %s" % (v.kind, kind, what))

    def _as_pyint(self, v):
        if v.kind == "int" and z3.is_int_value(v.t):
            return v.t.as_long()
        return None

    # ---- obligations
    def full_pc(self, st):
        return list(st.pc) + list(self.guard)

    def oblige(self, st, goal, label, lineno=None, kind="post"):
        if self.spec:
            return
        name = "%s.%s%s" % (self.cur_name, label, "@L%d" % lineno if lineno else "")
        # merge obligations with identical names (different paths) by numbering
        n = sum(1 for o in self.obs if o.name == name or o.name.startswith(name + "#"))
        if n:
            name = "%s#%d" % (name, n)
        self.obs.append(Ob(name, self.full_pc(st), goal, lineno, kind))

    def require_not_none(self, st, v, what, lineno=None):
        if self.spec:
            return
        if v.kind == "none":
            self.oblige(st, z3.BoolVal(False), "none-safety[%s]" % what, lineno, kind="none-safety")
        elif v.kind == "ref":
            if not (z3.is_const(v.t) and v.t.eq(NONE)) and getattr(v, "x", None) == "nonnull":
                return
            self.oblige(st, v.t != NONE, "none-safety[%s]" % what, lineno, kind="none-safety")
        elif v.none is not None:
            self.oblige(st, z3.Not(v.none), "none-safety[%s]" % what, lineno, kind="none-safety")

    # ---- truthiness
    def truthy(self, v):
        k = v.kind
        if k == "none":
            return z3.BoolVal(False)
        if k == "bool":
            t = v.t
        elif k == "int":
            t = v.t != 0
        elif k == "real":
            t = v.t != 0
        elif k == "bits":
            t = z3.Not(self.bits.is_zero(v.t))
        elif k == "ref":
            n = self.len_of_ref(v)
            if n is None:
                return v.t != NONE
            # bool(obj) is len(obj) != 0 for a class that defines __len__
            return z3.And(v.t != NONE, n > 0)
        elif k == "str":
            t = v.t != self.str_const("")
        elif k == "py":
            return z3.BoolVal(bool(v.t))
        elif k == "tuple":
            return z3.BoolVal(len(v.t) > 0)
        elif k in ("class", "func", "module"):
            return z3.BoolVal(True)
        else:
            raise Unsupported("truthiness of %s" % k)
        if v.none is not None:
            return z3.And(z3.Not(v.none), t)
        return t

    iter_views = {}
    _last_st = None

    def len_of_ref(self, v):
        """None when the truth value of the object is just "is not None"; a length term when its class defines __len__
        over a container the suite names (iter_views); otherwise the truth value is outside the model"""
        if v.cls is None or self.spec:
            return None
        if self._find_method(v.cls, "__bool__") is not None:
            raise Unsupported("truthiness of an object whose class defines __bool__ (%s)" % v.cls)
        if self._find_method(v.cls, "__len__") is None:
            return None
        st = self._last_st
        for cname in self._mro(v.cls):
            view = self.iter_views.get(cname)
            if view is not None and st is not None:
                key, f = self.field(cname, view)
                arr, n = self.heap_arrays(st, key, f)
                if f.kind == "lenlist":
                    return z3.Select(arr, v.t)
                if f.kind.startswith("reflist"):
                    return z3.Select(n, v.t)
        raise Unsupported("truthiness of an object whose class defines __len__ (%s): name its container in iter_views" % v.cls)

    def is_none(self, v):
        if v.kind == "none":
            return z3.BoolVal(True)
        if v.kind == "ref":
            return v.t == NONE
        if v.none is not None:
            return v.none
        return z3.BoolVal(False)

    # ---- merging
    def merge_sv(self, c, a, b):
        if a is b:
            return a
        if a.kind == "none" and b.kind == "none":
            return a
        if a.kind == "none" or b.kind == "none":
            o = b if a.kind == "none" else a
            if o.kind == "ref":
                n = SV("ref", NONE, cls=o.cls)
            elif o.kind in ("int", "bool", "real", "bits", "str"):
                n = SV(o.kind, o.t, none=z3.BoolVal(True))
            else:
                return None
            return self.merge_sv(c, n, b) if a.kind == "none" else self.merge_sv(c, a, n)
        if a.kind != b.kind:
            if {a.kind, b.kind} == {"int", "bits"}:
                ca = self._as_pyint(a) if a.kind == "int" else None
                cb = self._as_pyint(b) if b.kind == "int" else None
                if a.kind == "int" and ca is not None:
                    a = SV("bits", self.bits.const(ca), none=a.none)
                elif b.kind == "int" and cb is not None:
                    b = SV("bits", self.bits.const(cb), none=b.none)
                else:
                    return None
            elif {a.kind, b.kind} == {"int", "real"}:
                if a.kind == "int":
                    a = SV("real", z3.ToReal(a.t), none=a.none)
                else:
                    b = SV("real", z3.ToReal(b.t), none=b.none)
            elif {a.kind, b.kind} == {"int", "bool"}:
                if a.kind == "bool":
                    a = SV("int", z3.If(a.t, 1, 0), none=a.none)
                else:
                    b = SV("int", z3.If(b.t, 1, 0), none=b.none)
            else:
                return None
        if a.kind == "tuple":
            if len(a.t) != len(b.t):
                return None
            parts = [self.merge_sv(c, x, y) for x, y in zip(a.t, b.t)]
            if any(p is None for p in parts):
                return None
            return SV("tuple", tuple(parts))
        if a.kind in ("py", "class", "func", "module"):
            return a if a.t == b.t else None
        t = a.t if a.t.eq(b.t) else z3.If(c, a.t, b.t)
        if a.none is None and b.none is None:
            none = None
        else:
            an = a.none if a.none is not None else z3.BoolVal(False)
            bn = b.none if b.none is not None else z3.BoolVal(False)
            none = an if an.eq(bn) else z3.If(c, an, bn)
        cls = a.cls if a.cls == b.cls else (a.cls or b.cls)
        return SV(a.kind, t, none=none, cls=cls)

    def merge_states(self, c, s1, s2, base):
        """state = If(c, s1, s2); both extend `base` (same pc prefix). None if not mergeable."""
        out = base.copy()
        out.env = {}
        for k in set(s1.env) | set(s2.env):
            if k in s1.env and k in s2.env:
                m = self.merge_sv(c, s1.env[k], s2.env[k])
                if m is None:
                    return None
                out.env[k] = m
            # a variable bound on one side only is dropped (unbound if used later)
        out.heap = {}
        for k in set(s1.heap) | set(s2.heap):
            f = self.schema[k]
            a1, n1 = s1.heap[k] if k in s1.heap else self.heap_arrays(base, k, f)
            a2, n2 = s2.heap[k] if k in s2.heap else self.heap_arrays(base, k, f)
            a = a1 if a1.eq(a2) else z3.If(c, a1, a2)
            if n1 is None:
                n = None
            else:
                n = n1 if n1.eq(n2) else z3.If(c, n1, n2)
            out.heap[k] = (a, n)
        # extra path facts of each side become implications
        n0 = len(base.pc)
        for x in s1.pc[n0:]:
            if not (x.eq(c)):
                out.pc.append(z3.Implies(c, x))
        for x in s2.pc[n0:]:
            if not (z3.is_not(x) and x.arg(0).eq(c)):
                out.pc.append(z3.Implies(z3.Not(c), x))
        return out

    # ------------------------------------------------------------------ expressions
    def ev(self, e, st):
        self._last_st = st
        m = getattr(self, "ev_" + type(e).__name__, None)
        if m is None:
            raise Unsupported("expression %s at line %s" % (type(e).__name__, getattr(e, "lineno", "?")))
        return m(e, st)

    def ev_Constant(self, e, st):
        v = e.value
        if v is None:
            return NoneV()
        if v is True or v is False:
            return SV("bool", z3.BoolVal(v))
        if isinstance(v, int):
            return SV("int", z3.IntVal(v))
        if isinstance(v, float):
            return SV("real", z3.RealVal(repr(v)))
        if isinstance(v, str):
            return SV("str", self.str_const(v), x=v)
        raise Unsupported("constant %r" % (v,))

    def ev_Name(self, e, st):
        if e.id in st.env:
            return st.env[e.id]
        if self.spec and e.id == "result":
            if self.result_sv is None:
                raise Unsupported("result not available here")
            return self.result_sv
        if e.id in ("True", "False"):
            return SV("bool", z3.BoolVal(e.id == "True"))
        if e.id in self.classes:
            return SV("class", e.id)
        if e.id in self.contracts:
            return SV("func", e.id)  # module-level function under contract, called by its bare name
        if e.id in self.globals_:
            return self.globals_[e.id]
        raise Unsupported("unbound name %s at line %s" % (e.id, getattr(e, "lineno", "?")))

    globals_ = {}

    def ev_Attribute(self, e, st):
        base = self.ev(e.value, st)
        return self.attr_of(st, base, e.attr, getattr(e, "lineno", None))

    def attr_of(self, st, base, attr, lineno):
        if base.kind == "module":
            q = "%s.%s" % (base.t, attr)
            if q in self.contracts:
                return SV("func", q)
            if attr in self.classes:
                return SV("class", attr)
            raise Unsupported("module attribute %s" % q)
        if base.kind == "class":
            q = "%s.%s" % (base.t, attr)
            if q in self.contracts or self._find_method(base.t, attr) is not None:
                return SV("func", q, x=None)
            raise Unsupported("class attribute %s" % q)
        if base.kind == "ref":
            # property?
            pr = self._find_property(base.cls, attr)
            if pr is not None and not ("%s.%s" % (base.cls, attr) in self.schema):
                g, _ = pr
                if g is None:
                    raise Unsupported("write-only property %s" % attr)
                return self.call_method(st, base, g, [], {}, lineno)
            # method?
            if self._find_method(base.cls, attr) is not None or self._contract_for(base.cls, attr) is not None:
                return SV("func", attr, x=base)
            return self.get_attr(st, base, attr, lineno)
        if base.kind == "none":
            self.require_not_none(st, base, "attr .%s" % attr, lineno)
            raise DeadPath()
        if base.kind == "str":
            return SV("func", "str." + attr, x=base)
        if base.kind.startswith("map:"):
            return SV("func", "map." + attr, x=base)
        if base.kind == "kwdict":
            return SV("func", "kwdict." + attr, x=base)
        raise Unsupported("attribute .%s of %s" % (attr, base.kind))

    def _find_property(self, cls, attr):
        for c in self._mro(cls):
            ci = self.classes.get(c)
            if ci is not None and attr in ci.properties:
                return ci.properties[attr]
        return None

    def _find_method(self, cls, name):
        for c in self._mro(cls):
            ci = self.classes.get(c)
            if ci is not None and name in ci.methods:
                return ci, ci.methods[name]
        return None

    def _contract_for(self, cls, name):
        for c in self._mro(cls):
            k = "%s.%s" % (c, name)
            if k in self.contracts:
                return self.contracts[k]
        return None

    def ev_UnaryOp(self, e, st):
        v = self.ev(e.operand, st)
        ln = getattr(e, "lineno", None)
        if isinstance(e.op, ast.Not):
            return SV("bool", z3.Not(self.truthy(v)))
        self.require_not_none(st, v, "unary operand", ln)
        if isinstance(e.op, ast.Invert):
            if v.kind == "bits":
                return SV("bits", self.bits.not_(v.t))
            if v.kind == "int":
                return SV("int", -v.t - 1)
        if isinstance(e.op, ast.USub):
            if v.kind in ("int", "real"):
                return SV(v.kind, -v.t)
        raise Unsupported("unary %s on %s" % (type(e.op).__name__, v.kind))

    def ev_BoolOp(self, e, st):
        vals = []
        guards = 0
        try:
            for i, sub in enumerate(e.values):
                v = self.ev(sub, st)
                vals.append(v)
                if i < len(e.values) - 1:
                    g = self.truthy(v)
                    self.guard.append(g if isinstance(e.op, ast.And) else z3.Not(g))
                    guards += 1
        finally:
            for _ in range(guards):
                self.guard.pop()
        # result: first falsy (and) / first truthy (or) operand, else the last
        res = vals[-1]
        for v in reversed(vals[:-1]):
            g = self.truthy(v)
            c = z3.Not(g) if isinstance(e.op, ast.And) else g
            m = self.merge_sv(c, v, res)
            if m is None:
                # mixed kinds: only the truth value is meaningful
                tv = [self.truthy(x) for x in vals]
                return SV("bool", z3.And(*tv) if isinstance(e.op, ast.And) else z3.Or(*tv), x="truth-only")
            res = m
        return res

    def ev_IfExp(self, e, st):
        c = self.truthy(self.ev(e.test, st))
        self.guard.append(c)
        try:
            a = self.ev(e.body, st)
        finally:
            self.guard.pop()
        self.guard.append(z3.Not(c))
        try:
            b = self.ev(e.orelse, st)
        finally:
            self.guard.pop()
        m = self.merge_sv(c, a, b)
        if m is None:
            raise Unsupported("conditional expression with incompatible kinds %s/%s" % (a.kind, b.kind))
        return m

    def _num_pair(self, a, b):
        if a.kind == b.kind:
            return a, b
        ks = {a.kind, b.kind}
        if ks == {"int", "real"}:
            return (SV("real", z3.ToReal(a.t)) if a.kind == "int" else a), (SV("real", z3.ToReal(b.t)) if b.kind == "int" else b)
        if ks == {"int", "bool"}:
            return (SV("int", z3.If(a.t, 1, 0)) if a.kind == "bool" else a), (SV("int", z3.If(b.t, 1, 0)) if b.kind == "bool" else b)
        if ks == {"int", "bits"}:
            ca = self._as_pyint(a) if a.kind == "int" else None
            cb = self._as_pyint(b) if b.kind == "int" else None
            if a.kind == "int" and ca is not None:
                return SV("bits", self.bits.const(ca)), b
            if b.kind == "int" and cb is not None:
                return a, SV("bits", self.bits.const(cb))
        raise Unsupported("operands %s/%s" % (a.kind, b.kind))

    def ev_BinOp(self, e, st):
        a = self.ev(e.left, st)
        b = self.ev(e.right, st)
        return self.binop(st, e.op, a, b, getattr(e, "lineno", None))

    typeerror_caught = 0   # > 0 while executing the body of a `try` that has a handler for TypeError

    def binop(self, st, op, a, b, ln):
        if self.typeerror_caught and not self.spec and a.kind != "none" and b.kind != "none" and (a.none is not None or b.none is not None) \
                and a.kind in ("int", "real") and b.kind in ("int", "real"):
            # arithmetic on a value that may be None inside `try: ... except TypeError:` -- None raises TypeError
            # (an exceptional exit the handler takes), the normal path continues with both operands present
            isn = z3.Or(*[x.none for x in (a, b) if x.none is not None])
            x = st.copy()
            x.assume(z3.And(*self.guard, isn) if self.guard else isn)
            self.pending_raises.append(Exit("raise", x, exc="TypeError", lineno=ln))
            st.assume(z3.Implies(z3.And(*self.guard), z3.Not(isn)) if self.guard else z3.Not(isn))
            a = SV(a.kind, a.t, cls=a.cls)
            b = SV(b.kind, b.t, cls=b.cls)
        self.require_not_none(st, a, "left operand of %s" % type(op).__name__, ln)
        self.require_not_none(st, b, "right operand of %s" % type(op).__name__, ln)
        if a.kind == "none" or b.kind == "none":
            raise DeadPath()
        bt = self.bits
        if isinstance(op, (ast.BitAnd, ast.BitOr, ast.BitXor)):
            if a.kind == "bool" and b.kind == "bool":
                f = {ast.BitAnd: z3.And, ast.BitOr: z3.Or, ast.BitXor: z3.Xor}[type(op)]
                return SV("bool", f(a.t, b.t))
            a, b = self._bits_pair(a, b)
            f = {ast.BitAnd: bt.and_, ast.BitOr: bt.or_, ast.BitXor: bt.xor}[type(op)]
            return SV("bits", f(a.t, b.t))
        if isinstance(op, ast.Sub) and a.kind == "bits":
            c = self._as_pyint(b)
            if c == 1:
                return SV("bits", bt.sub1(a.t))
            raise Unsupported("bits - non-1")
        if isinstance(op, ast.LShift):
            if a.kind == "int" and self._as_pyint(a) == 1 and b.kind == "int":
                return SV("bits", bt.singleton(b.t))
            if a.kind == "bits" and b.kind == "int":
                return SV("bits", bt.shl(a.t, b.t))
            raise Unsupported("<< on %s,%s" % (a.kind, b.kind))
        if isinstance(op, ast.RShift):
            if a.kind == "bits" and self._as_pyint(b) == 1:
                return SV("bits", bt.shr1(a.t))
            raise Unsupported(">> on %s,%s" % (a.kind, b.kind))
        a, b = self._num_pair(a, b)
        if a.kind not in ("int", "real"):
            raise Unsupported("arithmetic on %s" % a.kind)
        if isinstance(op, ast.Add):
            return SV(a.kind, a.t + b.t)
        if isinstance(op, ast.Sub):
            return SV(a.kind, a.t - b.t)
        if isinstance(op, ast.Mult):
            return SV(a.kind, a.t * b.t)
        if isinstance(op, ast.Div):
            self.oblige(st, b.t != 0, "no-ZeroDivisionError", ln, kind="safety")
            ar = z3.ToReal(a.t) if a.kind == "int" else a.t
            br = z3.ToReal(b.t) if b.kind == "int" else b.t
            return SV("real", ar / br)
        if isinstance(op, ast.FloorDiv) and a.kind == "int":
            self.oblige(st, b.t != 0, "no-ZeroDivisionError", ln, kind="safety")
            # python floor division; z3 div is euclidean: equal for positive divisor
            return SV("int", z3.If(b.t > 0, a.t / b.t, -((-a.t) / (-b.t)) if False else (a.t / b.t)), x="floordiv-positive-divisor")
        if isinstance(op, ast.Mod) and a.kind == "int":
            self.oblige(st, b.t != 0, "no-ZeroDivisionError", ln, kind="safety")
            return SV("int", a.t % b.t, x="mod-positive-divisor")
        raise Unsupported("binary %s on %s" % (type(op).__name__, a.kind))

    def _bits_pair(self, a, b):
        def up(v):
            if v.kind == "bits":
                return v
            if v.kind == "int":
                c = self._as_pyint(v)
                if c is not None:
                    return SV("bits", self.bits.const(c))
            if v.kind == "bool":
                return SV("bits", z3.If(v.t, self.bits.const(1), self.bits.const(0)))
            raise Unsupported("bit operation on symbolic %s" % v.kind)
        return up(a), up(b)

    def ev_Compare(self, e, st):
        left = self.ev(e.left, st)
        res = []
        guards = 0
        try:
            for op, right_e in zip(e.ops, e.comparators):
                right = self.ev(right_e, st)
                r = self.compare(st, op, left, right, getattr(e, "lineno", None))
                res.append(r)
                left = right
                self.guard.append(r)
                guards += 1
        finally:
            for _ in range(guards):
                self.guard.pop()
        return SV("bool", res[0] if len(res) == 1 else z3.And(*res))

    def compare(self, st, op, a, b, ln):
        if isinstance(op, (ast.Is, ast.IsNot)):
            neg = isinstance(op, ast.IsNot)
            if b.kind == "none":
                r = self.is_none(a)
            elif a.kind == "none":
                r = self.is_none(b)
            elif a.kind == "ref" and b.kind == "ref":
                r = a.t == b.t
            elif a.kind == b.kind and a.kind in ("bool",):
                an, bn = self.is_none(a), self.is_none(b)
                r = z3.Or(z3.And(an, bn), z3.And(z3.Not(an), z3.Not(bn), a.t == b.t))
            elif a.kind == b.kind and a.kind in ("int", "bits", "str", "real"):
                # identity of scalars: None-identity, and value identity (small ints / interned strings)
                an, bn = self.is_none(a), self.is_none(b)
                r = z3.Or(z3.And(an, bn), z3.And(z3.Not(an), z3.Not(bn), self._eq(a, b)))
            elif {a.kind, b.kind} in ({"real", "bool"}, {"int", "bool"}):
                # a number is never the True/False singleton (the sidecar type says it is a number or None)
                r = z3.BoolVal(False)
            else:
                raise Unsupported("is between %s and %s" % (a.kind, b.kind))
            return z3.Not(r) if neg else r
        if isinstance(op, (ast.Eq, ast.NotEq)):
            neg = isinstance(op, ast.NotEq)
            r = self.py_eq(a, b)
            return z3.Not(r) if neg else r
        if isinstance(op, (ast.In, ast.NotIn)):
            neg = isinstance(op, ast.NotIn)
            r = self.contains(st, self.as_container(st, b, ln), a, ln)
            return z3.Not(r) if neg else r
        # ordering
        self.require_not_none(st, a, "ordering operand", ln)
        self.require_not_none(st, b, "ordering operand", ln)
        if a.kind == "none" or b.kind == "none":
            raise DeadPath()
        if a.kind == "bits" or b.kind == "bits":
            raise Unsupported("ordering on bit masks")
        a, b = self._num_pair(a, b)
        if a.kind not in ("int", "real"):
            raise Unsupported("ordering on %s" % a.kind)
        return {ast.Lt: a.t < b.t, ast.LtE: a.t <= b.t, ast.Gt: a.t > b.t, ast.GtE: a.t >= b.t}[type(op)]

    def _nn_eq(self, a, b):
        return self.is_none(a) == self.is_none(b)

    def _eq(self, a, b):
        if a.kind == "bits":
            return self.bits.eq(a.t, b.t)
        return a.t == b.t

    def py_eq(self, a, b):
        """Python == for the modelled kinds (None == None, None != x)."""
        if a.kind == "none" or b.kind == "none":
            o = b if a.kind == "none" else a
            return self.is_none(o)
        if a.kind == "tuple" and b.kind == "tuple":
            if len(a.t) != len(b.t):
                return z3.BoolVal(False)
            return z3.And(*[self.py_eq(x, y) for x, y in zip(a.t, b.t)]) if a.t else z3.BoolVal(True)
        if a.kind == "ref" and b.kind == "ref":
            return a.t == b.t  # identity equality (assumption 1: __eq__ is identity for Node/Edge/Taxon/Tree)
        if a.kind != b.kind:
            if {a.kind, b.kind} <= {"int", "real", "bool", "bits"}:
                a, b = self._num_pair(a, b) if {a.kind, b.kind} != {"bits", "int"} else self._bits_pair(a, b)
            elif a.kind == "ref" or b.kind == "ref":
                return z3.BoolVal(False)
            else:
                raise Unsupported("== between %s and %s" % (a.kind, b.kind))
        core = self._eq(a, b)
        an, bn = self.is_none(a), self.is_none(b)
        if a.none is None and b.none is None:
            return core
        return z3.Or(z3.And(an, bn), z3.And(z3.Not(an), z3.Not(bn), core))

    def contains(self, st, container, item, ln):
        if container.kind == "kwdict":
            return z3.BoolVal(self._kw_key(item) in container.t)
        if container.kind.startswith("set:"):
            return z3.Select(container.t, item.t)
        if container.kind.startswith("map:"):
            return z3.Select(container.x[3], self._key_term(container, item))
        if container.kind == "tuple":
            return z3.Or(*[self.py_eq(item, x) for x in container.t]) if container.t else z3.BoolVal(False)
        if container.kind == "ref" and container.cls is not None and (
                self._find_method(container.cls, "__contains__") is not None or self._contract_for(container.cls, "__contains__") is not None):
            # `x in obj` is obj.__contains__(x)
            return self.truthy(self.call_method(st, container, "__contains__", [item], {}, ln))
        raise Unsupported("membership in %s" % container.kind)

    # ---- dictionaries as maps (domain + value arrays); only on the access path obj.field
    def _key_term(self, m, k):
        ks = m.kind.split(":")[1]
        if k.kind == "none" and ks == "ref":
            return NONE
        if k.kind == "opaque":
            # an abstracted value used as a dictionary key: some value of the key sort -- the same one
            # every time this very value is used (the SV object is what a variable holds)
            t = getattr(k, "_as_key", None)
            if t is None or t.sort() != sort_of(ks, self.bits):
                self.fresh_n += 1
                t = z3.Const("opqkey!%d" % self.fresh_n, sort_of(ks, self.bits))
                k._as_key = t
            return t
        if k.kind != ks:
            raise Unsupported("map key of kind %s, expected %s" % (k.kind, ks))
        return k.t

    def _map_default(self, m):
        f = self.schema.get(m.x[2]) if isinstance(m.x, tuple) and len(m.x) >= 3 else None
        if f is None or f.default is None:
            return None
        vs = m.kind.split(":")[2]
        if vs == "real":
            return z3.RealVal(f.default)
        if vs == "int":
            return z3.IntVal(int(float(f.default)))
        raise Unsupported("defaultdict of %s" % vs)

    def _val_sv(self, m, t, none=None):
        vs = m.kind.split(":")[2]
        return SV(vs, t, none=none, cls=m.cls)

    def map_store(self, st, m, newval, newdom):
        obj, attr, key, dom = m.x
        f = self.schema[key]
        arr, da = self.heap_arrays(st, key, f)
        st.heap[key] = (z3.Store(arr, obj.t, newval), z3.Store(da, obj.t, newdom))

    def ev_Subscript(self, e, st):
        ln = getattr(e, "lineno", None)
        base = self.as_container(st, self.ev(e.value, st), ln)
        if base.kind.startswith("map:"):
            self.require_not_none(st, base, "subscript of a dictionary attribute", ln)
            k = self.ev(e.slice, st)
            kt = self._key_term(base, k)
            present = z3.Select(base.x[3], kt)
            dflt = self._map_default(base)
            if dflt is not None:
                # collections.defaultdict: reading a missing key inserts the factory value
                val = z3.If(present, z3.Select(base.t, kt), dflt)
                if not self.spec:
                    self.map_store(st, base, z3.Store(base.t, kt, val), z3.Store(base.x[3], kt, True))
                return self._val_sv(base, val)
            if not self.spec:
                # a missing key raises KeyError: an exceptional exit (caught by an enclosing
                # `except KeyError`, otherwise an unexpected raise of the function)
                x = st.copy()
                x.assume(z3.And(*self.guard, z3.Not(present)) if self.guard else z3.Not(present))
                self.pending_raises.append(Exit("raise", x, exc="KeyError", lineno=ln))
                st.assume(z3.Implies(z3.And(*self.guard), present) if self.guard else present)
            return self._val_sv(base, z3.Select(base.t, kt))
        return self.subscript_other(e, st, base)

    def subscript_other(self, e, st, base):
        if base.kind == "kwdict":
            key = self._kw_key(self.ev(e.slice, st))
            if key in base.t:
                return base.t[key]
            x = st.copy()
            self.pending_raises.append(Exit("raise", x, exc="KeyError", lineno=getattr(e, "lineno", None)))
            raise DeadPath()
        if base.kind == "tuple":
            idx = self.ev(e.slice, st)
            k = self._as_pyint(idx)
            if k is not None and -len(base.t) <= k < len(base.t):
                return base.t[k]
        raise Unsupported("subscript on %s at line %s" % (base.kind, getattr(e, "lineno", "?")))

    # a dictionary held in a LOCAL or PARAMETER (e.g. a deepcopy memo): typed as a reference to a holder class whose one
    # map-valued ghost field the suite names in dict_views; subscripts, `in` and `del` on the reference act on that field
    dict_views = {}

    def as_container(self, st, v, ln=None):
        if v.kind == "ref" and v.cls is not None and v.cls in self.dict_views:
            self.require_not_none(st, v, "use of a dictionary", ln)
            return self.get_attr(st, v, self.dict_views[v.cls], ln)
        return v

    def assign_subscript(self, st, target, v, ln):
        base = self.as_container(st, self.ev(target.value, st), ln)
        if base.kind.startswith("map:"):
            self.require_not_none(st, base, "item store into a dictionary attribute", ln)
            k = self.ev(target.slice, st)
            kt = self._key_term(base, k)
            vs = base.kind.split(":")[2]
            if v.kind != vs:
                v = self.coerce(v, Field(vs), "map value")
            self.map_store(st, base, z3.Store(base.t, kt, v.t), z3.Store(base.x[3], kt, True))
            return
        raise Unsupported("subscript store at line %s" % ln)

    # ---- the **kwargs dictionary of the function under contract: a fixed set of literal keys (Contract.kwargs)
    def _kw_key(self, k):
        if k.kind == "str" and isinstance(k.x, str):
            return k.x
        raise Unsupported("**kwargs accessed with a key that is not a string literal")

    def kwdict_method(self, st, d, name, args, ln):
        if name == "get":
            key = self._kw_key(args[0])
            if key in d.t:
                return d.t[key]
            return args[1] if len(args) > 1 else NoneV()
        if name == "__contains__":
            return SV("bool", z3.BoolVal(self._kw_key(args[0]) in d.t))
        raise Unsupported("**kwargs.%s" % name)

    def map_delete(self, st, m, k, ln):
        """del m[k]: KeyError when absent"""
        self.require_not_none(st, m, "item deletion from a dictionary attribute", ln)
        kt = self._key_term(m, k)
        present = z3.Select(m.x[3], kt)
        x = st.copy()
        x.assume(z3.And(*self.guard, z3.Not(present)) if self.guard else z3.Not(present))
        self.pending_raises.append(Exit("raise", x, exc="KeyError", lineno=ln))
        st.assume(z3.Implies(z3.And(*self.guard), present) if self.guard else present)
        # re-read the map: the path condition above speaks about the current value
        cur = self.get_attr(st, m.x[0], m.x[1], ln)
        self.map_store(st, cur, cur.t, z3.Store(cur.x[3], kt, z3.BoolVal(False)))

    def st_Delete(self, s, st):
        for t in s.targets:
            if isinstance(t, ast.Subscript):
                base = self.as_container(st, self.ev(t.value, st), s.lineno)
                if base.kind.startswith("map:"):
                    self.map_delete(st, base, self.ev(t.slice, st), s.lineno)
                    continue
            raise Unsupported("del of %s at line %d" % (type(t).__name__, s.lineno))
        return [st], []

    def map_method(self, st, m, name, args, ln):
        if name == "pop":
            kt = self._key_term(m, args[0])
            present = z3.Select(m.x[3], kt)
            if len(args) < 2:
                x = st.copy()
                x.assume(z3.Not(present))
                self.pending_raises.append(Exit("raise", x, exc="KeyError", lineno=ln))
                st.assume(present)
                res = self._val_sv(m, z3.Select(m.t, kt))
            else:
                if args[1].kind != "none":
                    raise Unsupported("dict.pop with a non-None default")
                vs = m.kind.split(":")[2]
                if vs == "ref":
                    res = SV("ref", z3.If(present, z3.Select(m.t, kt), NONE), cls=m.cls)
                else:
                    res = self._val_sv(m, z3.Select(m.t, kt), none=z3.Not(present))
            self.map_store(st, m, m.t, z3.Store(m.x[3], kt, False))
            return res
        if name == "__contains__":
            return SV("bool", z3.Select(m.x[3], self._key_term(m, args[0])))
        if name == "__delitem__":
            self.map_delete(st, m, args[0], ln)
            return NoneV()
        if name == "keys" and not args:
            return SV("keysnap:" + m.kind.split(":")[1], m.x[3], cls=m.cls, x=m)
        if name == "clear":
            ks = m.kind.split(":")[1]
            self.map_store(st, m, m.t, z3.K(sort_of(ks, self.bits), z3.BoolVal(False)))
            return NoneV()
        if name == "get":
            kt = self._key_term(m, args[0])
            present = z3.Select(m.x[3], kt)
            vs = m.kind.split(":")[2]
            if len(args) > 1 and args[1].kind != "none":
                d = args[1]
                if d.kind == "int" and vs == "real":
                    d = SV("real", z3.ToReal(d.t))
                if d.kind != vs or d.none is not None or vs == "ref":
                    raise Unsupported("dict.get with a default of kind %s" % d.kind)
                return self._val_sv(m, z3.If(present, z3.Select(m.t, kt), d.t))
            if vs == "ref":
                return SV("ref", z3.If(present, z3.Select(m.t, kt), NONE), cls=m.cls)
            return self._val_sv(m, z3.Select(m.t, kt), none=z3.Not(present))
        raise Unsupported("dict method %s" % name)

    def ev_Tuple(self, e, st):
        return SV("tuple", tuple(self.ev(x, st) for x in e.elts))

    def ev_Call(self, e, st):
        ln = getattr(e, "lineno", None)
        # spec built-ins and Python built-ins by name
        if isinstance(e.func, ast.Name):
            nm = e.func.id
            if nm not in st.env:
                b = getattr(self, "bi_" + nm, None)
                if b is not None:
                    return b(e, st)
                if self.spec:
                    sb = getattr(self, "sp_" + nm, None)
                    if sb is not None:
                        return sb(e, st)
        f = self.ev(e.func, st)
        args = [self.ev(a, st) for a in e.args]
        kw = {}
        for k in e.keywords:
            if k.arg is None:
                # f(..., **mapping): keywords the analysis does not know.  Only in abstracting mode: every
                # parameter of the callee that is not passed explicitly may be supplied by the mapping
                if not getattr(self, "lenient", False) and not getattr(self, "kwargs_passthrough", False):
                    raise Unsupported("**kwargs call")
                kw["**"] = True
                continue
            kw[k.arg] = self.ev(k.value, st)
        return self.call(st, f, args, kw, ln)

    # ---- builtins
    def bi_isinstance(self, e, st):
        v = self.ev(e.args[0], st)
        tn = ast.unparse(e.args[1])
        if tn == "int":
            return SV("bool", z3.BoolVal(v.kind in ("int", "bits", "bool")) if v.none is None else z3.And(z3.Not(v.none), z3.BoolVal(v.kind in ("int", "bits", "bool"))))
        if tn == "str":
            return SV("bool", z3.BoolVal(v.kind == "str") if v.none is None else z3.And(z3.Not(v.none), z3.BoolVal(v.kind == "str")))
        if v.kind == "ref" and v.cls is not None:
            return SV("bool", z3.And(v.t != NONE, z3.BoolVal(tn.split(".")[-1] in self._mro(v.cls))))
        raise Unsupported("isinstance(%s, %s)" % (v.kind, tn))

    def bi_bool(self, e, st):
        return SV("bool", self.truthy(self.ev(e.args[0], st)))

    def bi_id(self, e, st):
        """id(x): an integer that identifies the object for as long as it is alive -- an injective function of the reference
        (ASSUMED: the objects whose ids are compared are alive at the same time, as the keys of a deepcopy memo are)"""
        v = self.ev(e.args[0], st)
        if v.kind != "ref":
            if getattr(self, "lenient", False):
                return self.opaque()
            raise Unsupported("id() of %s" % v.kind)
        idf = z3.Function("idof", Ref, z3.IntSort())
        inv = z3.Function("idof_inv", z3.IntSort(), Ref)
        r = z3.Const("idr!0", Ref)
        ax = z3.ForAll([r], inv(idf(r)) == r)
        if not any(ax.eq(c) for c in st.pc[-8:]):
            st.assume(ax)
        return SV("int", idf(v.t))

    def bi_len(self, e, st):
        v = self.ev(e.args[0], st)
        if v.kind == "tuple":
            return SV("int", z3.IntVal(len(v.t)))
        raise Unsupported("len of %s" % v.kind)

    def bi_abs(self, e, st):
        v = self.ev(e.args[0], st)
        self.require_not_none(st, v, "abs", getattr(e, "lineno", None))
        return SV(v.kind, z3.If(v.t >= 0, v.t, -v.t))

    def bi_float(self, e, st):
        v = self.ev(e.args[0], st)
        self.require_not_none(st, v, "float()", getattr(e, "lineno", None))
        if v.kind == "int":
            return SV("real", z3.ToReal(v.t))
        if v.kind == "real":
            return v
        raise Unsupported("float(%s)" % v.kind)

    # ---- spec built-ins (only in spec mode)
    def _sargs(self, e, st):
        return [self.ev(a, st) for a in e.args]

    def _b(self, v):
        if v.kind == "bits":
            return v.t
        if v.kind == "int":
            c = self._as_pyint(v)
            if c is not None:
                return self.bits.const(c)
        raise Unsupported("spec: expected bit set, got %s" % v.kind)

    def sp_subset(self, e, st):
        a, b = self._sargs(e, st)
        return SV("bool", self.bits.subset(self._b(a), self._b(b)))

    def sp_disjoint(self, e, st):
        a, b = self._sargs(e, st)
        return SV("bool", self.bits.disjoint(self._b(a), self._b(b)))

    def sp_inter(self, e, st):
        a, b = self._sargs(e, st)
        return SV("bits", self.bits.and_(self._b(a), self._b(b)))

    def sp_union(self, e, st):
        a, b = self._sargs(e, st)
        return SV("bits", self.bits.or_(self._b(a), self._b(b)))

    def sp_diff(self, e, st):
        a, b = self._sargs(e, st)
        return SV("bits", self.bits.diff(self._b(a), self._b(b)))

    def sp_empty(self, e, st):
        (a,) = self._sargs(e, st)
        return SV("bool", self.bits.is_zero(self._b(a)))

    def sp_card_le1(self, e, st):
        (a,) = self._sargs(e, st)
        return SV("bool", self.bits.card_le1(self._b(a)))

    def sp_low(self, e, st):
        (a,) = self._sargs(e, st)
        return SV("int", self.bits.low(self._b(a)))

    def sp_lowbit(self, e, st):
        """the singleton of the lowest set bit"""
        (a,) = self._sargs(e, st)
        return SV("bits", self.bits.singleton(self.bits.low(self._b(a))))

    def sp_singleton(self, e, st):
        (a,) = self._sargs(e, st)
        return SV("bits", self.bits.singleton(a.t))

    def sp_bit(self, e, st):
        a, k = self._sargs(e, st)
        return SV("bool", self.bits.bit(self._b(a), k.t))

    def sp_wf(self, e, st):
        (a,) = self._sargs(e, st)
        return SV("bool", self.bits.wf(self._b(a)))

    def sp_implies(self, e, st):
        a = self.truthy(self.ev(e.args[0], st))
        self.guard.append(a)
        try:
            b = self.truthy(self.ev(e.args[1], st))
        finally:
            self.guard.pop()
        return SV("bool", z3.Implies(a, b))

    def sp_iff(self, e, st):
        a, b = self._sargs(e, st)
        return SV("bool", self.truthy(a) == self.truthy(b))

    def sp_ite(self, e, st):
        c = self.truthy(self.ev(e.args[0], st))
        a = self.ev(e.args[1], st)
        b = self.ev(e.args[2], st)
        m = self.merge_sv(c, a, b)
        if m is None:
            raise Unsupported("spec ite kinds")
        return m

    def sp_isnone(self, e, st):
        (a,) = self._sargs(e, st)
        return SV("bool", self.is_none(a))

    def sp_truthy(self, e, st):
        (a,) = self._sargs(e, st)
        return SV("bool", self.truthy(a))

    def sp_old(self, e, st):
        if self.old_state is None:
            raise Unsupported("old() outside a postcondition")
        return self.ev(e.args[0], self.old_state)

    def sp_eq(self, e, st):
        a, b = self._sargs(e, st)
        return SV("bool", self.py_eq(a, b))

    def sp_has(self, e, st):
        m, k = self._sargs(e, st)
        return SV("bool", z3.Select(m.x[3], self._key_term(m, k)))

    def sp_get(self, e, st):
        m, k = self._sargs(e, st)
        return self._val_sv(m, z3.Select(m.t, self._key_term(m, k)))

    def sp_forall_ref(self, e, st):
        """forall_ref('Class', lambda r: body)"""
        cls = e.args[0].value
        lam = e.args[1]
        r = z3.Const(self._bound_name("q"), Ref)
        st2 = st.copy()
        st2.env[lam.args.args[0].arg] = SV("ref", r, cls=cls, x="nonnull")
        if self.old_state is not None:
            self.old_state.env[lam.args.args[0].arg] = SV("ref", r, cls=cls, x="nonnull")
        for ps in getattr(self, "pre_states", []):
            ps.env[lam.args.args[0].arg] = SV("ref", r, cls=cls, x="nonnull")
        body = self.truthy(self.ev(lam.body, st2))
        return SV("bool", z3.ForAll([r], z3.Implies(r != NONE, body)))

    def sp_forall_int(self, e, st):
        lam = e.args[0]
        r = z3.Int(self._bound_name("qi"))
        st2 = st.copy()
        st2.env[lam.args.args[0].arg] = SV("int", r)
        if self.old_state is not None:
            self.old_state.env[lam.args.args[0].arg] = SV("int", r)
        for ps in getattr(self, "pre_states", []):
            ps.env[lam.args.args[0].arg] = SV("int", r)
        body = self.truthy(self.ev(lam.body, st2))
        return SV("bool", z3.ForAll([r], body))

    def sp_exists_int(self, e, st):
        lam = e.args[0]
        r = z3.Int(self._bound_name("qe"))
        st2 = st.copy()
        st2.env[lam.args.args[0].arg] = SV("int", r)
        if self.old_state is not None:
            self.old_state.env[lam.args.args[0].arg] = SV("int", r)
        for ps in getattr(self, "pre_states", []):
            ps.env[lam.args.args[0].arg] = SV("int", r)
        body = self.truthy(self.ev(lam.body, st2))
        return SV("bool", z3.Exists([r], body))

    # ---- calls
    def call(self, st, f, args, kw, ln):
        if f.kind == "func":
            if isinstance(f.t, str) and f.t.startswith("str."):
                return self.str_method(st, f.x, f.t[4:], args, ln)
            if isinstance(f.t, str) and f.t.startswith("map."):
                return self.map_method(st, f.x, f.t[4:], args, ln)
            if isinstance(f.t, str) and f.t.startswith("kwdict."):
                return self.kwdict_method(st, f.x, f.t[7:], args, ln)
            if f.x is not None:  # bound method
                return self.call_method(st, f.x, f.t, args, kw, ln)
            # class-qualified or module function
            q = f.t
            if q in self.contracts:
                return self.apply_contract(st, self.contracts[q], None, args, kw, ln)
            cls, _, name = q.partition(".")
            fm = self._find_method(cls, name)
            if fm is not None:
                ci, fn = fm
                if name in ci.static:
                    c = self._contract_for(cls, name)
                    if c is not None:
                        return self.apply_contract(st, c, None, args, kw, ln)
                    if self._may_inline(q):
                        return self.inline_call(st, ci, fn, None, args, kw, ln)
                else:
                    # Class.method(self, ...) explicit-self call
                    if args and args[0].kind == "ref":
                        return self.call_method(st, args[0], name, args[1:], kw, ln)
            raise Unsupported("call of %s without contract (line %s)" % (q, ln))
        if f.kind == "lambda":
            return self.call_lambda(st, f, args, kw, ln)
        if f.kind == "class":
            return self.construct(st, f.t, args, kw, ln)
        raise Unsupported("call of %s" % f.kind)

    def construct(self, st, cls, args, kw, ln):
        k = "%s.__init__" % cls
        c = self.contracts.get(k)
        if c is None:
            raise Unsupported("constructor %s without contract" % cls)
        self.fresh_n += 1
        obj = SV("ref", z3.Const("new_%s!%d" % (cls, self.fresh_n), Ref), cls=cls, x="nonnull")
        st.assume(obj.t != NONE)
        # freshness: distinct from every reference bound in the environment ...
        for v in self._all_refs(st):
            st.assume(obj.t != v)
        # ... and referenced from nowhere in the heap as it is now: no reference field, list element, dictionary
        # key or value of any object holds it (so nothing read from the heap later, unless stored after this point,
        # can be the new object)
        self.assume_unreferenced(st, obj.t)
        self.apply_contract(st, c, obj, args, kw, ln)
        return obj

    def assume_unreferenced(self, st, o):
        r = z3.Const("fr!r%d" % self.fresh_n, Ref)
        for key, f in self.schema.items():
            if key.endswith("$none"):
                continue
            kind = f.kind
            if kind == "ref":
                arr, _ = self.heap_arrays(st, key, f)
                st.assume(z3.ForAll([r], z3.Select(arr, r) != o))
            elif kind.startswith("map:"):
                _, ks, vs = kind.split(":")[:3]
                arr, dom = self.heap_arrays(st, key, f)
                if ks == "ref":
                    st.assume(z3.ForAll([r], z3.Not(z3.Select(z3.Select(dom, r), o))))
                if vs == "ref":
                    k = z3.Const("fr!k%d" % self.fresh_n, sort_of(ks, self.bits))
                    st.assume(z3.ForAll([r, k], z3.Implies(z3.Select(z3.Select(dom, r), k), z3.Select(z3.Select(arr, r), k) != o)))
            else:
                self.assume_unreferenced_other(st, key, f, o, r)

    def assume_unreferenced_other(self, st, key, f, o, r):
        return

    def _all_refs(self, st):
        out = []
        for v in st.env.values():
            if v.kind == "ref":
                out.append(v.t)
        return out

    def _may_inline(self, q):
        c = self.cur
        return c is not None and (q in c.inline or q.split(".")[-1] in c.inline or "*" in c.inline)

    def call_method(self, st, obj, name, args, kw, ln):
        self.require_not_none(st, obj, "call .%s()" % name, ln)
        c = self._contract_for(obj.cls, name)
        q = "%s.%s" % (obj.cls, name)
        fm = self._find_method(obj.cls, name)
        is_prop_acc = fm is not None and self._is_accessor(obj.cls, name)
        if c is not None and not (self.cur is not None and self.cur.target.endswith(":" + q) and False):
            return self.apply_contract(st, c, obj, args, kw, ln)
        if fm is not None and (is_prop_acc or self._may_inline(q)):
            ci, fn = fm
            return self.inline_call(st, ci, fn, obj, args, kw, ln)
        raise Unsupported("call of %s without contract (line %s)" % (q, ln))

    def _is_accessor(self, cls, name):
        for c in self._mro(cls):
            ci = self.classes.get(c)
            if ci is None:
                continue
            for g, s in ci.properties.values():
                if name == g or name == s:
                    return True
        return False

    def bind_params(self, fn, selfv, args, kw, st):
        """bind call arguments to the parameters of FunctionDef fn; defaults are evaluated"""
        a = fn.args
        params = [p.arg for p in a.args]
        env = {}
        pos = list(args)
        if selfv is not None:
            pos = [selfv] + pos
        if len(pos) > len(params):
            raise Unsupported("too many positional args for %s" % fn.name)
        for p, v in zip(params, pos):
            env[p] = v
        kw = dict(kw)
        star = kw.pop("**", False)
        for k, v in kw.items():
            if k not in params and k not in [x.arg for x in a.kwonlyargs]:
                if a.kwarg is None:
                    raise Unsupported("unexpected keyword %s for %s" % (k, fn.name))
                if not getattr(self, "lenient", False):
                    raise Unsupported("**kwargs parameter")
                # collected by the callee's **kwargs dictionary, which the analysis treats as an abstracted value
                env[a.kwarg.arg] = self.opaque("**%s" % a.kwarg.arg)
                continue
            if k in env:
                raise Unsupported("duplicate argument %s" % k)
            env[k] = v
        defaults = a.defaults
        nd = len(defaults)
        for i, p in enumerate(params):
            if p not in env:
                if star:
                    env[p] = self.opaque("parameter %s possibly supplied through **kwargs" % p)
                    continue
                j = i - (len(params) - nd)
                if j < 0:
                    raise Unsupported("missing argument %s for %s" % (p, fn.name))
                env[p] = self.ev(defaults[j], st)
        for p, d in zip(a.kwonlyargs, a.kw_defaults):
            if p.arg not in env:
                if d is None:
                    raise Unsupported("missing kw-only argument")
                env[p.arg] = self.ev(d, st)
        if a.vararg is not None:
            raise Unsupported("*args parameter")
        if a.kwarg is not None and a.kwarg.arg not in env and getattr(self, "lenient", False):
            env[a.kwarg.arg] = self.opaque("**%s" % a.kwarg.arg)
        return env

    def inline_call(self, st, ci, fn, selfv, args, kw, ln):
        if self.depth > 6:
            raise Unsupported("inline depth")
        env = self.bind_params(fn, selfv, args, kw, st)
        saved_env = st.env
        saved_heap, saved_pc = dict(st.heap), list(st.pc)
        st.env = env
        self.depth += 1
        try:
            body, dropped = frontend.strip_docstring(fn)
            normal, exits = self.exec_block(body, [st])
        except Unsupported:
            # the callee is outside the subset: leave the caller's state exactly as it was before the
            # call (no half-executed effects, the caller's own variables back in scope)
            st.env, st.heap, st.pc = saved_env, saved_heap, saved_pc
            raise
        finally:
            self.depth -= 1
        # collect results: returns and normal fallthrough (None)
        outs = []
        for s in normal:
            outs.append((s, NoneV()))
        for x in exits:
            if x.kind == "return":
                outs.append((x.state, x.value if x.value is not None else NoneV()))
            elif x.kind == "raise":
                self.pending_raises.append(x)
            else:
                raise Unsupported("break/continue escaping inlined function")
        if not outs:
            raise DeadPath()
        # merge all outcomes back into st (mutating st in place)
        res_state, res_val = outs[0]
        for s, v in outs[1:]:
            # find distinguishing condition: conjunction of s's extra pc
            c = self._path_cond(res_state, st0_len=None)
            raise_if = None
            merged = self._merge_outcomes(res_state, res_val, s, v)
            if merged is None:
                raise Unsupported("cannot merge outcomes of inlined %s" % fn.name)
            res_state, res_val = merged
        st.env = saved_env
        st.heap = res_state.heap
        st.pc = res_state.pc
        return res_val

    pending_raises = []

    def _path_cond(self, s, st0_len):
        return None

    def _merge_outcomes(self, s1, v1, s2, v2):
        """merge two outcome states that share a common pc prefix"""
        n = 0
        while n < len(s1.pc) and n < len(s2.pc) and s1.pc[n].eq(s2.pc[n]):
            n += 1
        c1 = z3.And(*s1.pc[n:]) if len(s1.pc) > n else z3.BoolVal(True)
        base = s1.copy()
        base.pc = s1.pc[:n]
        a = s1.copy()
        b = s2.copy()
        a.env = dict(a.env)
        b.env = dict(b.env)
        a.env["$ret"] = v1
        b.env["$ret"] = v2
        # express as If(c1, s1, s2) with the disjunction of both path conditions kept
        c2 = z3.And(*s2.pc[n:]) if len(s2.pc) > n else z3.BoolVal(True)
        m = self.merge_states(c1, a, b, base)
        if m is None:
            return None
        m.pc = base.pc + [z3.Or(c1, c2)] + [z3.Implies(c1, x) for x in []]
        # keep side facts
        for x in s1.pc[n:]:
            pass
        v = m.env.pop("$ret")
        m.pc.append(z3.Implies(z3.Not(c1), c2))
        return m, v

    # ---- contract application (modular call)
    def apply_contract(self, st, c, selfv, args, kw, ln):
        m, ci, fn = frontend.resolve(c.target)
        is_static = ci is not None and fn.name in ci.static
        env = self.bind_params(fn, None if (ci is None or is_static) else selfv, args, kw, st)
        # coerce to declared types
        for p, ty in c.types.items():
            if p in env and p != "return":
                f = parse_type(ty)
                if f.kind == "opaque":
                    continue
                v = env[p]
                if v.kind == "none" or v.kind != f.kind:
                    env[p] = self.coerce(v, f, "argument %s of %s" % (p, c.name))
                if f.cls and env[p].kind == "ref" and env[p].cls is None:
                    env[p] = SV("ref", env[p].t, cls=f.cls)
                if not f.opt and env[p].none is not None and env[p].kind != "ref":
                    self.oblige(st, z3.Not(env[p].none), "call[%s].type[%s not None]" % (c.name, p), ln, kind="call-pre")
        callee_pre = st.copy()
        callee_pre.env = env
        # precondition is an obligation of the caller
        pre = self.spec_eval(c.requires, callee_pre, None, None)
        if not z3.is_true(pre):
            self.oblige(st, pre, "call[%s].requires" % c.name, ln, kind="call-pre")
        st.assume(pre) if not z3.is_true(pre) else None
        # havoc the frame
        old = callee_pre.copy()
        for loc in c.modifies:
            self.havoc_loc(st, loc, env)
        # result
        res = NoneV()
        rt = c.types.get("return")
        if rt and parse_type(rt).kind == "opaque":
            res = self.opaque()
        elif rt and rt.startswith("tuple:"):
            res = SV("tuple", tuple(self.fresh(k, "ret_%s_%d" % (fn.name, i)) for i, k in enumerate(rt.split(":")[1:])))
        elif rt:
            f = parse_type(rt)
            res = self.fresh(f.kind, "ret_%s" % fn.name, cls=f.cls, opt=f.opt)
            if f.kind == "bits":
                st.assume(self.bits.wf(res.t))
        post = st.copy()
        post.env = env
        # raises: conditions under which the callee raises -> the caller's path raises too
        for exc, cond in c.raises.items():
            rc = self.spec_eval(cond, old, None, None)
            if not z3.is_false(rc):
                x = st.copy()
                x.heap = dict(old.heap)
                x.assume(z3.And(*self.guard, rc) if self.guard else rc)
                self.pending_raises.append(Exit("raise", x, exc=exc, lineno=ln))
                st.assume(z3.Not(rc))
                post.assume(z3.Not(rc))
        for nm, ens in c.ensures_items():
            e = self.spec_eval(ens, post, old, res)
            st.assume(e)
        if c.returns:
            post2 = st.copy()
            post2.env = env
            res = self.spec_value(c.returns, post2)
            if res.none is not None:
                st.assume(z3.Not(res.none))
                res = SV(res.kind, res.t, cls=res.cls, x=res.x)
        return res

    def havoc_loc(self, st, loc, env):
        """loc: 'param._attr' (one object) or 'Class._attr[*]' (all objects), optionally
        followed by ' if <spec condition over the pre-state>' (conditional frame)"""
        cond = None
        if " if " in loc:
            loc, _, ctext = loc.partition(" if ")
            loc = loc.strip()
            tmp = st.copy()
            tmp.env = env
            cond = self.spec_eval(ctext, tmp, None, None)

        def pick(new, old):
            return new if cond is None else z3.If(cond, new, old)

        if loc.endswith("[*]"):
            key = loc[:-3]
            f = self.schema[key]
            arr, na = self.heap_arrays(st, key, f)
            self.fresh_n += 1
            nm = key.replace(".", "_")
            st.heap[key] = (pick(z3.Const("hv_%s!%d" % (nm, self.fresh_n), arr.sort()), arr),
                            pick(z3.Const("hvn_%s!%d" % (nm, self.fresh_n), na.sort()), na) if na is not None else None)
            return
        base, _, attr = loc.rpartition(".")
        tmp = st.copy()
        tmp.env = env
        sp = self.spec
        self.spec = True
        try:
            obj = self.ev(ast.parse(base, mode="eval").body, tmp)
        finally:
            self.spec = sp
        key, f = self.field(obj.cls, attr)
        arr, na = self.heap_arrays(st, key, f)
        self.fresh_n += 1
        if (key + "$none") in self.schema:
            fl, _ = self.heap_arrays(st, key + "$none", self.schema[key + "$none"])
            st.heap[key + "$none"] = (pick(z3.Store(fl, obj.t, z3.Const("hvnone_%s!%d" % (attr, self.fresh_n), B)), fl), None)
        fv = z3.Const("hv_%s!%d" % (attr, self.fresh_n), arr.sort().range())
        arr2 = pick(z3.Store(arr, obj.t, fv), arr)
        na2 = na
        if na is not None:
            na2 = pick(z3.Store(na, obj.t, z3.Const("hvn_%s!%d" % (attr, self.fresh_n), na.sort().range())), na)
        if f.kind == "bits":
            st.assume(self.bits.wf(fv))
        st.heap[key] = (arr2, na2)

    # Bound variables of spec quantifiers are numbered per top-level spec evaluation (not from the global counter):
    # evaluating the same spec text in the same state twice gives the IDENTICAL z3 term, so "the invariant assumed at
    # the loop head implies the same clause asserted at the loop exit" and similar steps are syntactic, not a matter of
    # quantifier instantiation (which made verdicts depend on term ordering).
    _spec_depth = 0
    _bound_n = 0

    def _bound_name(self, prefix):
        self._bound_n += 1
        return "%s!b%d" % (prefix, self._bound_n)

    def spec_eval(self, text, st, old, result):
        """evaluate a spec expression (string) to a z3 Bool"""
        if text is None or text == "True":
            return z3.BoolVal(True)
        node = ast.parse(text.strip(), mode="eval").body
        sp, os_, rs, g = self.spec, self.old_state, self.result_sv, self.guard
        self.spec, self.old_state, self.result_sv, self.guard = True, old, result, []
        if self._spec_depth == 0:
            self._bound_n = 0
        self._spec_depth += 1
        try:
            return self.truthy(self.ev(node, st))
        finally:
            self._spec_depth -= 1
            self.spec, self.old_state, self.result_sv, self.guard = sp, os_, rs, g

    def spec_value(self, text, st, old=None, result=None):
        node = ast.parse(text.strip(), mode="eval").body
        sp, os_, rs, g = self.spec, self.old_state, self.result_sv, self.guard
        self.spec, self.old_state, self.result_sv, self.guard = True, old, result, []
        if self._spec_depth == 0:
            self._bound_n = 0
        self._spec_depth += 1
        try:
            return self.ev(node, st)
        finally:
            self._spec_depth -= 1
            self.spec, self.old_state, self.result_sv, self.guard = sp, os_, rs, g

    # ---- strings (interned; case maps uninterpreted)
    def str_method(self, st, s, name, args, ln):
        self.require_not_none(st, s, "str.%s()" % name, ln)
        if name == "upper":
            return SV("str", self.upper(s.t))
        if name == "lower":
            return SV("str", self.lower(s.t))
        if name in ("startswith", "endswith", "isdigit"):
            self.fresh_n += 1
            f = z3.Function("str_%s" % name, *([I] * (1 + len(args)) + [B]))
            return SV("bool", f(s.t, *[a.t for a in args]))
        raise Unsupported("str.%s" % name)

    # ------------------------------------------------------------------ statements
    def exec_block(self, stmts, states):
        """returns (normal_states, exits)"""
        exits = []
        cur = list(states)
        for stn in stmts:
            if not cur:
                break
            if frontend.is_dropped_stmt(stn):
                self.dropped.append("%s@L%d: %s" % (self.cur_name, stn.lineno, ast.unparse(stn)[:60]))
                continue
            nxt = []
            for s in cur:
                try:
                    n, x = self.exec_stmt(stn, s)
                except DeadPath:
                    n, x = [], []
                # raises produced by contract application inside expressions
                if self.pending_raises:
                    x = list(x) + self.pending_raises
                    self.pending_raises = []
                nxt.extend(n)
                exits.extend(x)
            cur = nxt
        return cur, exits

    def exec_stmt(self, s, st):
        m = getattr(self, "st_" + type(s).__name__, None)
        if m is None:
            raise Unsupported("statement %s at line %d" % (type(s).__name__, s.lineno))
        return m(s, st)

    def st_Pass(self, s, st):
        return [st], []

    def st_Expr(self, s, st):
        if isinstance(s.value, ast.Constant):
            return [st], []
        self.ev(s.value, st)
        return [st], []

    def st_Return(self, s, st):
        v = self.ev(s.value, st) if s.value is not None else NoneV()
        return [], [Exit("return", st, value=v, lineno=s.lineno)]

    def st_Raise(self, s, st):
        exc = "Exception"
        if s.exc is not None:
            if isinstance(s.exc, ast.Call):
                exc = ast.unparse(s.exc.func).split(".")[-1]
            else:
                exc = ast.unparse(s.exc).split(".")[-1]
        return [], [Exit("raise", st, exc=exc, lineno=s.lineno)]

    def st_Break(self, s, st):
        return [], [Exit("break", st, lineno=s.lineno)]

    def st_Continue(self, s, st):
        return [], [Exit("continue", st, lineno=s.lineno)]

    def st_Assert(self, s, st):
        c = self.truthy(self.ev(s.test, st))
        # an assert is an obligation: no AssertionError may escape (unless the contract
        # lists the assert's line as a documented precondition)
        self.oblige(st, c, "assert", s.lineno, kind="assert")
        st.assume(c)
        return [st], []

    def st_Assign(self, s, st):
        v = self.ev(s.value, st)
        for t in s.targets:
            self.assign(st, t, v, s.lineno)
        return [st], []

    def st_AugAssign(self, s, st):
        load = ast.copy_location(_as_load(s.target), s.target)
        cur = self.ev(load, st)
        rhs = self.ev(s.value, st)
        inplace = {ast.Add: "__iadd__", ast.Sub: "__isub__", ast.BitOr: "__ior__", ast.BitAnd: "__iand__"}.get(type(s.op))
        if cur.kind == "ref" and cur.cls is not None and inplace is not None and (
                self._contract_for(cur.cls, inplace) is not None or self._find_method(cur.cls, inplace) is not None):
            # x += y on an object whose class defines the in-place operator: x = x.__iadd__(y)
            self.require_not_none(st, cur, "operand of an in-place operator", s.lineno)
            v = self.call_method(st, cur, inplace, [rhs], {}, s.lineno)
        else:
            v = self.binop(st, s.op, cur, rhs, s.lineno)
        self.assign(st, s.target, v, s.lineno)
        return [st], []

    def assign(self, st, target, v, ln):
        if isinstance(target, ast.Name):
            ty = self.cur.locals.get(target.id) if self.cur is not None else None
            if ty is not None:
                v = self.coerce(v, parse_type(ty), "local %s" % target.id)
            st.env[target.id] = v
        elif isinstance(target, ast.Attribute):
            obj = self.ev(target.value, st)
            if obj.kind == "ref":
                pr = self._find_property(obj.cls, target.attr)
                if pr is not None and not ("%s.%s" % (obj.cls, target.attr) in self.schema):
                    _, setter = pr
                    if setter is None:
                        raise Unsupported("read-only property %s" % target.attr)
                    self.call_method(st, obj, setter, [v], {}, ln)
                    return
            self.set_attr(st, obj, target.attr, v, ln)
        elif isinstance(target, (ast.Tuple, ast.List)):
            if v.kind != "tuple" or len(v.t) != len(target.elts):
                raise Unsupported("unpacking of %s" % v.kind)
            for t, x in zip(target.elts, v.t):
                self.assign(st, t, x, ln)
        elif isinstance(target, ast.Subscript):
            self.assign_subscript(st, target, v, ln)
        else:
            raise Unsupported("assignment target %s" % type(target).__name__)

    def st_If(self, s, st):
        cv = self.ev(s.test, st)
        c = z3.simplify(self.truthy(cv))
        if z3.is_true(c):
            return self.exec_block(s.body, [st])
        if z3.is_false(c):
            return self.exec_block(s.orelse, [st])
        k = self.known_by_path(st, c)
        if k is True:
            return self.exec_block(s.body, [st])
        if k is False:
            return self.exec_block(s.orelse, [st])
        s1 = st.copy()
        s1.assume(c)
        s2 = st.copy()
        s2.assume(z3.Not(c))
        n1, x1 = self.exec_block(s.body, [s1]) if self.feasible(s1) else ([], [])
        n2, x2 = self.exec_block(s.orelse, [s2]) if self.feasible(s2) else ([], [])
        exits = x1 + x2
        if len(n1) == 1 and len(n2) == 1:
            m = self.merge_states(c, n1[0], n2[0], st)
            if m is not None:
                return [m], exits
        return n1 + n2, exits

    prune_infeasible = False

    def known_by_path(self, st, c):
        """a condition (or its negation) that is literally one of the path facts: only one branch is live"""
        nc = z3.simplify(z3.Not(c))
        for fact in st.pc:
            f = z3.simplify(fact)
            if f.eq(c):
                return True
            if f.eq(nc):
                return False
        return None

    def feasible(self, st):
        # pruning is only an optimisation; with quantified axioms a sat answer is slow/unknown
        if not self.prune_infeasible and self.bits.name == "array":
            return True
        s = z3.Solver()
        s.set("timeout", 300)
        for a in self.all_axioms():
            s.add(a)
        s.add(*st.pc)
        return s.check() != z3.unsat

    def all_axioms(self):
        return list(self.bits.axioms) + self.finalize_str_axioms() + list(getattr(self, "extra_axioms", []))

    def st_Try(self, s, st):
        raise Unsupported("try statement at line %d" % s.lineno)

    def st_While(self, s, st):
        return self.exec_loop(s, st)

    def st_For(self, s, st):
        return self.exec_loop(s, st)

    def exec_loop(self, s, st):
        raise Unsupported("loop at line %d (no loop theory loaded)" % s.lineno)


class DeadPath(Exception):
    """the current path cannot continue (e.g. attribute access on the literal None,
    after the None-safety obligation has been emitted)"""


def _as_load(node):
    n = ast.parse(ast.unparse(node), mode="eval").body
    return n
