"""Theory F (DESIGN.md 2.3): frame conditions discharged by a modular effect
check on the AST of the real source -- no SMT involved.  Obligations are still
named, counted and reported per function, with back end `effects`.

rng discipline (C18): a function under contract may use randomness only
through its `rng` parameter:
  E1  GLOBAL_RNG is read only to initialise the local `rng` default
      (`if rng is None: rng = GLOBAL_RNG`, `rng = kwargs.pop/get('rng', GLOBAL_RNG)`);
  E2  no call of a module-level `random.*` function (random.Random(seed) objects excepted
      only when the seed comes from rng);
  E3  every call to a callee that declares an `rng` parameter forwards one (`rng=<expr mentioning rng>`
      or the positional slot), callee resolved by name over the indexed dendropy modules;
  E4  every method called on something other than `rng` that draws random numbers is covered by E3.
purity (C16): the function reads only its parameters: no getattr/setattr with a
dynamic attribute name on tree nodes unless the contract's `reads`/`writes` clause allows it."""
import ast
import time

from . import frontend

INDEX_MODULES = [
    "dendropy.model.birthdeath", "dendropy.model.coalescent", "dendropy.model.treeshape", "dendropy.model.discrete",
    "dendropy.model.continuous", "dendropy.model.reconcile", "dendropy.model.multispeciescoalescent",
    "dendropy.model.protractedspeciation", "dendropy.simulate.treesim", "dendropy.simulate.charsim", "dendropy.simulate.popgensim",
    "dendropy.calculate.probability", "dendropy.calculate.combinatorics", "dendropy.calculate.statistics",
    "dendropy.datamodel.treemodel._tree", "dendropy.datamodel.treemodel._node", "dendropy.datamodel.treecollectionmodel",
    "dendropy.datamodel.taxonmodel", "dendropy.datamodel.charmatrixmodel", "dendropy.utility.constants",
]


def build_index():
    """name -> list of (module, qualname, FunctionDef, has_rng, rng_position)"""
    idx = {}
    for mn in INDEX_MODULES:
        try:
            m = frontend.module(mn)
        except Exception:
            continue
        for node in m.tree.body:
            if isinstance(node, ast.FunctionDef):
                _add(idx, mn, node.name, node, False)
            elif isinstance(node, ast.ClassDef):
                for st in node.body:
                    if isinstance(st, ast.FunctionDef):
                        _add(idx, mn, "%s.%s" % (node.name, st.name), st, True)
    return idx


def _add(idx, mn, qual, fn, is_method):
    params = [a.arg for a in fn.args.args]
    if is_method and params and params[0] in ("self", "cls"):
        params = params[1:]
    kwonly = [a.arg for a in fn.args.kwonlyargs]
    has = "rng" in params or "rng" in kwonly
    takes_kwargs_rng = False
    if not has and fn.args.kwarg is not None:
        src = ast.unparse(fn)
        if "kwargs.pop('rng'" in src or 'kwargs.pop("rng"' in src or "kwargs.get('rng'" in src or 'kwargs.get("rng"' in src:
            has = True
            takes_kwargs_rng = True
    pos = params.index("rng") if "rng" in params else None
    idx.setdefault(qual.split(".")[-1], []).append(dict(module=mn, qual=qual, fn=fn, has_rng=has, pos=pos, kw=takes_kwargs_rng))


def _mentions(node, name):
    return any(isinstance(n, ast.Name) and n.id == name for n in ast.walk(node))


def _is_rng_default_init(stmt_or_expr_parent, node):
    return False


def rng_obligations(ctx, target, idx, extra_rng_names=("rng",)):
    """emit E1..E3 obligations for one function; returns the set of callee quals that take rng (for transitive closure)"""
    m, ci, fn = frontend.resolve(target)
    name = target.split(":")[1]
    t0 = time.time()
    callees = set()
    # parent map
    parents = {}
    for p in ast.walk(fn):
        for ch in ast.iter_child_nodes(p):
            parents[ch] = p
    rng_names = set(extra_rng_names)
    # ---- E1: reads of GLOBAL_RNG
    bad_global = []
    for n in ast.walk(fn):
        if isinstance(n, ast.Name) and n.id == "GLOBAL_RNG" or (isinstance(n, ast.Attribute) and n.attr == "GLOBAL_RNG"):
            if isinstance(n, ast.Name) or True:
                if not _allowed_global_read(n, parents):
                    bad_global.append(n.lineno)
    _emit(ctx, "%s.rng.E1[GLOBAL_RNG only as the default of rng]" % name, not bad_global, target,
          "GLOBAL_RNG read at line(s) %s outside the rng-default idiom" % sorted(set(bad_global)), m, t0)
    # ---- E2: module-level random.* calls
    bad_random = []
    for n in ast.walk(fn):
        if isinstance(n, ast.Call) and isinstance(n.func, ast.Attribute) and isinstance(n.func.value, ast.Name) and n.func.value.id == "random":
            if n.func.attr == "Random" and any(_mentions(a, r) for a in n.args for r in rng_names):
                continue
            bad_random.append((n.lineno, n.func.attr))
    _emit(ctx, "%s.rng.E2[no module-level random.* call]" % name, not bad_random, target,
          "module-level random.%s call(s) at line(s) %s" % (",".join(sorted(set(a for _, a in bad_random))), sorted(set(l for l, _ in bad_random))), m, t0)
    # ---- E3: forwarding
    for n in ast.walk(fn):
        if not isinstance(n, ast.Call):
            continue
        if isinstance(n.func, ast.Attribute):
            cname = n.func.attr
            base = n.func.value
            if isinstance(base, ast.Name) and base.id in rng_names:
                continue  # rng.random(), rng.shuffle(...)
        elif isinstance(n.func, ast.Name):
            cname = n.func.id
        else:
            continue
        cands = [c for c in idx.get(cname, []) if c["has_rng"]]
        if not cands:
            continue
        # if some same-named function has no rng parameter and the call cannot be resolved, be conservative: require forwarding
        passed = None
        for k in n.keywords:
            if k.arg == "rng":
                passed = k.value
            elif k.arg is None and isinstance(k.value, ast.Name) and k.value.id == "kwargs":
                passed = "kwargs"
        if passed is None:
            for c in cands:
                if c["pos"] is not None and len(n.args) > c["pos"]:
                    passed = n.args[c["pos"]]
        ok = passed is not None and (passed == "kwargs" or any(_mentions(passed, r) for r in rng_names))
        for c in cands:
            callees.add("%s:%s" % (c["module"], c["qual"]))
        _emit(ctx, "%s.rng.E3[call of %s@L%d forwards rng]" % (name, cname, n.lineno), ok, target,
              "call `%s` at line %d does not pass rng to a callee that declares one (%s)" % (
                  ast.unparse(n)[:80], n.lineno, ", ".join(c["qual"] for c in cands)), m, t0,
              site="%s:%s" % (name, cname))
    return callees


def _allowed_global_read(n, parents):
    p = parents.get(n)
    # rng = GLOBAL_RNG   (inside `if rng is None:`)
    if isinstance(p, ast.Assign) and len(p.targets) == 1 and isinstance(p.targets[0], ast.Name) and p.targets[0].id == "rng" and p.value is n:
        return True
    # rng = kwargs.pop('rng', GLOBAL_RNG) / kwargs.get('rng', GLOBAL_RNG)
    if isinstance(p, ast.Call) and isinstance(p.func, ast.Attribute) and p.func.attr in ("pop", "get") and len(p.args) == 2 \
            and isinstance(p.args[0], ast.Constant) and p.args[0].value == "rng" and p.args[1] is n:
        return True
    # a default parameter value: def f(..., rng=GLOBAL_RNG)
    if isinstance(p, ast.arguments):
        return True
    return False


def _emit(ctx, name, ok, target, why, m, t0, site=None):
    ctx.obligation(name, "proved" if ok else "refuted", "effects", time.time() - t0, target, detail=None if ok else why)
    if not ok:
        ctx.pending_effect_failures = getattr(ctx, "pending_effect_failures", [])
        ctx.pending_effect_failures.append(dict(name=name, target=target, why=why, site=site, path=m.path))


def check_rng_closure(ctx, roots, max_depth=4):
    """E1-E3 for the root simulators and, transitively, every callee that declares rng"""
    idx = build_index()
    seen = set()
    frontier = list(roots)
    depth = 0
    while frontier and depth <= max_depth:
        nxt = []
        for t in frontier:
            if t in seen:
                continue
            seen.add(t)
            try:
                frontend.resolve(t)
            except KeyError:
                ctx.note("effects: %s not found (skipped)" % t)
                continue
            ctx.add_function(t)
            callees = rng_obligations(ctx, t, idx)
            for c in callees:
                if c not in seen:
                    nxt.append(c)
        frontier = nxt
        depth += 1
    return seen


# ----------------------------------------------------------------------------- argument forwarding (wrappers)
def forwarding_obligations(ctx, wrapper_target, callee_target, exempt=()):
    """Contract of a thin wrapper: every parameter it shares (by name) with the callee it
    delegates to reaches that callee unchanged.  One obligation per shared parameter."""
    m, ci, fn = frontend.resolve(wrapper_target)
    m2, ci2, callee = frontend.resolve(callee_target)
    wname = wrapper_target.split(":")[1]
    cname = callee_target.split(":")[1].split(".")[-1]
    wparams = [a.arg for a in fn.args.args if a.arg not in ("self", "cls")] + [a.arg for a in fn.args.kwonlyargs]
    cparams = [a.arg for a in callee.args.args if a.arg not in ("self", "cls")] + [a.arg for a in callee.args.kwonlyargs]
    calls = [n for n in ast.walk(fn) if isinstance(n, ast.Call) and (
        (isinstance(n.func, ast.Attribute) and n.func.attr == cname) or (isinstance(n.func, ast.Name) and n.func.id == cname))]
    t0 = time.time()
    ctx.add_function(wrapper_target)
    failures = []
    if not calls:
        ctx.obligation("%s.delegates-to[%s]" % (wname, cname), "refuted", "effects", 0.0, wrapper_target, detail="no call of %s found" % cname)
        failures.append(("%s.delegates-to[%s]" % (wname, cname), None))
        return failures
    for p in wparams:
        if p not in cparams or p in exempt:
            continue
        ok = True
        for call in calls:
            passed = None
            for k in call.keywords:
                if k.arg == p:
                    passed = k.value
                elif k.arg is None:
                    passed = k.value  # **kwargs
            pos = cparams.index(p)
            if passed is None and len(call.args) > pos:
                passed = call.args[pos]
            if passed is None or not _mentions(passed, p):
                ok = False
        name = "%s.forwards[%s -> %s]" % (wname, p, cname)
        ctx.obligation(name, "proved" if ok else "refuted", "effects", time.time() - t0, wrapper_target,
                       detail=None if ok else "parameter %s is accepted but not passed on to %s" % (p, cname))
        if not ok:
            failures.append((name, p))
    return failures


# ----------------------------------------------------------------------------- guard progress (necessary condition for termination)
def guard_progress_obligations(ctx, modname, only_functions=None):
    """For every `while` loop: the body must be able to change the truth of the guard or leave the
    loop -- it assigns a name the guard reads, calls a method on / stores into an object the guard
    reads, or contains break / return / raise.  A loop failing this either never runs or never ends.
    This is a NECESSARY condition for termination (named `guard-progress`), not a termination proof."""
    m = frontend.module(modname)
    failures = []
    for fn in ast.walk(m.tree):
        if not isinstance(fn, ast.FunctionDef):
            continue
        if only_functions and fn.name not in only_functions:
            continue
        for loop in [n for n in ast.walk(fn) if isinstance(n, ast.While)]:
            t0 = time.time()
            guard_names = set(n.id for n in ast.walk(loop.test) if isinstance(n, ast.Name))
            guard_roots = set()
            for n in ast.walk(loop.test):
                if isinstance(n, ast.Attribute):
                    r = n
                    while isinstance(r, ast.Attribute):
                        r = r.value
                    if isinstance(r, ast.Name):
                        guard_roots.add(r.id)
            const_true = isinstance(loop.test, ast.Constant) and bool(loop.test.value)
            ok = False
            for st in loop.body:
                for n in ast.walk(st):
                    if isinstance(n, (ast.Break, ast.Return, ast.Raise)):
                        ok = True
                    elif isinstance(n, (ast.Assign, ast.AugAssign)):
                        for t in (n.targets if isinstance(n, ast.Assign) else [n.target]):
                            for x in ast.walk(t):
                                if isinstance(x, ast.Name) and x.id in guard_names:
                                    ok = True
                    elif isinstance(n, ast.Call):
                        # a call may change the state of an object the guard reads (method call on it,
                        # or passing it as an argument), or be a yield-like/step call on self
                        f = n.func
                        r = f
                        while isinstance(r, ast.Attribute):
                            r = r.value
                        if isinstance(r, ast.Name) and (r.id in guard_names or r.id in guard_roots):
                            ok = True
                        for a in list(n.args) + [k.value for k in n.keywords]:
                            if any(isinstance(x, ast.Name) and x.id in guard_names for x in ast.walk(a)):
                                ok = True
            name = "%s.%s.while@L%d.guard-progress" % (modname.split(".")[-1], fn.name, loop.lineno)
            if const_true:
                ok = ok  # `while True` needs an exit statement
            ctx.obligation(name, "proved" if ok else "refuted", "effects", time.time() - t0, "%s:%s" % (modname, fn.name),
                           detail=None if ok else "body of `while %s` neither changes anything the guard reads nor leaves the loop" % ast.unparse(loop.test)[:60])
            if not ok:
                failures.append((name, fn.name, loop.lineno, ast.unparse(loop.test)))
    return failures


# ----------------------------------------------------------------------------- attribute-store closure of a method (constant-propagated)
_UNK = object()


def _cval(node, env):
    if isinstance(node, ast.Constant):
        return node.value
    if isinstance(node, ast.Name) and node.id in env:
        return env[node.id]
    return _UNK


def _decide_test(test, env):
    if isinstance(test, ast.Compare) and len(test.ops) == 1:
        l, r = _cval(test.left, env), _cval(test.comparators[0], env)
        if l is not _UNK and r is not _UNK:
            op = test.ops[0]
            if isinstance(op, ast.Is):
                return l is r
            if isinstance(op, ast.IsNot):
                return l is not r
            if isinstance(op, ast.Eq):
                return l == r
            if isinstance(op, ast.NotEq):
                return l != r
        return None
    if isinstance(test, ast.UnaryOp) and isinstance(test.op, ast.Not):
        d = _decide_test(test.operand, env)
        return None if d is None else (not d)
    if isinstance(test, ast.Name):
        v = _cval(test, env)
        return None if v is _UNK else bool(v)
    if isinstance(test, ast.BoolOp):
        vals = [_decide_test(v, env) for v in test.values]
        if isinstance(test.op, ast.And):
            if any(v is False for v in vals):
                return False
            return True if all(v is True for v in vals) else None
        if any(v is True for v in vals):
            return True
        return False if all(v is False for v in vals) else None
    return None


class MethodEffects(object):
    """Which `self.<attr> = ...` stores are reachable from a method of a class, following calls of the
    form self.<method>(...) inside the same class with constant propagation of the arguments passed
    (a branch guarded by a parameter that the call site fixes to a constant is followed or pruned)."""

    def __init__(self, modname, clsname):
        self.mod = frontend.module(modname)
        self.cls = self.mod.classes[clsname]
        self.stores = []  # (attr, method, lineno, value source)
        self.visited = set()

    def analyse(self, method, env=None, depth=0):
        fn = self.cls.methods.get(method)
        if fn is None or depth > 8:
            return
        env = dict(env or {})
        key = (method, tuple(sorted((k, repr(v)) for k, v in env.items() if v is not _UNK)))
        if key in self.visited:
            return
        self.visited.add(key)
        # parameters not fixed by the caller: defaults are NOT assumed (the public caller may pass anything)
        body, _ = frontend.strip_docstring(fn)
        self._block(body, env, method, depth)

    def _bind(self, callee, call, env):
        params = [a.arg for a in callee.args.args if a.arg != "self"]
        nd = len(callee.args.defaults)
        cenv = {}
        allp = [a.arg for a in callee.args.args]
        for i, p in enumerate(allp):
            if p == "self":
                continue
            j = i - (len(allp) - nd)
            cenv[p] = _cval(callee.args.defaults[j], {}) if j >= 0 else _UNK
        for i, a in enumerate(call.args):
            if i < len(params):
                cenv[params[i]] = _cval(a, env)
        for k in call.keywords:
            if k.arg in cenv:
                cenv[k.arg] = _cval(k.value, env)
            elif k.arg is None:
                for p in cenv:
                    cenv[p] = _UNK
        return cenv

    def _block(self, stmts, env, method, depth):
        for st in stmts:
            if isinstance(st, ast.If):
                d = _decide_test(st.test, env)
                self._expr(st.test, env, method, depth)
                if d is True:
                    self._block(st.body, env, method, depth)
                elif d is False:
                    self._block(st.orelse, env, method, depth)
                else:
                    e1, e2 = dict(env), dict(env)
                    self._block(st.body, e1, method, depth)
                    self._block(st.orelse, e2, method, depth)
                    for k in list(env):
                        if e1.get(k, _UNK) is _UNK or e1.get(k, _UNK) != e2.get(k, _UNK):
                            env[k] = _UNK
                continue
            if isinstance(st, (ast.For, ast.While)):
                for n in ast.walk(st):
                    if isinstance(n, (ast.Assign, ast.AugAssign)):
                        for t in (n.targets if isinstance(n, ast.Assign) else [n.target]):
                            for m in ast.walk(t):
                                if isinstance(m, ast.Name):
                                    env[m.id] = _UNK
                self._block(st.body, env, method, depth)
                continue
            if isinstance(st, ast.Try):
                self._block(st.body, env, method, depth)
                for h in st.handlers:
                    self._block(h.body, env, method, depth)
                self._block(st.orelse, env, method, depth)
                self._block(st.finalbody, env, method, depth)
                continue
            if isinstance(st, (ast.Assign, ast.AugAssign)):
                val = st.value
                self._expr(val, env, method, depth)
                for t in (st.targets if isinstance(st, ast.Assign) else [st.target]):
                    if isinstance(t, ast.Name):
                        env[t.id] = _cval(val, env) if isinstance(st, ast.Assign) and isinstance(val, (ast.Constant, ast.Name)) else _UNK
                    elif isinstance(t, ast.Attribute) and isinstance(t.value, ast.Name) and t.value.id == "self":
                        self.stores.append((t.attr, method, st.lineno, ast.unparse(val)))
                continue
            for n in ast.iter_child_nodes(st):
                if isinstance(n, ast.expr):
                    self._expr(n, env, method, depth)

    def _expr(self, e, env, method, depth):
        for n in ast.walk(e):
            if isinstance(n, ast.Call) and isinstance(n.func, ast.Attribute) and isinstance(n.func.value, ast.Name) and n.func.value.id == "self":
                name = n.func.attr
                callee = self.cls.methods.get(name)
                if callee is not None:
                    self.analyse(name, self._bind(callee, n, env), depth + 1)
