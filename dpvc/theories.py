"""Value theories of the dpvc symbolic executor (DESIGN.md section 2.3).

(A) Python ints used as bit masks are `Array Int Bool` (characteristic function
    of the set bits in infinite two's complement, indices restricted to the
    naturals through the constant array NAT).  A second, bit-vector instance of
    the same interface is used only to *search* for replayable counterexamples.
(B) Heap: uninterpreted sort Ref with None; attributes are arrays Ref -> value.
"""
import z3

Ref = z3.DeclareSort("Ref")
NONE = z3.Const("None", Ref)
I = z3.IntSort()
B = z3.BoolSort()
R = z3.RealSort()


class ArrayBits(object):
    """bitset := Array Int Bool restricted to indices >= 0 (NAT)."""

    name = "array"

    def __init__(self):
        self.sort = z3.ArraySort(I, B)
        self.NAT = z3.Const("NAT", self.sort)
        self.EMPTY = z3.K(I, z3.BoolVal(False))
        self._low = z3.Function("low", self.sort, I)
        self.axioms = []
        i = z3.Int("i!nat")
        self.axioms.append(z3.ForAll([i], z3.Select(self.NAT, i) == (i >= 0), patterns=[z3.Select(self.NAT, i)]))
        self._low_done = set()
        self._named = {}
        self._fresh = 0

    def fresh(self, name):
        self._fresh += 1
        return z3.Const("%s!%d" % (name, self._fresh), self.sort)

    def _define(self, name, lam):
        """a lambda-defined array gets a name; the defining equation is a (conservative) axiom"""
        d = self.fresh(name)
        self.axioms.append(d == lam)
        return d

    def wf(self, x):
        """x is a set of naturals"""
        return z3.Map(_AND, x, self.NAT) == x

    def const(self, n):
        if n >= 0:
            a = self.EMPTY
            k = 0
            while n:
                if n & 1:
                    a = z3.Store(a, k, True)
                n >>= 1
                k += 1
            return a
        a = self.NAT
        k = 0
        m = ~n  # bits that are 0 in n
        while m:
            if m & 1:
                a = z3.Store(a, k, False)
            m >>= 1
            k += 1
        return a

    def and_(self, a, b):
        return z3.Map(_AND, a, b)

    def or_(self, a, b):
        return z3.Map(_OR, a, b)

    def xor(self, a, b):
        return z3.Map(_XOR, a, b)

    def not_(self, a):
        return z3.Map(_AND, self.NAT, z3.Map(_NOT, a))

    def is_zero(self, a):
        return a == self.EMPTY

    def eq(self, a, b):
        return a == b

    def subset(self, a, b):
        return z3.Map(_AND, a, b) == a

    def disjoint(self, a, b):
        return z3.Map(_AND, a, b) == self.EMPTY

    def diff(self, a, b):
        return z3.Map(_AND, a, z3.Map(_NOT, b))

    def singleton(self, k):
        return z3.Store(self.EMPTY, k, True)

    def bit(self, a, k):
        return z3.Select(a, k)

    def low(self, a):
        """index of the lowest set bit; axiomatised per term (Skolemised)."""
        if not (z3.is_const(a) and a.decl().kind() == z3.Z3_OP_UNINTERPRETED):
            key0 = ("named", a.get_id())
            if key0 not in self._named:
                d = self.fresh("nm")
                self.axioms.append(d == a)
                self._named[key0] = (d, a)  # keep a alive: ids are reused after gc
            a = self._named[key0][0]
        l = self._low(a)
        key = a.get_id()
        if key not in self._low_done:
            self._low_done.add(key)
            j = z3.Int("j!low")
            self.axioms.append(
                z3.Implies(
                    z3.And(a != self.EMPTY, self.wf(a)),
                    z3.And(l >= 0, z3.Select(a, l), z3.ForAll([j], z3.Implies(j < l, z3.Not(z3.Select(a, j))), patterns=[z3.Select(a, j)])),
                )
            )
        return l

    def sub1(self, a):
        """a - 1 for a set of naturals a (two's complement decrement)."""
        l = self.low(a)
        i = z3.Int("i!dec")
        return self._define("dec", z3.Lambda([i], z3.If(a == self.EMPTY, i >= 0, z3.If(i < l, i >= 0, z3.If(i == l, False, z3.Select(a, i))))))

    def shr1(self, a):
        i = z3.Int("i!shr")
        return self._define("shr", z3.Lambda([i], z3.And(i >= 0, z3.Select(a, i + 1))))

    def shl(self, a, k):
        i = z3.Int("i!shl")
        return self._define("shl", z3.Lambda([i], z3.And(i >= k, z3.Select(a, i - k))))

    def card_le1(self, a):
        return z3.Or(a == self.EMPTY, a == self.singleton(self.low(a)))

    def nonneg(self, a, hi):
        """ghost bound: no bit at or above hi (a finite, i.e. a >= 0)"""
        i = z3.Int("i!nn")
        return z3.And(hi >= 0, z3.ForAll([i], z3.Implies(i >= hi, z3.Not(z3.Select(a, i))), patterns=[z3.Select(a, i)]))

    def to_py(self, model, a, width=64):
        """best effort: read a model value as a Python int (None when infinite/unknown)"""
        n = 0
        for k in range(width):
            v = model.eval(z3.Select(a, k), model_completion=True)
            if z3.is_true(v):
                n |= 1 << k
        top = model.eval(z3.Select(a, width), model_completion=True)
        if z3.is_true(top):
            n -= 1 << width
        return n


class BVBits(object):
    """Same interface over signed bit-vectors of a fixed width; only used to look
    for concrete counterexamples (overflow artefacts are filtered by native replay)."""

    name = "bv"

    def __init__(self, width):
        self.w = width
        self.sort = z3.BitVecSort(width)
        self.EMPTY = z3.BitVecVal(0, width)
        self.axioms = []
        self._fresh = 0

    def fresh(self, name):
        self._fresh += 1
        return z3.Const("%s!%d" % (name, self._fresh), self.sort)

    def wf(self, x):
        return z3.BoolVal(True)

    def const(self, n):
        return z3.BitVecVal(n, self.w)

    def and_(self, a, b):
        return a & b

    def or_(self, a, b):
        return a | b

    def xor(self, a, b):
        return a ^ b

    def not_(self, a):
        return ~a

    def is_zero(self, a):
        return a == 0

    def eq(self, a, b):
        return a == b

    def subset(self, a, b):
        return (a & b) == a

    def disjoint(self, a, b):
        return (a & b) == 0

    def diff(self, a, b):
        return a & ~b

    def singleton(self, k):
        return z3.BitVecVal(1, self.w) << z3.Int2BV(k, self.w)

    def bit(self, a, k):
        return z3.Extract(0, 0, z3.LShR(a, z3.Int2BV(k, self.w))) == 1

    def low(self, a):
        # index of lowest set bit as Int: via nested If
        expr = z3.IntVal(self.w)
        for k in reversed(range(self.w)):
            expr = z3.If(z3.Extract(k, k, a) == 1, z3.IntVal(k), expr)
        return expr

    def sub1(self, a):
        return a - 1

    def shr1(self, a):
        return a >> 1

    def shl(self, a, k):
        return a << z3.Int2BV(k, self.w)

    def card_le1(self, a):
        return (a & (a - 1)) == 0

    def nonneg(self, a, hi):
        return z3.And(a >= 0, hi == self.w)

    def to_py(self, model, a, width=None):
        v = model.eval(a, model_completion=True)
        return v.as_signed_long()


_b1 = z3.Bool("b!1")
_b2 = z3.Bool("b!2")


def _mk2(name, f):
    # named binary boolean functions for z3.Map
    return f


# z3.Map needs FuncDeclRefs
_AND = z3.And(_b1, _b2).decl()
_OR = z3.Or(_b1, _b2).decl()
_XOR = z3.Xor(_b1, _b2).decl()
_NOT = z3.Not(_b1).decl()
