"""Function-by-function verification driver: generate the obligations of one
contract from the current source, discharge them, search replayable
counterexamples for the ones that fail, run vacuity sentinels."""
import ast
import time
import traceback

import z3

from . import frontend
from .symexec import Executor, Contract, SV, State, Ob, Exit, Unsupported, DeadPath, NoneV, parse_type, Loop
from .theories import Ref, NONE, ArrayBits, BVBits

TIMEOUT_MS = 10000


class Suite(object):
    """a set of contracts over one schema (one property's T1 part)"""

    def __init__(self, schema, class_sources, contracts, globals_=None, executor_cls=None):
        self.schema = {k: (parse_type(v) if isinstance(v, str) else v) for k, v in schema.items()}
        for k, f in list(self.schema.items()):
            if f.kind.startswith("map:") and f.opt:
                # an attribute holding None or a dictionary: the None flag is a boolean field of its own
                self.schema[k + "$none"] = parse_type("bool")
        self.class_sources = class_sources  # list of module names whose classes are visible
        self.contracts = {}
        for c in contracts:
            self.contracts[c.name] = c
        self.globals_ = globals_ or {}
        self.executor_cls = executor_cls or Executor

    def classes(self):
        cl = {}
        for mn in self.class_sources:
            m = frontend.module(mn)
            for k, v in m.classes.items():
                cl[k] = v
        return cl

    def make_executor(self, bits=None):
        ex = self.executor_cls(self.schema, self.contracts, bits=bits, classes=self.classes())
        ex.globals_ = dict(self.globals_)
        return ex


def gen_obligations(suite, c, bits=None):
    """VCs of contract c from the real source.  Returns (executor, inputs, obligations)."""
    ex = suite.make_executor(bits)
    m, ci, fn = frontend.resolve(c.target)
    # module-level names visible in the function: imported modules and classes
    for local, dotted in m.imports.items():
        ex.globals_.setdefault(local, SV("module", local))
    ex.cur = c
    ex.cur_name = c.name
    ex.pending_raises = []
    st = State(ex)
    inputs = {}
    is_static = ci is not None and fn.name in ci.static
    params = [p.arg for p in fn.args.args] + [p.arg for p in fn.args.kwonlyargs]
    for p in params:
        ty = c.types.get(p)
        if p == "self" and ty is None and ci is not None and not is_static:
            ty = "ref:%s" % ci.name
        if ty is None:
            raise Unsupported("no declared type for parameter %s of %s" % (p, c.name))
        f = parse_type(ty)
        if f.kind == "ref":
            v = SV("ref", z3.Const("in_%s" % p, Ref), cls=f.cls)
            if not f.opt:
                st.assume(v.t != NONE)
                v.x = "nonnull"
        elif f.kind == "lambda":
            v = SV("lambda", p)
        elif f.kind == "opaque":
            v = ex.opaque()
        else:
            t = z3.Const("in_%s" % p, {"int": z3.IntSort(), "bool": z3.BoolSort(), "real": z3.RealSort(),
                                          "bits": ex.bits.sort, "str": z3.IntSort()}[f.kind])
            v = SV(f.kind, t, none=(z3.Bool("in_%s?none" % p) if f.opt else None))
            if f.kind == "bits":
                st.assume(ex.bits.wf(t))
        st.env[p] = v
        inputs[p] = (f, v)
    if fn.args.vararg or fn.args.kwarg:
        if not c.types.get("**"):
            raise Unsupported("*args/**kwargs in %s" % c.name)
        for a in (fn.args.vararg, fn.args.kwarg):
            if a is not None:
                st.env[a.arg] = ex.opaque()
        if fn.args.kwarg is not None and c.kwargs:
            kwd = {}
            for k, ty in c.kwargs.items():
                f = parse_type(ty)
                if f.kind == "ref":
                    v = SV("ref", z3.Const("in_%s" % k, Ref), cls=f.cls)
                    if not f.opt:
                        st.assume(v.t != NONE)
                        v.x = "nonnull"
                elif f.kind == "opaque":
                    v = ex.opaque()
                else:
                    t = z3.Const("in_%s" % k, {"int": z3.IntSort(), "bool": z3.BoolSort(), "real": z3.RealSort(), "bits": ex.bits.sort, "str": z3.IntSort()}[f.kind])
                    v = SV(f.kind, t, none=(z3.Bool("in_%s?none" % k) if f.opt else None))
                    if f.kind == "bits":
                        st.assume(ex.bits.wf(t))
                kwd[k] = v
                inputs[k] = (f, v)
                st.env.setdefault(k, v)   # so that the contract's spec can name the keyword like a parameter
            st.env[fn.args.kwarg.arg] = SV("kwdict", kwd)
    old = st.copy()
    ex.old_state = old
    pre = ex.spec_eval(c.requires, st, None, None)
    st.assume(pre)
    old.pc = list(st.pc)
    ex.entry_state = old
    body, dropped = frontend.strip_docstring(fn)
    ex.dropped.extend("%s:%s" % (c.name, d) for d in dropped)
    normal, exits = ex.exec_block(body, [st])
    outs = [(s, NoneV(), None) for s in normal]
    raises = []
    for x in exits:
        if x.kind == "return":
            outs.append((x.state, x.value if x.value is not None else NoneV(), x.lineno))
        elif x.kind == "raise":
            raises.append(x)
        else:
            raise Unsupported("break/continue outside loop in %s" % c.name)
    ex.outcomes = outs
    ex.raise_exits = raises
    # ---- postconditions on every normal exit
    rt = c.types.get("return")
    for s, val, ln in outs:
        if rt and parse_type(rt).kind != "opaque" and not rt.startswith("tuple"):
            f = parse_type(rt)
            try:
                val = ex.coerce(val, f, "return value") if (val.kind == "none" or val.kind != f.kind) else val
            except Unsupported as e:
                ex.obs.append(Ob("%s.return-type@L%s" % (c.name, ln), s.pc, z3.BoolVal(False), ln, "type"))
                continue
        if c.returns:
            # the function returns (an alias of) a modelled container reached as <expr> in the post-state
            want = ex.spec_value(c.returns, s)
            ok = (val.kind == want.kind and isinstance(val.x, tuple) and isinstance(want.x, tuple) and val.x[2] == want.x[2])
            g = z3.And(val.x[0].t == want.x[0].t, z3.Not(ex.is_none(val))) if ok else z3.BoolVal(False)
            _add(ex, "%s.returns[%s]%s" % (c.name, c.returns, "@L%s" % ln if ln else "@end"), s.pc, g, ln, "post")
        for nm, ens in c.ensures_items():
            ex.cur_name = c.name
            g = ex.spec_eval(ens, s, old, val)
            _add(ex, "%s.ensures[%s]%s" % (c.name, nm, "@L%s" % ln if ln else "@end"), s.pc, g, ln, "post")
        for exc, cond in c.raises.items():
            rc = ex.spec_eval(cond, old, None, None)
            _add(ex, "%s.raises[%s].not-on-normal-exit%s" % (c.name, exc, "@L%s" % ln if ln else "@end"), s.pc, z3.Not(rc), ln, "raises")
        if c.frame:
            _frame_obs(ex, c, s, old, ln)
    # ---- exceptional exits
    for x in raises:
        if x.exc in c.raises:
            rc = ex.spec_eval(c.raises[x.exc], old, None, None)
            _add(ex, "%s.raises[%s].only-when@L%s" % (c.name, x.exc, x.lineno), x.state.pc, rc, x.lineno, "raises")
            if c.exc_ensures:
                g = ex.spec_eval(c.exc_ensures, x.state, old, None)
                _add(ex, "%s.exc_ensures@L%s" % (c.name, x.lineno), x.state.pc, g, x.lineno, "post")
        elif x.exc in c.allowed_raises or "*" in c.allowed_raises:
            if c.exc_ensures:
                g = ex.spec_eval(c.exc_ensures, x.state, old, None)
                _add(ex, "%s.exc_ensures@L%s" % (c.name, x.lineno), x.state.pc, g, x.lineno, "post")
        else:
            _add(ex, "%s.no-unexpected-raise[%s]@L%s" % (c.name, x.exc, x.lineno), x.state.pc, z3.BoolVal(False), x.lineno, "raises")
    return ex, inputs, ex.obs


def _add(ex, name, pc, goal, ln, kind):
    n = sum(1 for o in ex.obs if o.name == name or o.name.startswith(name + "#"))
    if n:
        name = "%s#%d" % (name, n)
    ex.obs.append(Ob(name, pc, goal, ln, kind))


def _frame_obs(ex, c, s, old, ln):
    """every heap location outside `modifies` is unchanged"""
    allowed = {}  # key -> list of (object term, condition) or '*'
    star_conds = {}
    for loc in c.modifies:
        cond = z3.BoolVal(True)
        if " if " in loc:
            loc, _, ctext = loc.partition(" if ")
            loc = loc.strip()
            cond = ex.spec_eval(ctext, old, None, None)
        if loc.endswith("[*]"):
            if z3.is_true(cond):
                allowed[loc[:-3]] = "*"
            else:
                star_conds.setdefault(loc[:-3], []).append(cond)
            continue
        base, _, attr = loc.rpartition(".")
        obj = ex.spec_value(base, old)
        key, f = ex.field(obj.cls, attr)
        if allowed.get(key) != "*":
            allowed.setdefault(key, []).append((obj.t, cond))
    for key, (arr, na) in s.heap.items():
        a0, n0 = old.heap.get(key, (arr, na))
        if arr.eq(a0) and (na is None or na.eq(n0)):
            continue
        al = allowed.get(key[:-5] if key.endswith("$none") else key, [])
        if al == "*":
            continue
        r = z3.Const("frame!r", Ref)
        same = z3.Select(arr, r) == z3.Select(a0, r)
        if ex.schema[key].kind.startswith("map:"):
            ks = ex.schema[key].kind.split(":")[1]
            kq = z3.Const("frame!k", {"ref": Ref, "int": z3.IntSort(), "str": z3.IntSort()}[ks])
            d1, d0 = z3.Select(na, r), z3.Select(n0, r)
            same = z3.And(d1 == d0, z3.ForAll([kq], z3.Implies(z3.Select(d1, kq), z3.Select(z3.Select(arr, r), kq) == z3.Select(z3.Select(a0, r), kq))))
        elif ex.schema[key].kind.startswith("reflist"):
            kq = z3.Int("frame!k")
            l1, l0 = z3.Select(na, r), z3.Select(n0, r)
            same = z3.And(l1 == l0, z3.ForAll([kq], z3.Implies(z3.And(0 <= kq, kq < l1), z3.Select(z3.Select(arr, r), kq) == z3.Select(z3.Select(a0, r), kq))))
        elif na is not None:
            same = z3.And(same, z3.Select(na, r) == z3.Select(n0, r))
            # the value under a None flag is irrelevant
            same = z3.Or(same, z3.And(z3.Select(na, r), z3.Select(n0, r)))
        goal = z3.ForAll([r], z3.Implies(z3.And(r != NONE, *[z3.Or(r != t, z3.Not(cnd)) for t, cnd in al]), same))
        if star_conds.get(key):
            goal = z3.Or(goal, *star_conds[key])
        _add(ex, "%s.frame[%s]%s" % (c.name, key, "@L%s" % ln if ln else "@end"), s.pc, goal, ln, "frame")


def solve(ex, ob, timeout_ms=TIMEOUT_MS):
    s = z3.Solver()
    s.set("timeout", timeout_ms)
    for a in ex.all_axioms():
        s.add(a)
    s.add(*ob.pc)
    s.add(z3.Not(ob.goal))
    t0 = time.time()
    r = s.check()
    ob.time_s = time.time() - t0
    if r == z3.unsat:
        ob.status = "proved"
    elif r == z3.sat:
        ob.status = "refuted"
        ob.model = s.model()
    else:
        ob.status = "unproved"
        ob.detail = "z3: %s" % s.reason_unknown()
    return ob.status


def model_inputs(ex, inputs, model):
    """read the function's inputs out of a model as Python values (scalars only)"""
    out = {}
    for p, (f, v) in inputs.items():
        if f.kind == "ref" or v.kind in ("lambda", "opaque"):
            out[p] = None
            continue
        if v.none is not None and z3.is_true(model.eval(v.none, model_completion=True)):
            out[p] = None
            continue
        if f.kind == "bits":
            out[p] = ex.bits.to_py(model, v.t)
        elif f.kind == "int":
            out[p] = model.eval(v.t, model_completion=True).as_long()
        elif f.kind == "bool":
            out[p] = z3.is_true(model.eval(v.t, model_completion=True))
        elif f.kind == "str":
            k = model.eval(v.t, model_completion=True).as_long()
            out[p] = next((lit for lit, i in ex.str_ids.items() if i == k), "tok%d" % k)
        elif f.kind == "real":
            x = model.eval(v.t, model_completion=True)
            try:
                out[p] = float(x.as_fraction())
            except Exception:
                out[p] = None
        else:
            out[p] = None
    return out


def check_requires_satisfiable(ex, c, inputs, st_pc):
    s = z3.Solver()
    s.set("timeout", 5000)
    for a in ex.all_axioms():
        s.add(a)
    s.add(*st_pc)
    return s.check()


def verify_contract(ctx, suite, c, sentinels=True, bv_widths=(4, 8), replay=None):
    """Discharge every obligation of c; report to ctx.  Returns list of Ob."""
    ctx.add_function(c.target)
    if c.assumed:
        ctx.assume("assumed contract (not verified): %s -- %s" % (c.target, c.notes or ""))
        return []
    try:
        ex, inputs, obs = gen_obligations(suite, c)
    except Unsupported as e:
        # The function (as it is now) is outside what the generator interprets.  On the unchanged tree every contract of a suite is inside;
        # so this is a CHANGED function whose proof is gone: never a pass.  The contract is run natively as a monitor over the replay's
        # reachable states -- a failing state is a violation with its input --, otherwise the verdict is UNDECIDED (exit 2).
        ctx.functions_out_of_subset.append("%s: %s" % (c.target, e))
        name = "%s.in-subset" % c.name
        handled = False
        if replay is not None:
            class _O(object):
                pass
            ob = _O()
            ob.name, ob.status, ob.time_s, ob.detail, ob.model = name, "unsupported", 0.0, "outside the verified subset: %s" % e, None
            try:
                handled = replay(ctx, suite, c, ob, None, bv_widths)
            except Exception as e2:  # noqa -- a replay hook that cannot cope with a contract-level record
                handled = False
                ctx.note("native search for %s after leaving the subset failed: %s: %s" % (c.name, type(e2).__name__, e2))
        if not handled:
            ctx.obligation(name, "unsupported", backend="dpvc", function=c.target, detail=str(e))
            ctx.undecided_ob(name, "outside the verified subset: %s" % e)
        return []
    for d in ex.dropped:
        if d not in ctx.dropped_statements:
            ctx.dropped_statements.append(d)
    if not obs:
        ctx.checker_failure("contract %s generated zero obligations" % c.name)
    for ob in obs:
        solve(ex, ob)
        if ob.status == "proved":
            ctx.obligation(ob.name, "proved", "z3", ob.time_s, c.target)
            continue
        # refuted or unproved: look for a replayable counterexample
        witness = None
        if ob.status == "refuted":
            witness = model_inputs(ex, inputs, ob.model)
        handled = False
        if replay is not None:
            handled = replay(ctx, suite, c, ob, witness, bv_widths)
        if not handled:
            if ob.status == "refuted":
                ctx.obligation(ob.name, "refuted", "z3", ob.time_s, c.target, detail=str(witness))
                ctx.fail(ob.name, dict(key="obligation:%s" % ob.name, model=witness, solver="z3 sat"),
                         detail="obligation refuted by z3; no native replay available: %s" % (witness,), kind="T1", no_input=True)
            else:
                ctx.obligation(ob.name, "unproved", "z3", ob.time_s, c.target, detail=ob.detail)
                ctx.undecided_ob(ob.name, ob.detail)
    if sentinels:
        run_sentinels(ctx, suite, c, obs)
    return obs


def run_sentinels(ctx, suite, c, obs, width=8):
    """Vacuity guards, decided in the bit-vector instance of the same VCs (satisfiability
    questions need models, which the quantified array theory does not give quickly):
    (1) requires is satisfiable; (2) for proved postconditions the NEGATED goal must not be
    provable as well, unless the path is dead; dead paths are reported."""
    try:
        ex2, inputs2, obs2 = gen_obligations(suite, c, bits=BVBits(width))
    except Unsupported as e:
        ctx.note("sentinels skipped for %s: %s" % (c.name, e))
        return
    s = z3.Solver()
    s.set("timeout", 3000)
    for a in ex2.all_axioms():
        s.add(a)
    s.add(*ex2.entry_state.pc)
    r = s.check()
    if r == z3.unsat:
        ctx.checker_failure("requires of %s is unsatisfiable (vacuous contract)" % c.name)
        return
    proved = set(o.name for o in obs if o.status == "proved")
    n_s = 0
    live = 0
    for o2 in obs2:
        if o2.name not in proved or o2.kind not in ("post", "raises", "frame"):
            continue
        s = z3.Solver()
        s.set("timeout", 2000)
        for a in ex2.all_axioms():
            s.add(a)
        s.add(*o2.pc)
        if s.check() == z3.unsat:
            ctx.note("dead path behind %s" % o2.name)
            continue
        live += 1
        if n_s >= 4:
            continue
        s.add(o2.goal)
        ok = s.check() != z3.unsat  # unsat here would mean the negated goal is provable too
        ctx.sentinel("negated:%s" % o2.name, ok)
        n_s += 1
    posts = [o for o in obs if o.kind in ("post", "raises", "frame")]
    if posts and all(o.status == "proved" for o in posts) and live == 0:
        ctx.checker_failure("every path of %s is dead under its requires (vacuous)" % c.name)


def crosscheck(ctx, suite, c, n=60, seed=0):
    """CPython cross-check of the executor (scalar functions): on random inputs inside the
    precondition the symbolic result, specialised to the input, must equal what the real
    function returns natively.  A disagreement is a checker failure, not a verdict."""
    import random
    from . import replay as rp

    if c.assumed or not rp._scalar_only(c):
        return 0
    try:
        ex, inputs, obs = gen_obligations(suite, c)
    except Unsupported:
        return 0
    rng = random.Random(seed * 7919 + len(c.name))
    fn = rp.real_function(c.target)
    pre_code, _ = rp.compile_spec(c.requires)
    done = 0
    tries = 0
    while done < n and tries < n * 30:
        tries += 1
        kw = {}
        for p, (f, v) in inputs.items():
            if f.opt and rng.random() < 0.15:
                kw[p] = None
            elif f.kind == "bits":
                kw[p] = rng.choice([rng.getrandbits(rng.choice([1, 3, 5, 8, 40])), 0, 1, (1 << rng.randrange(1, 12)) - 1, -rng.getrandbits(4) - 1])
            elif f.kind == "int":
                kw[p] = rng.randrange(-3, 9)
            elif f.kind == "bool":
                kw[p] = rng.random() < 0.5
            elif f.kind == "real":
                kw[p] = rng.choice([0.0, 0.5, 1.0, 2.25, -1.5, 3.0])
        env = dict(rp.CONC)
        env.update(kw)
        try:
            if not eval(pre_code, {"__builtins__": {}}, env):
                continue
        except Exception:
            continue
        try:
            native = fn(**kw)
            raised = None
        except Exception as e:
            native, raised = None, type(e).__name__
        s = z3.Solver()
        s.set("timeout", 5000)
        for a in ex.all_axioms():
            s.add(a)
        for p, (f, v) in inputs.items():
            val = kw[p]
            if val is None:
                s.add(v.none)
                continue
            if v.none is not None:
                s.add(z3.Not(v.none))
            if f.kind == "bits":
                s.add(v.t == ex.bits.const(val))
            elif f.kind == "int":
                s.add(v.t == val)
            elif f.kind == "bool":
                s.add(v.t == z3.BoolVal(val))
            elif f.kind == "real":
                s.add(v.t == z3.RealVal(repr(val)))
        bad = []
        for st, val, ln in ex.outcomes:
            pc = z3.And(*st.pc) if st.pc else z3.BoolVal(True)
            if raised is not None:
                bad.append(pc)
                continue
            if native is None:
                agree = ex.is_none(val)
            elif val.kind == "none":
                agree = z3.BoolVal(False)
            elif isinstance(native, bool):
                agree = z3.And(z3.Not(ex.is_none(val)), (val.t == z3.BoolVal(native)) if val.kind == "bool" else z3.BoolVal(False))
            elif isinstance(native, int):
                if val.kind == "bits":
                    agree = z3.And(z3.Not(ex.is_none(val)), val.t == ex.bits.const(native))
                elif val.kind == "int":
                    agree = z3.And(z3.Not(ex.is_none(val)), val.t == native)
                else:
                    agree = z3.BoolVal(False)
            elif isinstance(native, float):
                agree = z3.And(z3.Not(ex.is_none(val)), val.t == z3.RealVal(repr(native))) if val.kind == "real" else z3.BoolVal(False)
            else:
                continue
            bad.append(z3.And(pc, z3.Not(agree)))
        for x in ex.raise_exits:
            pc = z3.And(*x.state.pc) if x.state.pc else z3.BoolVal(True)
            if raised is None or raised != x.exc:
                bad.append(pc)
        if bad:
            s.add(z3.Or(*bad))
            r = s.check()
            if r == z3.sat:
                ctx.checker_failure("executor/CPython disagreement on %s(%s): native %s, solver says %s" % (
                    c.name, kw, raised or repr(native), r))
                return done
            if r != z3.unsat:
                # the solver did not decide this input within its budget (cofinite masks under load): not a
                # disagreement and not a comparison -- the input is not counted
                continue
        done += 1
    ctx.crosscheck_inputs += done
    return done
