"""Executor extensions: loops cut by sidecar invariants (establish / havoc /
preserve / decreases), try statements, `may_raise` exits, and the *lenient*
(abstracting) mode used for the reader loops of C20: constructs outside the
modelled subset evaluate to opaque values with nondeterministic truth value, so
that proofs hold for every behaviour of the abstracted parts, while refutations
are only trusted after native replay (the route the brief describes for code
that cannot be brought fully inside the verifier's subset)."""
import ast

import z3

from . import frontend
from .symexec import (Executor, SV, State, Ob, Exit, Unsupported, DeadPath, NoneV, Loop, Contract, parse_type,
                      Field, sort_of)
from .theories import Ref, NONE, I, B


class Executor2(Executor):
    lenient = False
    opaque_log = None

    # ------------------------------------------------------------------ opaque values
    def opaque(self, why=""):
        self.fresh_n += 1
        v = SV("opaque", z3.Bool("opq!%d" % self.fresh_n), none=z3.Bool("opq!%d?none" % self.fresh_n))
        if self.opaque_log is not None and why:
            self.opaque_log.add(why)
        return v

    def truthy(self, v):
        if v.kind == "lenlist":
            return v.t > 0
        if v.kind == "list_lit":
            return z3.BoolVal(len(v.t) > 0)
        if v.kind == "opaque":
            return z3.And(z3.Not(v.none), v.t)
        return Executor.truthy(self, v)

    def is_none(self, v):
        if v.kind == "opaque":
            return v.none
        return Executor.is_none(self, v)

    def require_not_none(self, st, v, what, lineno=None):
        if v.kind == "opaque":
            return  # abstracted value: no obligation (stated assumption)
        return Executor.require_not_none(self, st, v, what, lineno)

    def ev(self, e, st):
        if not self.lenient or self.spec:
            return Executor.ev(self, e, st)
        try:
            return Executor.ev(self, e, st)
        except Unsupported as u:
            # evaluate sub-expressions that are calls with contracts for their effects: a
            # call hidden inside an unsupported expression must not lose its effect on the
            # tokenizer state
            for sub in ast.walk(e):
                if sub is e:
                    continue
                if isinstance(sub, ast.Call) and self._mentions_effectful(sub):
                    raise Unsupported("effectful call inside unsupported expression at line %s: %s" % (getattr(e, "lineno", "?"), u))
            return self.opaque("%s" % u)

    def _mentions_effectful(self, call):
        src = ast.unparse(call.func)
        for marker in self.effect_markers:
            if marker in src:
                return True
        return False

    effect_markers = ()

    def merge_sv(self, c, a, b):
        if a.kind == "opaque" or b.kind == "opaque":
            if a is b:
                return a
            o = self.opaque()
            return o
        return Executor.merge_sv(self, c, a, b)

    def py_eq(self, a, b):
        if a.kind == "opaque" or b.kind == "opaque":
            if a.kind == "none" or b.kind == "none":
                o = a if a.kind == "opaque" else b
                return o.none
            self.fresh_n += 1
            return z3.Bool("opq_eq!%d" % self.fresh_n)
        if self.lenient and not self.spec:
            try:
                return Executor.py_eq(self, a, b)
            except Unsupported:
                self.fresh_n += 1
                return z3.Bool("opq_eq!%d" % self.fresh_n)
        return Executor.py_eq(self, a, b)

    def compare(self, st, op, a, b, ln):
        if (a.kind == "opaque" or b.kind == "opaque") and not isinstance(op, (ast.Eq, ast.NotEq, ast.Is, ast.IsNot)):
            self.fresh_n += 1
            return z3.Bool("opq_cmp!%d" % self.fresh_n)
        if (a.kind == "opaque" or b.kind == "opaque") and isinstance(op, (ast.Is, ast.IsNot)):
            if a.kind == "none" or b.kind == "none":
                o = a if a.kind == "opaque" else b
                return z3.Not(o.none) if isinstance(op, ast.IsNot) else o.none
            self.fresh_n += 1
            return z3.Bool("opq_is!%d" % self.fresh_n)
        if self.lenient and not self.spec:
            try:
                return Executor.compare(self, st, op, a, b, ln)
            except Unsupported:
                self.fresh_n += 1
                return z3.Bool("opq_cmp!%d" % self.fresh_n)
        return Executor.compare(self, st, op, a, b, ln)

    def contains(self, st, container, item, ln):
        if item.kind == "opaque" and container.kind.startswith("map:"):
            return Executor.contains(self, st, container, item, ln)
        if container.kind == "opaque" or item.kind == "opaque":
            self.fresh_n += 1
            return z3.Bool("opq_in!%d" % self.fresh_n)
        if container.kind == "list_lit":
            return z3.Or(*[self.py_eq(item, x) for x in container.t]) if container.t else z3.BoolVal(False)
        return Executor.contains(self, st, container, item, ln)

    def ev_Yield(self, e, st):
        """`yield v` inside a generator function under contract: the value goes out, whatever is sent in comes back.
        (What the consumer does between two resumptions is not this function's business; obligations on the generator are per
        resumption, and its loops need a measure like any other.)"""
        if not self.lenient:
            raise Unsupported("yield at line %d" % e.lineno)
        if e.value is not None:
            self.ev(e.value, st)
        return self.opaque()

    def ev_List(self, e, st):
        return SV("list_lit", tuple(self.ev(x, st) for x in e.elts))

    def binop(self, st, op, a, b, ln):
        if a.kind == "opaque" or b.kind == "opaque":
            return self.opaque()
        if self.lenient and not self.spec and (a.kind == "str" or b.kind == "str"):
            return self.opaque()   # string building (messages): no modelled content
        return Executor.binop(self, st, op, a, b, ln)

    def call(self, st, f, args, kw, ln):
        if f.kind == "opaque":
            return self.opaque()
        if f.kind == "func" and isinstance(f.t, str) and f.t.startswith("lenlist."):
            return self.lenlist_method(st, f.x, f.t[8:], args, ln)
        return Executor.call(self, st, f, args, kw, ln)

    strict_methods = ()   # 'Class.method' names that must have a contract even in lenient mode
    abstracted_calls = None

    def call_method(self, st, obj, name, args, kw, ln):
        if self.lenient and not self.spec:
            c = self._contract_for(obj.cls, name)
            fm = self._find_method(obj.cls, name)
            q = "%s.%s" % (obj.cls, name)
            if c is None and not (fm is not None and (self._is_accessor(obj.cls, name) or self._may_inline(q))):
                if q in self.strict_methods:
                    raise Unsupported("call of %s without contract (line %s)" % (q, ln))
                self.require_not_none(st, obj, "call .%s()" % name, ln)
                if self.abstracted_calls is not None:
                    self.abstracted_calls.add(q)
                return self.opaque("call %s" % q)
        return Executor.call_method(self, st, obj, name, args, kw, ln)

    def attr_of(self, st, base, attr, lineno):
        if base.kind == "opaque":
            return self.opaque()
        if base.kind == "lenlist":
            return SV("func", "lenlist." + attr, x=base)
        if self.lenient and not self.spec and base.kind == "ref":
            try:
                return Executor.attr_of(self, st, base, attr, lineno)
            except Unsupported as u:
                if "no schema entry" in str(u):
                    self.require_not_none(st, base, "attr .%s" % attr, lineno)
                    return self.opaque("attribute %s" % attr)
                raise
        return Executor.attr_of(self, st, base, attr, lineno)

    def set_attr(self, st, obj, attr, val, lineno=None):
        if obj.kind == "ref" and not self.spec:
            try:
                key0, f0 = self.field(obj.cls, attr)
            except Unsupported:
                key0, f0 = None, None
            if f0 is not None and f0.kind == "lenlist":
                # obj.field = <a list>: only its length is kept
                self.require_not_none(st, obj, "store .%s" % attr, lineno)
                arr, na = self.heap_arrays(st, key0, f0)
                if val.kind in ("list_lit", "tuple"):
                    n = z3.IntVal(len(val.t))
                elif val.kind == "emptylist":
                    n = z3.IntVal(0)
                elif val.kind == "lenlist":
                    n = val.t
                else:
                    self.fresh_n += 1
                    n = z3.Int("hvlen_%s!%d" % (attr, self.fresh_n))
                    st.assume(n >= 0)
                    if val.kind != "opaque":
                        raise Unsupported("store of %s to the length-modelled list field .%s" % (val.kind, attr))
                st.heap[key0] = (z3.Store(arr, obj.t, n), na)
                return
        if self.lenient and not self.spec:
            if obj.kind == "opaque":
                return
            try:
                self.field(obj.cls, attr)
            except Unsupported:
                self.require_not_none(st, obj, "store .%s" % attr, lineno)
                return  # unmodelled attribute: abstracted away
            key, f = self.field(obj.cls, attr)
            if val.kind == "opaque":
                # store of an abstracted value into a modelled field: havoc that location
                arr, na = self.heap_arrays(st, key, f)
                fv = self.fresh(f.kind, "hv_" + attr, opt=f.opt)
                arr2 = z3.Store(arr, obj.t, fv.t)
                na2 = z3.Store(na, obj.t, fv.none) if na is not None else None
                st.heap[key] = (arr2, na2)
                return
        return Executor.set_attr(self, st, obj, attr, val, lineno)

    def coerce(self, v, f, what):
        if f.kind == "lenlist" and v.kind in ("emptylist", "list_lit"):
            # a list display bound to a local declared length-only: its length is all that is kept
            return SV("lenlist", z3.IntVal(0 if v.kind == "emptylist" else len(v.t)), x=None)
        if v.kind == "opaque":
            nv = self.fresh(f.kind, "co", cls=f.cls, opt=True)
            if f.kind == "ref":
                return nv
            nv.none = v.none
            return nv
        return Executor.coerce(self, v, f, what)

    def assign(self, st, target, v, ln):
        if self.lenient and not self.spec:
            if isinstance(target, ast.Subscript):
                base = self.ev(target.value, st)
                if base.kind.startswith("map:") or base.kind == "lenlist":
                    return self.assign_subscript(st, target, v, ln)
                # x[k] = v on an unmodelled container: evaluated for effects, store abstracted
                return
            if isinstance(target, (ast.Tuple, ast.List)) and v.kind != "tuple":
                for t in target.elts:
                    self.assign(st, t, self.opaque(), ln)
                return
        return Executor.assign(self, st, target, v, ln)

    def exec_stmt(self, s, st):
        if not self.lenient:
            return Executor.exec_stmt(self, s, st)
        m = getattr(self, "st_" + type(s).__name__, None)
        if m is None:
            raise Unsupported("statement %s at line %d" % (type(s).__name__, s.lineno))
        return m(s, st)

    def st_Assert(self, s, st):
        if self.lenient:
            # an assert over modelled values is an obligation (no AssertionError may escape);
            # asserts that involve abstracted (opaque) values are not checked (stated assumption)
            probe = st.copy()
            try:
                c = self.truthy(self.ev(s.test, probe))
            except Unsupported:
                return [st], []
            if _mentions_opaque(c):
                return [st], []
            st.heap, st.pc = probe.heap, probe.pc
            self.oblige(st, c, "assert", s.lineno, kind="assert")
            st.assume(c)
            return [st], []
        return Executor.st_Assert(self, s, st)

    def st_Delete(self, s, st):
        try:
            return Executor.st_Delete(self, s, st)
        except Unsupported:
            if not self.lenient:
                raise
            # del of something outside the model (a local name, an item of an unmodelled container)
            for t in s.targets:
                if isinstance(t, ast.Subscript):
                    probe = st.copy()
                    try:
                        b = self.ev(t.value, probe)
                    except Unsupported:
                        continue
                    if b.kind.startswith("map:") or b.kind in ("lenlist", "reflist"):
                        raise
            return [st], []

    # ------------------------------------------------------------------ length-only lists
    # A heap field of kind `lenlist` is a Python list of which only the LENGTH is modelled
    # (contents abstracted).  Mutations are recognised on the access path `obj.field.method(...)`;
    # a local alias of such a list is outside the subset.
    def get_attr(self, st, obj, attr, lineno=None):
        if obj.kind == "ref":
            try:
                key, f = self.field(obj.cls, attr)
            except Unsupported:
                key, f = None, None
            if f is not None and f.kind == "lenlist":
                self.require_not_none(st, obj, "attr .%s" % attr, lineno)
                arr, na = self.heap_arrays(st, key, f)
                return SV("lenlist", z3.Select(arr, obj.t), x=(obj, attr, key))
        return Executor.get_attr(self, st, obj, attr, lineno)

    def _field_sort(self, f):
        if f.kind == "lenlist":
            return I
        return Executor._field_sort(self, f)

    def assign_subscript(self, st, target, v, ln):
        base = self.as_container(st, self.ev(target.value, st), ln)
        if base.kind == "lenlist":
            idx = self.ev(target.slice, st)
            if idx.kind == "int":
                self.oblige(st, z3.And(idx.t < base.t, idx.t >= -base.t), "no-IndexError[store]", ln, kind="safety")
            return
        return Executor.assign_subscript(self, st, target, v, ln)

    def lenlist_method(self, st, lv, name, args, ln):
        obj, attr, key = lv.x if lv.x else (None, None, None)
        cur = lv.t

        def store(newlen):
            if obj is None:
                raise Unsupported("mutation of a local length-only list")
            f = self.schema[key]
            arr, na = self.heap_arrays(st, key, f)
            st.heap[key] = (z3.Store(arr, obj.t, newlen), na)

        if name == "append":
            store(cur + 1)
            return NoneV()
        if name == "insert":
            store(cur + 1)
            return NoneV()
        if name == "extend":
            o = args[0]
            if o.kind == "lenlist":
                store(cur + o.t)
                return NoneV()
            if o.kind == "tuple" or o.kind == "list_lit":
                store(cur + len(o.t))
                return NoneV()
            raise Unsupported("extend of a length-only list by %s" % o.kind)
        if name == "pop":
            self.oblige(st, cur > 0, "no-IndexError[pop from empty list]", ln, kind="safety")
            store(cur - 1)
            return self.opaque()
        if name == "clear":
            store(z3.IntVal(0))
            return NoneV()
        if name in ("index", "count", "copy", "__contains__"):
            return self.opaque()
        if name in ("sort", "reverse"):
            return NoneV()
        if name == "remove":
            # list.remove(x): raises ValueError when absent (abstracted membership), else one shorter
            x = st.copy()
            self.pending_raises.append(Exit("raise", x, exc="ValueError", lineno=ln))
            st.assume(cur > 0)
            store(cur - 1)
            return NoneV()
        raise Unsupported("list method %s on a length-only list" % name)

    def bi_len(self, e, st):
        v = self.ev(e.args[0], st)
        if v.kind == "lenlist":
            return SV("int", v.t)
        if v.kind == "list_lit":
            return SV("int", z3.IntVal(len(v.t)))
        if v.kind == "ref":
            fm = self._find_method(v.cls, "__len__")
            if fm is not None:
                return self.call_method(st, v, "__len__", [], {}, getattr(e, "lineno", None))
        if v.kind == "opaque" or self.lenient:
            if v.kind in ("tuple",):
                return SV("int", z3.IntVal(len(v.t)))
            n = self.fresh("int", "len")
            st.assume(n.t >= 0)
            return n
        return Executor.bi_len(self, e, st)

    # ------------------------------------------------------------------ raise: classify
    def st_Raise(self, s, st):
        exc = "Exception"
        if s.exc is None and getattr(self, "handling", None):
            exc = self.handling[-1]   # bare `raise` inside a handler re-raises what the handler caught
        if s.exc is not None:
            src = ast.unparse(s.exc)
            if isinstance(s.exc, ast.Call):
                fsrc = ast.unparse(s.exc.func)
                exc = self.raise_classifier(fsrc, s.exc)
            else:
                exc = src.split(".")[-1]
        return [], [Exit("raise", st, exc=exc, lineno=s.lineno)]

    def raise_classifier(self, fsrc, call):
        return fsrc.split(".")[-1]

    def havoc_loc(self, st, loc, env):
        if self.lenient:
            try:
                return Executor.havoc_loc(self, st, loc, env)
            except Unsupported as u:
                if "no schema entry" in str(u):
                    return  # an attribute outside the model: every read of it is opaque already
                raise
        return Executor.havoc_loc(self, st, loc, env)

    # ------------------------------------------------------------------ may_raise on contracts
    def apply_contract(self, st, c, selfv, args, kw, ln):
        if getattr(c, "decreases", None) and getattr(self.cur, "decreases", None):
            # well-founded recursion: the callee's measure at the call < the caller's measure at its own entry
            m, ci, fn = frontend.resolve(c.target)
            is_static = ci is not None and fn.name in ci.static
            env = self.bind_params(fn, None if (ci is None or is_static) else selfv, args, kw, st)
            for p_, ty in c.types.items():
                if p_ in env and p_ != "return":
                    f = parse_type(ty)
                    if f.kind == "ref" and env[p_].kind == "ref" and env[p_].cls is None:
                        env[p_] = SV("ref", env[p_].t, cls=f.cls)
            at_call = st.copy()
            at_call.env = env
            v1 = self.spec_value(c.decreases, at_call)
            v0 = self.spec_value(self.cur.decreases, self.entry_state)
            self._ob(st, z3.And(v1.t < v0.t, v1.t >= 0), "call[%s]@L%s.measure-decreases[%s]" % (c.name, ln, c.decreases), "termination")
        res = Executor.apply_contract(self, st, c, selfv, args, kw, ln)
        for exc in getattr(c, "may_raise", ()) or ():
            x = st.copy()
            if self.guard:
                x.assume(z3.And(*self.guard))
            self.pending_raises.append(Exit("raise", x, exc=exc, lineno=ln))
        return res

    # ------------------------------------------------------------------ try
    def st_Try(self, s, st):
        """try/except: exceptions raised (by raise statements or callee contracts) inside the
        body are caught when a handler names the class (or a base given by self.exc_bases),
        or by a bare `except:`.  `finally` is not supported."""
        if s.finalbody:
            raise Unsupported("try/finally at line %d" % s.lineno)
        catches_te = self._find_handler(s.handlers, "TypeError") is not None
        if catches_te:
            self.typeerror_caught += 1
        try:
            normal, exits = self.exec_block(s.body, [st])
        finally:
            if catches_te:
                self.typeerror_caught -= 1
        out_exits = []
        handler_states = []
        caught = []
        for x in exits:
            if x.kind != "raise":
                out_exits.append(x)
                continue
            h = self._find_handler(s.handlers, x.exc)
            if h is None:
                out_exits.append(x)
            else:
                handler_states.append((h, x.state))
                caught.append(x.exc)
        if s.orelse:
            normal, x2 = self.exec_block(s.orelse, normal)
            out_exits.extend(x2)
        res = list(normal)
        for (h, hs), hx in zip(handler_states, caught):
            if h.name:
                hs.env[h.name] = self.opaque() if self.lenient else SV("ref", z3.Const("exc!%d" % h.lineno, Ref), cls="Exception", x="nonnull")
            self.handling = getattr(self, "handling", []) + [hx]
            try:
                n2, x2 = self.exec_block(h.body, [hs])
            finally:
                self.handling = self.handling[:-1]
            res.extend(n2)
            out_exits.extend(x2)
        return res, out_exits

    exc_bases = {}

    def _find_handler(self, handlers, exc):
        for h in handlers:
            if h.type is None:
                return h
            names = [ast.unparse(t).split(".")[-1] for t in (h.type.elts if isinstance(h.type, ast.Tuple) else [h.type])]
            chain = [exc]
            cur = exc
            while cur in self.exc_bases:
                cur = self.exc_bases[cur]
                chain.append(cur)
            if any(n in chain or n in ("Exception", "BaseException") for n in names):
                return h
        return None

    # ------------------------------------------------------------------ loops
    def exec_loop(self, s, st):
        if isinstance(s, ast.For):
            probe = st.copy()
            try:
                itv = self.ev(s.iter, probe)
            except Unsupported:
                itv = None
            if itv is not None and itv.kind.startswith("map:") and isinstance(itv.x, tuple):
                return self.exec_for_mapkeys(s, st)
            if itv is not None and itv.kind.startswith("keysnap:"):
                return self.exec_for_mapkeys(s, st, snapshot=True)
        return self.exec_loop_plain(s, st)

    # ---- for k in <dict>: every key of the map exactly once, in an order the proof may not depend on
    def sp_insnap(self, e, st):
        """insnap(k): k is one of the keys the enclosing for-loop iterates over"""
        if "$snap" not in st.env:
            raise Unsupported("insnap() outside a for-loop over a map")
        k = self.ev(e.args[0], st)
        return SV("bool", z3.Select(st.env["$snap"].t, k.t))

    def sp_seen(self, e, st):
        """seen(k): key k was visited by an earlier iteration of the enclosing for-loop over a map"""
        if "$seen" not in st.env:
            raise Unsupported("seen() outside a for-loop over a map")
        k = self.ev(e.args[0], st)
        return SV("bool", z3.Select(st.env["$seen"].t, k.t))

    def bi_list(self, e, st):
        v = self.ev(e.args[0], st)
        if v.kind.startswith("keysnap:"):
            return v  # list(d.keys()): the keys d has NOW, in some order
        if v.kind.startswith("map:") and isinstance(v.x, tuple):
            return SV("keysnap:" + v.kind.split(":")[1], v.x[3], cls=v.cls, x=v)
        if self.lenient:
            return self.opaque()
        raise Unsupported("list() of %s" % v.kind)

    def exec_for_mapkeys(self, s, st, snapshot=False):
        m_, ci, fn = frontend.resolve(self.cur.target)
        loops = frontend.loops_in(fn)
        try:
            ordinal = loops.index(s)
        except ValueError:
            raise Unsupported("loop at line %d inside an inlined function" % s.lineno)
        L = self.cur.loops.get(ordinal)
        if L is None:
            raise Unsupported("loop %d at line %d has no sidecar invariant" % (ordinal, s.lineno))
        if s.orelse or not isinstance(s.target, ast.Name):
            raise Unsupported("for-else / tuple target at line %d" % s.lineno)
        tag = "loop%d@L%d" % (ordinal, s.lineno)
        itv = self.ev(s.iter, st)
        ks = itv.kind.split(":")[1]
        ksort = sort_of(ks, self.bits)
        # snapshot: `for k in list(d.keys())` -- the key set as it was when the list was made; the body
        # may add and delete keys of d
        dom0 = itv.t if snapshot else itv.x[3]
        entry = st.copy()
        saved = st.env.get("$seen")
        saved_snap = st.env.get("$snap")
        st.env["$snap"] = SV("set:" + ks, dom0)
        st.env["$seen"] = SV("set:" + ks, z3.K(ksort, z3.BoolVal(False)))
        inv0 = self.inv_eval(L.invariant, st, entry)
        if not z3.is_true(inv0):
            self.oblige(st, inv0, "%s.invariant-established" % tag, None, kind="loop")
        head = st.copy()
        names, heap_keys = self.assigned_in(s.body, st)
        names.add(s.target.id)
        for nm in names:
            ty = self.cur.locals.get(nm)
            if ty is not None:
                f = parse_type(ty)
                head.env[nm] = self.fresh(f.kind, nm, cls=f.cls, opt=f.opt)
            elif nm in head.env:
                v = head.env[nm]
                if v.kind in ("int", "bool", "real", "bits", "str"):
                    head.env[nm] = self.fresh(v.kind, nm, opt=v.none is not None)
                    if v.kind == "bits":
                        head.assume(self.bits.wf(head.env[nm].t))
                elif v.kind == "ref":
                    head.env[nm] = SV("ref", z3.Const("%s!%d" % (nm, self._nf()), Ref), cls=v.cls)
                elif self.lenient:
                    head.env[nm] = self.opaque()
                else:
                    raise Unsupported("cannot havoc %s of kind %s" % (nm, v.kind))
        for hk in heap_keys:
            f = self.schema[hk]
            arr, na = self.heap_arrays(head, hk, f)
            k = self._nf()
            nm = hk.replace(".", "_").replace("*", "any")
            head.heap[hk] = (z3.Const("lh_%s!%d" % (nm, k), arr.sort()), z3.Const("lhn_%s!%d" % (nm, k), na.sort()) if na is not None else None)
        for loc in (L.modifies or []):
            self.havoc_loc(head, loc, head.env)
        seen = z3.Const("seen!%d" % self._nf(), z3.ArraySort(ksort, B))
        kq = z3.Const("kq!%d" % self._nf(), ksort)
        head.assume(z3.ForAll([kq], z3.Implies(z3.Select(seen, kq), z3.Select(dom0, kq))))
        head.env["$seen"] = SV("set:" + ks, seen)
        head.assume(self.inv_eval(L.invariant, head, entry))
        if not snapshot:
            # the iterated dictionary keeps its key set while it is iterated (Python raises RuntimeError otherwise)
            live = self.ev(s.iter, head.copy())
            kq2 = z3.Const("kq!%d" % self._nf(), ksort)
            head.assume(z3.ForAll([kq2], z3.Select(live.x[3], kq2) == z3.Select(dom0, kq2)))
        after, exits_out = [], []
        ex_st = head.copy()
        kq3 = z3.Const("kq!%d" % self._nf(), ksort)
        ex_st.assume(z3.ForAll([kq3], z3.Implies(z3.Select(dom0, kq3), z3.Select(seen, kq3))))
        ex_st.env.pop("$seen", None)
        ex_st.env.pop("$snap", None)
        if saved is not None:
            ex_st.env["$seen"] = saved
        if saved_snap is not None:
            ex_st.env["$snap"] = saved_snap
        after.append(ex_st)
        body_st = head.copy()
        kv = z3.Const("%s!%d" % (s.target.id, self._nf()), ksort)
        body_st.assume(z3.And(z3.Select(dom0, kv), z3.Not(z3.Select(seen, kv))))
        if ks == "bits":
            body_st.assume(self.bits.wf(kv))
        kcls = None
        if ks == "ref":
            ty = self.cur.locals.get(s.target.id)
            kcls = parse_type(ty).cls if ty is not None else None
        body_st.env[s.target.id] = SV(ks, kv, cls=kcls)
        self.loop_stack.append(tag)
        try:
            normal, exits = self.exec_block(s.body, [body_st])
        finally:
            self.loop_stack.pop()
        back = list(normal)
        for x in exits:
            if x.kind == "continue":
                back.append(x.state)
            elif x.kind == "break":
                bs = x.state
                bs.env.pop("$seen", None)
                after.append(bs)
            else:
                exits_out.append(x)
        for b in back:
            b.env["$seen"] = SV("set:" + ks, z3.Store(seen, kv, z3.BoolVal(True)))
            self._ob(b, self.inv_eval(L.invariant, b, entry), "%s.invariant-preserved" % tag, "loop")
            if not snapshot:
                lv = self.ev(s.iter, b.copy())
                kq4 = z3.Const("kq!%d" % self._nf(), ksort)
                self._ob(b, z3.ForAll([kq4], z3.Select(lv.x[3], kq4) == z3.Select(dom0, kq4)), "%s.iterated-map-keys-not-modified" % tag, "loop")
        return after, exits_out

    def exec_loop_plain(self, s, st):
        m, ci, fn = frontend.resolve(self.cur.target)
        loops = frontend.loops_in(fn)
        try:
            ordinal = loops.index(s)
        except ValueError:
            # loop inside an inlined callee
            raise Unsupported("loop at line %d inside an inlined function" % s.lineno)
        L = self.cur.loops.get(ordinal)
        if L is None:
            L = self.default_loop(s, ordinal)
            if L is None:
                raise Unsupported("loop %d at line %d has no sidecar invariant" % (ordinal, s.lineno))
        tag = "loop%d@L%d" % (ordinal, s.lineno)
        is_while = isinstance(s, ast.While)
        # `for i in itertools.count()`: a loop without a bound of its own -- left only by break/return/raise, needs a measure like `while True`
        unbounded = (isinstance(s, ast.For) and isinstance(s.iter, ast.Call) and isinstance(s.iter.func, ast.Attribute) and s.iter.func.attr == "count"
                     and isinstance(s.iter.func.value, ast.Name) and s.iter.func.value.id in ("it", "itertools") and not s.iter.args and not s.iter.keywords
                     and isinstance(s.target, ast.Name))
        if s.orelse:
            raise Unsupported("loop else-clause at line %d" % s.lineno)
        # 1. establish
        entry = st.copy()
        inv0 = self.inv_eval(L.invariant, st, entry)
        if not z3.is_true(inv0):
            self.oblige(st, inv0, "%s.invariant-established" % tag, None, kind="loop")
        # for loops: evaluate the iterable once (effects / obligations)
        it_val = None
        if not is_while and not unbounded:
            it_val = self.ev(s.iter, st)
            if it_val.kind not in ("opaque", "tuple", "list_lit") and not self.lenient:
                raise Unsupported("for over %s at line %d" % (it_val.kind, s.lineno))
        # 2. havoc what the body may assign
        head = st.copy()
        names, heap_keys = self.assigned_in(s.body + ([] if is_while else []), st)
        if not is_while:
            names |= set(n.id for n in ast.walk(s.target) if isinstance(n, ast.Name))
        for nm in names:
            if nm in head.env:
                v = head.env[nm]
                ty = self.cur.locals.get(nm)
                if ty is not None:
                    f = parse_type(ty)
                    head.env[nm] = self.fresh(f.kind, nm, cls=f.cls, opt=f.opt)
                elif v.kind in ("int", "bool", "real", "bits", "str"):
                    head.env[nm] = self.fresh(v.kind, nm, opt=True)
                    if v.kind == "bits":
                        head.assume(self.bits.wf(head.env[nm].t))
                elif v.kind == "ref":
                    head.env[nm] = SV("ref", z3.Const("%s!%d" % (nm, self._nf()), Ref), cls=v.cls)
                elif v.kind == "listiter" and hasattr(self, "fresh_listiter"):
                    head.env[nm] = self.fresh_listiter(head, nm, v)
                elif v.kind == "none":
                    ty = self.cur.locals.get(nm)
                    if self.lenient:
                        head.env[nm] = self.opaque()
                    else:
                        raise Unsupported("loop-assigned variable %s starts as None; declare its type in locals" % nm)
                else:
                    if self.lenient:
                        head.env[nm] = self.opaque()
                    else:
                        raise Unsupported("cannot havoc %s of kind %s" % (nm, v.kind))
            else:
                ty = self.cur.locals.get(nm)
                if ty is not None:
                    f = parse_type(ty)
                    head.env[nm] = self.fresh(f.kind, nm, cls=f.cls, opt=f.opt)
                # else: first bound inside the body
        for key in heap_keys:
            f = self.schema[key]
            arr, na = self.heap_arrays(head, key, f)
            k = self._nf()
            head.heap[key] = (z3.Const("lh_%s!%d" % (key.replace(".", "_").replace("*", "any"), k), arr.sort()),
                              z3.Const("lhn_%s!%d" % (key.replace(".", "_").replace("*", "any"), k), na.sort()) if na is not None else None)
        for loc in (L.modifies or []):
            self.havoc_loc(head, loc, head.env)
        inv_h = self.inv_eval(L.invariant, head, entry)
        head.assume(inv_h)
        # 3. exit path / body path
        after = []
        exits_out = []
        if is_while:
            cs = head.copy()
            cond = self.truthy(self.ev(s.test, cs))  # guard evaluated at the loop head, with its effects/assumptions
            ex_st = cs.copy()
            ex_st.assume(z3.Not(cond))
            after.append(ex_st)
            body_st = cs.copy()
            body_st.assume(cond)
        elif unbounded:
            body_st = head.copy()
            cnt = self.fresh("int", s.target.id)
            body_st.assume(cnt.t >= 0)
            body_st.env[s.target.id] = cnt
        else:
            after.append(head.copy())
            body_st = head.copy()
            # the loop variable
            self.bind_loop_target(body_st, s.target, it_val)
        v0 = None
        is_while = is_while or unbounded
        if is_while and L.decreases is not None:
            v0 = self.spec_value(L.decreases, body_st, self.old_state, None)
        self.loop_stack.append(tag)
        try:
            normal, exits = self.exec_block(s.body, [body_st])
        finally:
            self.loop_stack.pop()
        back = list(normal)
        for x in exits:
            if x.kind == "continue":
                back.append(x.state)
            elif x.kind == "break":
                after.append(x.state)
            else:
                exits_out.append(x)
        for i, b in enumerate(back):
            self.ob_invariant_preserved(L, b, entry, tag)
            if v0 is not None:
                v1 = self.spec_value(L.decreases, b, self.old_state, None)
                self._ob(b, z3.And(v1.t < v0.t, v0.t >= 0) if True else None, "%s.progress[decreases %s]" % (tag, L.decreases), "termination")
        if is_while and L.decreases is None and self.cur.terminates_required:
            self.obs.append(Ob("%s.%s.progress[no measure given]" % (self.cur_name, tag), st.pc, z3.BoolVal(False), s.lineno, "termination"))
        return after, exits_out

    pre_states = []

    def sp_pre(self, e, st):
        """value of an expression at the entry of the innermost enclosing loop"""
        if not self.pre_states:
            raise Unsupported("pre() outside a loop invariant")
        ps = self.pre_states[-1]
        saved = self.pre_states
        self.pre_states = saved[:-1]
        try:
            return self.ev(e.args[0], ps)
        finally:
            self.pre_states = saved

    def inv_eval(self, text, st, entry):
        self.pre_states = self.pre_states + [entry]
        try:
            return self.spec_eval(text, st, self.old_state, None)
        finally:
            self.pre_states = self.pre_states[:-1]

    def _nf(self):
        self.fresh_n += 1
        return self.fresh_n

    def ob_invariant_preserved(self, L, b, entry, tag):
        """obligation(s) 'the invariant holds again at the back edge'"""
        if getattr(L, "split", False):
            node = ast.parse(L.invariant.strip(), mode="eval").body
            if isinstance(node, ast.BoolOp) and isinstance(node.op, ast.And):
                for k, part in enumerate(node.values):
                    g = self.inv_eval(ast.unparse(part), b, entry)
                    if not z3.is_true(g):
                        self._ob(b, g, "%s.invariant-preserved[conjunct %d]" % (tag, k), "loop")
                return
        inv_b = self.inv_eval(L.invariant, b, entry)
        if not z3.is_true(inv_b):
            self._ob(b, inv_b, "%s.invariant-preserved" % tag, "loop")

    def _ob(self, st, goal, label, kind):
        name = "%s.%s" % (self.cur_name, label)
        n = sum(1 for o in self.obs if o.name == name or o.name.startswith(name + "#"))
        if n:
            name = "%s#%d" % (name, n)
        self.obs.append(Ob(name, st.pc, goal, None, kind))

    def default_loop(self, s, ordinal):
        return None

    def bind_loop_target(self, st, target, it_val):
        if isinstance(target, ast.Name):
            ty = self.cur.locals.get(target.id)
            if ty is not None:
                f = parse_type(ty)
                v = self.fresh(f.kind, target.id, cls=f.cls, opt=f.opt)
                if f.kind == "ref" and not f.opt:
                    st.assume(v.t != NONE)
                    v.x = "nonnull"
                st.env[target.id] = v
            elif self.lenient:
                st.env[target.id] = self.opaque()
            else:
                raise Unsupported("type of loop variable %s not declared" % target.id)
        elif self.lenient:
            for n in ast.walk(target):
                if isinstance(n, ast.Name):
                    st.env[n.id] = self.opaque()
        else:
            raise Unsupported("loop target")

    def assigned_in(self, stmts, st):
        """names assigned and heap keys possibly written by a block (syntactic, conservative)"""
        names, keys = set(), set()
        for stn in stmts:
            for n in ast.walk(stn):
                if isinstance(n, (ast.Assign, ast.AugAssign, ast.AnnAssign, ast.For, ast.With)):
                    targets = n.targets if isinstance(n, ast.Assign) else [getattr(n, "target", None)]
                    for t in targets:
                        if t is None:
                            continue
                        for m in ast.walk(t):
                            if isinstance(m, ast.Name) and isinstance(m.ctx, ast.Store):
                                names.add(m.id)
                            elif isinstance(m, ast.Attribute) and isinstance(m.ctx, ast.Store):
                                for key in self.schema:
                                    if key.endswith("." + m.attr):
                                        keys.add(key)
                            elif isinstance(m, ast.Subscript) and isinstance(m.ctx, ast.Store) and isinstance(m.value, ast.Attribute):
                                # obj.field[k] = v / obj.field[k] += v: the container held in the field changes
                                for key in self.schema:
                                    if key.endswith("." + m.value.attr):
                                        keys.add(key)
                elif isinstance(n, ast.Subscript) and isinstance(n.value, ast.Attribute):
                    # reading a defaultdict inserts the missing key
                    for key in self.schema:
                        if key.endswith("." + n.value.attr) and getattr(self.schema[key], "default", None) is not None:
                            keys.add(key)
                elif isinstance(n, ast.Call):
                    if isinstance(n.func, ast.Name) and n.func.id == "next" and n.args and isinstance(n.args[0], ast.Name):
                        names.add(n.args[0].id)   # next(it) advances the iterator the name holds
                    keys |= self.call_modifies(n)
                    if isinstance(n.func, ast.Attribute) and isinstance(n.func.value, ast.Attribute):
                        # obj.field.method(...): a mutating method of a modelled container
                        for key in self.schema:
                            if key.endswith("." + n.func.value.attr) and self.schema[key].kind.split(":")[0] in ("map", "set", "lenlist", "reflist"):
                                keys.add(key)
        return names, keys

    def call_modifies(self, call):
        """heap keys a call may write, from callee contracts (matched by method name)"""
        keys = set()
        nm = call.func.attr if isinstance(call.func, ast.Attribute) else (call.func.id if isinstance(call.func, ast.Name) else None)
        if nm is None:
            return keys
        for q, c in self.contracts.items():
            if q.split(".")[-1] == nm:
                for loc in c.modifies:
                    attr = loc[:-3].split(".")[-1] if loc.endswith("[*]") else loc.rpartition(".")[2]
                    for key in self.schema:
                        if key.endswith("." + attr):
                            keys.add(key)
        return keys


def _mentions_opaque(term):
    seen = set()
    todo = [term]
    while todo:
        t = todo.pop()
        if t.get_id() in seen:
            continue
        seen.add(t.get_id())
        if z3.is_const(t) and t.decl().kind() == z3.Z3_OP_UNINTERPRETED and str(t.decl().name()).startswith(("opq", "len!")):
            return True
        if z3.is_quantifier(t):
            todo.append(t.body())
        else:
            todo.extend(t.children())
    return False
