"""Repo-wide forwarding scans (AST, no solver): an argument a function accepts from its caller must reach the callees that decide with it.

scan(param, aliases, exact) walks every module under src/dendropy (legacy/test/vendor excluded):
  sinks   = callables (functions, methods, classes through __init__) with a parameter named `param` (or aliases[name]), plus functions reading the
            key `param` from **kwargs;
  records = for every function in whose scope a caller-given value of `param` is available (own parameter, attribute kept by the class's __init__,
            **kwargs key): each call of a sink, with the verdict whether the argument for the sink's parameter is an expression that READS the
            caller's value (exact=False) or IS the caller's value, unchanged (exact=True: a negated, constant or recomputed flag fails).
Calls are matched by the callee's NAME."""
import ast
import os

from dpvc import frontend
from dpvc.ctx import SRC

SKIP_DIRS = ("legacy", "test", "vendor")
GENERIC_NAMES = ("append", "insert", "count", "extend", "add", "update", "pop", "get", "remove", "index")


def modules():
    out = []
    root = os.path.join(SRC, "dendropy")
    for d, dirs, files in os.walk(root):
        dirs[:] = sorted(x for x in dirs if x not in SKIP_DIRS and not x.startswith("__"))
        for f in sorted(files):
            if f.endswith(".py"):
                rel = os.path.relpath(os.path.join(d, f), SRC)[:-3].replace(os.sep, ".")
                if rel.endswith(".__init__"):
                    rel = rel[:-9]
                out.append(rel)
    return out


def _params(fn):
    return [a.arg for a in fn.args.posonlyargs + fn.args.args] + [a.arg for a in fn.args.kwonlyargs]


def scan(P, aliases=None, exact=False):
    """-> (sinks, kept, records); a record = (module, qualified function, callee name, line, ok, why)"""
    aliases = aliases or {}
    alias_names = set(aliases.values())

    def mentions(e):
        for n in ast.walk(e):
            if isinstance(n, ast.Name) and (n.id == P or n.id in alias_names):
                return True
            if isinstance(n, ast.Attribute) and n.attr == P:
                return True
            if isinstance(n, ast.Constant) and n.value == P:
                return True
        return False

    def is_value(e):
        if isinstance(e, ast.Name) and (e.id == P or e.id in alias_names):
            return True
        if isinstance(e, ast.Attribute) and e.attr == P and isinstance(e.value, ast.Name) and e.value.id == "self":
            return True
        if isinstance(e, ast.Constant) and e.value == P:   # stands for **kwargs handed on as they are
            return True
        if isinstance(e, ast.Call) and isinstance(e.func, ast.Attribute) and e.func.attr in ("pop", "get") and e.args \
                and isinstance(e.args[0], ast.Constant) and e.args[0].value == P:
            return True   # the caller's keyword (or the documented default when it gave none)
        return False

    good = is_value if exact else mentions
    mods = []
    for mn in modules():
        try:
            mods.append(frontend.module(mn))
        except SyntaxError:
            continue
    sinks = {}
    kept = {}
    for m in mods:
        for fname, fn in m.functions.items():
            ps = _params(fn)
            pn = P if P in ps else (aliases.get(fname) if aliases.get(fname) in ps else None)
            if pn:
                sinks.setdefault(fname, (pn, ps.index(pn)))
        for cname, ci in m.classes.items():
            for mname, fn in ci.methods.items():
                ps = [p for p in _params(fn) if p not in ("self", "cls")]
                pn = P if P in ps else (aliases.get(mname) if aliases.get(mname) in ps else None)
                if not pn:
                    continue
                if mname == "__init__":
                    sinks.setdefault(cname, (pn, ps.index(pn)))
                    stored = any(isinstance(s, ast.Assign) and any(isinstance(t, ast.Attribute) and t.attr == P and isinstance(t.value, ast.Name) and t.value.id == "self"
                                                                     for t in s.targets) and mentions(s.value) for s in ast.walk(fn))
                    kept[(m.modname, cname)] = stored or "handed-on"
                else:
                    sinks.setdefault(mname, (pn, ps.index(pn)))
    for m in mods:  # functions and methods that take the value through **kwargs
        fns = list(m.functions.items()) + [(mn_, fn_) for ci in m.classes.values() for mn_, fn_ in ci.methods.items()]
        for fname, fn in fns:
            if fname not in sinks and fn.args.kwarg is not None and any(isinstance(n, ast.Constant) and n.value == P for n in ast.walk(fn)):
                sinks[fname] = (P, 10 ** 6)
    for nm in GENERIC_NAMES:   # names shared with the built-in containers: a call `x.append(..)` says nothing about which append it is
        sinks.pop(nm, None)
    recs = []

    def visit(m, qual, fn, in_scope):
        own_class = qual.split(".")[0] if "." in qual else None
        ps = _params(fn)
        reads_kwargs = any(isinstance(n, ast.Constant) and n.value == P for n in ast.walk(fn))
        scope = in_scope or P in ps or reads_kwargs or (fn.name in aliases and aliases[fn.name] in ps)
        if not scope:
            return
        for call in [n for n in ast.walk(fn) if isinstance(n, ast.Call)]:
            cn = call.func.attr if isinstance(call.func, ast.Attribute) else (call.func.id if isinstance(call.func, ast.Name) else None)
            if cn == "cls" and own_class is not None:
                cn = own_class   # cls(...) in a class method constructs the class itself
            if cn not in sinks or cn == "__init__":   # (Base.__init__(self, ...) calls say nothing: which __init__ is not known by name)
                continue
            pn, pos = sinks[cn]
            passed = None
            for k in call.keywords:
                if k.arg == pn:
                    passed = k.value
            if passed is None and len(call.args) > pos and not any(isinstance(a, ast.Starred) for a in call.args):
                passed = call.args[pos]
            if passed is None:
                for k in call.keywords:
                    if k.arg is None:
                        passed = k.value  # **kwargs carries whatever the caller gave
                        if isinstance(passed, ast.Name):
                            passed = ast.Constant(P)
            ok = passed is not None and good(passed)
            why = None if ok else ("%s is not given to %s (the default applies although the caller chose a value)" % (pn, cn) if passed is None
                                   else "%s gets %s=%s, which %s" % (cn, pn, ast.unparse(passed), "is not the caller's value unchanged" if exact else "does not depend on the caller's value"))
            recs.append((m.modname, qual, cn, call.lineno, ok, why))

    for m in mods:
        for fname, fn in m.functions.items():
            visit(m, fname, fn, False)
        for cname, ci in m.classes.items():
            has = (m.modname, cname) in kept
            for mname, fn in ci.methods.items():
                visit(m, "%s.%s" % (cname, mname), fn, has and mname != "__init__")
    return sinks, kept, recs


def obligations(ctx, P, select, what, aliases=None, exact=True, native=None):
    """one obligation `<what>[f -> g@Ln]` per recorded call site whose module passes `select`; a failing one is reported with the input
    `native(module, qualified function)` finds, else as no-failing-input-found.  -> number of sites"""
    import time
    t0 = time.time()
    sinks, kept, recs = scan(P, aliases, exact)
    n = 0
    for mn, qual, cn, line, ok, why in recs:
        if not select(mn):
            continue
        n += 1
        name = "%s[%s.%s -> %s@L%d]" % (what, mn.split(".")[-1], qual, cn, line)
        tgt = "%s:%s" % (mn, qual)
        ctx.add_function(tgt)
        ctx.obligation(name, "proved" if ok else "refuted", "ast-scan", (time.time() - t0) if n == 1 else 0.0, tgt, detail=why)
        if not ok:
            w = native(mn, qual) if native is not None else None
            if w:
                ctx.fail(name, dict(dict(w), key="%s|%s.%s|%s" % (P, mn, qual, w.get("key", "")), function=tgt, why=why),
                         detail="%s; native: %s" % (why, w.get("outcome")), kind="T1")
            else:
                ctx.fail(name, dict(key="site:%s.%s->%s" % (mn, qual, cn), function=tgt, why=why), detail=why, kind="T1", no_input=True)
    return n
