"""Per-property registry: what is claimed, at which level.  MANIFEST.json is
generated from this table by `python3-vt -m dpvc.manifest_gen`."""

COMMON_TRUSTED = [
    "CPython semantics as encoded by dpvc (DESIGN.md section 3): declared sidecar types, truthiness, no operator overloading on the types under contract",
    "z3 5.1.0 (python3-vt wheel), /usr/bin/cvc5 1.0.3 as fallback, Lean 4.33 + Mathlib for lemma files",
    "the dpvc VC generator itself (mitigated on every run by must-fail sentinels and the CPython cross-check)",
]

NOT_READY = "check not built yet in this session; see DESIGN.md section 5 for the plan"

# level: the level MANIFEST claims; claimed: whether a check is registered
PROPS = {
    "C%02d" % i: dict(level="exploration", claimed=False, technique="", text="", note="", na_reason=NOT_READY)
    for i in range(1, 21)
}


def claim(pid, level, technique, text, note, design_ref):
    PROPS[pid].update(level=level, claimed=True, technique=technique, text=text, note=note, design_ref=design_ref)


from . import claims  # noqa: E402,F401  (fills PROPS)
