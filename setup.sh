#!/bin/bash
# Offline setup: nothing to build (pure Python run by python3-vt); verify the tools are there.
set -e
cd "$(dirname "$0")"
python3-vt -c "import z3, sys; sys.path.insert(0,'/repo/src'); import dendropy; print('z3', z3.get_version_string(), 'dendropy', dendropy.__version__)"
command -v cvc5 >/dev/null && echo "cvc5 ok" || echo "cvc5 missing (fallback solver unavailable)"
command -v lean >/dev/null && echo "lean ok" || echo "lean missing"
mkdir -p evidence replays
# warm the page cache for the Mathlib .olean files the lemma layer imports (a cold first `lean` run takes minutes)
if command -v lean >/dev/null; then
  for f in lemmas/*.lean; do
    [ -f "$f" ] && (cd /opt/veriftools/mathlib4 && LEAN_PATH="$(python3-vt -c 'import sys; sys.path.insert(0,"/verif"); from dpvc.lean import _lean_path; print(_lean_path())')" timeout 900 lean "/verif/$f" >/dev/null 2>&1 || true)
  done
fi
