#!/bin/bash
# Offline setup: nothing to build (pure Python run by python3-vt); verify the tools are there.
set -e
cd "$(dirname "$0")"
python3-vt -c "import z3, sys; sys.path.insert(0,'/repo/src'); import dendropy; print('z3', z3.get_version_string(), 'dendropy', dendropy.__version__)"
command -v cvc5 >/dev/null && echo "cvc5 ok" || echo "cvc5 missing (fallback solver unavailable)"
command -v lean >/dev/null && echo "lean ok" || echo "lean missing"
mkdir -p evidence replays
